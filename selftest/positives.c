/* Positive examples for the C engines (MT). Never linked, never executed. */
#include <pthread.h>
typedef struct { int state; pthread_mutex_t* mutex; pthread_cond_t* cv; } descent_trial;
enum { WAIT, RUN, TERMINATE };

/* MT-2: waits without testing the predicate under the mutex first */
void st_mt2_blind_wait(descent_trial* t) {
	pthread_mutex_lock(t->mutex);
	pthread_cond_wait(t->cv, t->mutex);
	pthread_mutex_unlock(t->mutex);
}
/* negative twin */
void st_mt2_guarded_wait(descent_trial* t) {
	pthread_mutex_lock(t->mutex);
	while (t->state == WAIT)
		pthread_cond_wait(t->cv, t->mutex);
	pthread_mutex_unlock(t->mutex);
}
/* MT-1 / MT-3: store to state without the mutex, and without broadcast */
void st_mt13_racy_store(descent_trial* t) {
	t->state = RUN;
}

/* SP-1: a cached array pointer of a CHOLMOD factor read after a call that may move the arrays */
#include <cholmod.h>
long st_sp1_stale(cholmod_factor* L, cholmod_common* c) {
	long* Li = (long*)(L->i);
	cholmod_l_reallocate_column(0, 4, L, c);
	return Li[0];
}
/* negative twin: reloaded */
long st_sp1_reloaded(cholmod_factor* L, cholmod_common* c) {
	long* Li = (long*)(L->i);
	cholmod_l_reallocate_column(0, 4, L, c);
	Li = (long*)(L->i);
	return Li[0];
}
/* SP-2: field read through a released (nulled) object variable */
double st_sp2_released(cholmod_dense* X, cholmod_common* c) {
	cholmod_l_free_dense(&X, c);
	return ((double*)(X->x))[0];
}
