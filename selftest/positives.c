/* Positive examples for the C engines (MT). Never linked, never executed. */
#include <pthread.h>
typedef struct { int state; pthread_mutex_t* mutex; pthread_cond_t* cv; } descent_trial;
enum { WAIT, RUN, TERMINATE };

/* MT-2: waits without testing the predicate under the mutex first */
void st_mt2_blind_wait(descent_trial* t) {
	pthread_mutex_lock(t->mutex);
	pthread_cond_wait(t->cv, t->mutex);
	pthread_mutex_unlock(t->mutex);
}
/* negative twin */
void st_mt2_guarded_wait(descent_trial* t) {
	pthread_mutex_lock(t->mutex);
	while (t->state == WAIT)
		pthread_cond_wait(t->cv, t->mutex);
	pthread_mutex_unlock(t->mutex);
}
/* MT-1 / MT-3: store to state without the mutex, and without broadcast */
void st_mt13_racy_store(descent_trial* t) {
	t->state = RUN;
}
