// Positive examples: tiny programs that violate the generic rules.  Every quick run feeds them to the
// engines; an engine that fails to flag its example is broken (exit 2).  Never linked, never executed.
#include <stdexcept>
#include <new>
#include <cstdlib>
#include <vector>

extern "C" int st_ffwrite(void* f, int* status);      // cfitsio-style: status out-parameter
extern "C" int st_ffclos(void* f, int* status);

void st_throws(int x) { if (x) throw std::runtime_error("x"); }

// CW-1: exception escapes an extern "C" function
extern "C" int st_cw1_escape(int x) { st_throws(x); return 0; }
// CW-1 negative twin: contained
extern "C" int st_cw1_contained(int x) { try { st_throws(x); } catch (...) { return 1; } return 0; }

// ED-1: status printed/ignored, never checked
void st_ed1_dropped(void* f) {
	int error = 0;
	st_ffwrite(f, &error);
}
void st_ed1_checked(void* f) {
	int error = 0;
	st_ffwrite(f, &error);
	if (error != 0) throw std::runtime_error("write failed");
}

namespace psv_selftest {
// TS-2: a mutator that modifies a member and then may throw, with no resetting handler
template <typename A = void>
struct splinetable {
	unsigned ndim;
	double* coefficients;
	double* periods;
	// NL-1: a possibly-null array read without / with a test
	double st_nl1_blind(unsigned d) { return periods[d]; }
	double st_nl1_tested(unsigned d) { return periods ? periods[d] : 0; }
	void clear() { ndim = 0; coefficients = nullptr; }
	void st_ts2_unprotected(unsigned n) {
		ndim = n;
		coefficients = new double[n];      // raises after the object was modified
	}
	void st_ts2_protected(unsigned n) {
		try {
			ndim = n;
			coefficients = new double[n];
		} catch (...) { clear(); throw; }
	}
};
template struct splinetable<void>;
}

// ENV-1: a routine that switches on flush-to-zero for the rest of the thread
#include <xmmintrin.h>
void st_env1_ftz() { _mm_setcsr(_mm_getcsr() | 0x8040); }

// PR-1: a double-precision instantiation that accumulates in float / its clean twin
template<typename Float> Float st_pr1_narrow(const Float* a, int n) { float r = 0; for (int i = 0; i < n; i++) r += a[i]; return r; }
template<typename Float> Float st_pr1_clean(const float* c, const Float* a, int n) { Float r = 0; for (int i = 0; i < n; i++) r += c[i] * a[i]; return r; }
double st_pr1_use(const double* a, const float* c, int n) { return st_pr1_narrow<double>(a, n) + st_pr1_clean<double>(c, a, n); }

// RE-1: scratch kept in a static local / its clean twin
double st_re1_static(const double* a, int n) { static std::vector<double> scratch; scratch.assign(a, a + n); double r = 0; for (double v : scratch) r += v; return r; }
double st_re1_clean(const double* a, int n) { static const double one = 1.0; std::vector<double> scratch(a, a + n); double r = 0; for (double v : scratch) r += v * one; return r; }
