#!/bin/sh
# Build the extractor from files on disk only (offline). ~30 s.
set -e
cd "$(dirname "$0")"
mkdir -p bin evidence/replay .cache
if [ ! -x bin/psx ] || [ psx/psx.cc -nt bin/psx ]; then
  clang++ $(llvm-config-14 --cxxflags) -fno-rtti -O1 psx/psx.cc -o bin/psx \
    /usr/lib/llvm-14/lib/libclang-cpp.so.14 /usr/lib/llvm-14/lib/libLLVM-14.so
fi
python3 -m compileall -q psv >/dev/null
echo "setup ok"
