#!/bin/sh
# Run the repository's own test suite with no verification guard defined
# (there are no hooks; the guard is unused), in a scratch build directory.
set -e
B=$(mktemp -d /tmp/psv-baseline.XXXXXX)
trap 'rm -rf "$B"' EXIT
cmake -G Ninja -S /repo -B "$B" -DCMAKE_BUILD_TYPE=RelWithDebInfo -DCMAKE_CXX_FLAGS=-Wno-error -DCMAKE_C_FLAGS=-Wno-error >/dev/null
# libcphotospline does not build under g++ 12 with the project's own -Werror (pre-existing
# -Wvolatile-register-var in bspline_multi.h); the pinned suite does not link it, so keep going.
cmake --build "$B" -j16 -- -k 0 >/dev/null 2>&1 || true
ctest --test-dir "$B" -j8 --timeout 900 --output-junit "$B/junit.xml"
