// psx — photospline extractor.
// libTooling tool: for every function definition located under the analysed
// roots (PSX_ROOTS, ':'-separated; default /repo) it writes the type-checked
// statement/expression tree and the clang::CFG as JSON.  Template
// instantiations are visited, dependent contexts are skipped.
//
// usage: psx <out.json> <source> -- <compiler flags>
//
// Nothing of the analysed program is executed; clang's constant evaluator is
// used only for integer constant expressions (EvaluateAsInt).

#include "clang/AST/ASTConsumer.h"
#include "clang/AST/ASTContext.h"
#include "clang/AST/DeclCXX.h"
#include "clang/AST/DeclTemplate.h"
#include "clang/AST/ExprCXX.h"
#include "clang/AST/RecursiveASTVisitor.h"
#include "clang/AST/StmtCXX.h"
#include "clang/Analysis/CFG.h"
#include "clang/Frontend/CompilerInstance.h"
#include "clang/Frontend/FrontendAction.h"
#include "clang/Index/USRGeneration.h"
#include "clang/Lex/Lexer.h"
#include "clang/Tooling/CompilationDatabase.h"
#include "clang/Tooling/Tooling.h"
#include "llvm/Support/raw_ostream.h"

#include <cstdlib>
#include <fstream>
#include <map>
#include <set>
#include <sstream>
#include <string>
#include <vector>

using namespace clang;

static std::vector<std::string> g_roots;
static std::string g_out;
static bool g_had_error = false;

// ---------------------------------------------------------------- JSON util
static std::string jstr(llvm::StringRef s) {
  std::string o = "\"";
  for (unsigned char c : s) {
    switch (c) {
    case '"': o += "\\\""; break;
    case '\\': o += "\\\\"; break;
    case '\n': o += "\\n"; break;
    case '\r': o += "\\r"; break;
    case '\t': o += "\\t"; break;
    default:
      if (c < 0x20 || c >= 0x7f) {
        char b[8];
        snprintf(b, sizeof b, "\\u%04x", c);
        o += b;
      } else
        o += (char)c;
    }
  }
  o += "\"";
  return o;
}

struct Obj {
  std::string s;
  bool first = true;
  Obj() { s = "{"; }
  void key(const char *k) {
    if (!first) s += ",";
    first = false;
    s += "\"";
    s += k;
    s += "\":";
  }
  void str(const char *k, llvm::StringRef v) { key(k); s += jstr(v); }
  void num(const char *k, long long v) { key(k); s += std::to_string(v); }
  void boolean(const char *k, bool v) { key(k); s += v ? "true" : "false"; }
  void raw(const char *k, const std::string &v) { key(k); s += v; }
  std::string done() { return s + "}"; }
};

static std::string jlist(const std::vector<std::string> &v) {
  std::string o = "[";
  for (size_t i = 0; i < v.size(); i++) {
    if (i) o += ",";
    o += v[i];
  }
  return o + "]";
}
static std::string jintlist(const std::vector<long long> &v) {
  std::string o = "[";
  for (size_t i = 0; i < v.size(); i++) {
    if (i) o += ",";
    o += std::to_string(v[i]);
  }
  return o + "]";
}

// ------------------------------------------------------------- the dumper
class Extractor {
public:
  ASTContext &Ctx;
  SourceManager &SM;
  PrintingPolicy PP;
  std::vector<std::string> functions, classes, decls, globals;
  std::set<const Decl *> seenFn, seenRec;
  std::vector<const FunctionDecl *> work;

  Extractor(ASTContext &C) : Ctx(C), SM(C.getSourceManager()), PP(C.getLangOpts()) {
    PP.SuppressTagKeyword = true;
    PP.SuppressUnwrittenScope = true;
  }

  std::string fileOf(SourceLocation L) {
    if (L.isInvalid()) return "";
    SourceLocation E = SM.getExpansionLoc(L);
    const FileEntry *FE = SM.getFileEntryForID(SM.getFileID(E));
    if (!FE) return "";
    llvm::SmallString<256> p(FE->tryGetRealPathName());
    if (p.empty()) p = FE->getName();
    return std::string(p.str());
  }
  bool underRoots(SourceLocation L) {
    std::string f = fileOf(L);
    if (f.empty()) return false;
    for (auto &r : g_roots)
      if (f.compare(0, r.size(), r) == 0) return true;
    return false;
  }
  unsigned lineOf(SourceLocation L) { return SM.getExpansionLineNumber(L); }
  unsigned colOf(SourceLocation L) { return SM.getExpansionColumnNumber(L); }

  std::string typeStr(QualType T) {
    if (T.isNull()) return "";
    return T.getAsString(PP);
  }
  std::string canonTypeStr(QualType T) {
    if (T.isNull()) return "";
    return T.getCanonicalType().getAsString(PP);
  }

  std::string qname(const NamedDecl *D) {
    if (const auto *TD = dyn_cast<TagDecl>(D))
      if (!TD->getIdentifier())
        if (const TypedefNameDecl *TN = TD->getTypedefNameForAnonDecl())
          return TN->getNameAsString();
    std::string s;
    llvm::raw_string_ostream os(s);
    D->getNameForDiagnostic(os, PP, true);
    return os.str();
  }
  std::string usr(const Decl *D) {
    llvm::SmallString<256> buf;
    if (index::generateUSRForDecl(D, buf)) return "";
    return std::string(buf.str());
  }

  std::vector<std::string> macroStack(SourceLocation L) {
    std::vector<std::string> r;
    int guard = 0;
    while (L.isMacroID() && guard++ < 16) {
      r.push_back(jstr(Lexer::getImmediateMacroName(L, SM, Ctx.getLangOpts())));
      if (SM.isMacroArgExpansion(L))
        L = SM.getImmediateExpansionRange(L).getBegin();
      else
        L = SM.getImmediateExpansionRange(L).getBegin();
    }
    return r;
  }

  // reference to a function (callee or address taken)
  std::string fnRef(const FunctionDecl *F) {
    Obj o;
    o.str("name", F->getDeclName().isIdentifier() && F->getIdentifier()
                      ? F->getName()
                      : llvm::StringRef(F->getNameAsString()));
    o.str("qname", qname(F));
    o.str("usr", usr(F));
    o.boolean("externC", F->isExternC());
    bool nothrow = false;
    if (const auto *FPT = F->getType()->getAs<FunctionProtoType>())
      nothrow = FPT->isNothrow();
    o.boolean("noexcept", nothrow);
    const FunctionDecl *Def = nullptr;
    o.boolean("hasBody", F->hasBody(Def));
    o.boolean("inRoots", underRoots(F->getLocation()));
    o.boolean("variadic", F->isVariadic());
    if (const auto *M = dyn_cast<CXXMethodDecl>(F)) {
      o.str("cls", qname(M->getParent()));
      o.boolean("isStatic", M->isStatic());
      if (isa<CXXConstructorDecl>(M)) o.str("mkind", "ctor");
      else if (isa<CXXDestructorDecl>(M)) o.str("mkind", "dtor");
      else o.str("mkind", "method");
    }
    if (const TemplateArgumentList *TAL = F->getTemplateSpecializationArgs()) {
      std::vector<std::string> ta;
      for (const TemplateArgument &A : TAL->asArray()) templArg(A, ta);
      o.raw("targs", jlist(ta));
    }
    o.str("rtype", typeStr(F->getReturnType()));
    return o.done();
  }
  void templArg(const TemplateArgument &A, std::vector<std::string> &out) {
    if (A.getKind() == TemplateArgument::Pack) {
      std::vector<std::string> inner;
      for (const TemplateArgument &B : A.pack_elements()) templArg(B, inner);
      out.push_back(jlist(inner));
      return;
    }
    std::string s;
    llvm::raw_string_ostream os(s);
    A.print(PP, os, true);
    if (A.getKind() == TemplateArgument::Integral)
      out.push_back(std::to_string(A.getAsIntegral().getExtValue()));
    else
      out.push_back(jstr(os.str()));
  }

  // ---- per function state
  std::map<const Stmt *, int> nodeId;
  std::map<const ValueDecl *, int> localId;
  std::vector<std::string> nodes;

  int declId(const ValueDecl *D) {
    auto it = localId.find(D);
    if (it != localId.end()) return it->second;
    int id = (int)localId.size();
    localId[D] = id;
    return id;
  }

  std::string valueDeclRef(const ValueDecl *D) {
    Obj o;
    const char *kind = "other";
    if (isa<ParmVarDecl>(D)) kind = "ParmVar";
    else if (const auto *V = dyn_cast<VarDecl>(D))
      kind = V->isLocalVarDecl() ? "Var" : (V->isStaticDataMember() ? "StaticMember" : "GlobalVar");
    else if (isa<FieldDecl>(D)) kind = "Field";
    else if (isa<FunctionDecl>(D)) kind = "Function";
    else if (isa<EnumConstantDecl>(D)) kind = "EnumConstant";
    else if (isa<NonTypeTemplateParmDecl>(D)) kind = "NTTP";
    else if (isa<BindingDecl>(D)) kind = "Binding";
    o.str("kind", kind);
    o.str("name", D->getNameAsString());
    o.num("id", declId(D));
    o.str("type", typeStr(D->getType()));
    if (const auto *F = dyn_cast<FunctionDecl>(D)) o.raw("fn", fnRef(F));
    if (const auto *V = dyn_cast<VarDecl>(D))
      if (!V->isLocalVarDeclOrParm()) o.str("qname", qname(V));
    if (const auto *E = dyn_cast<EnumConstantDecl>(D))
      o.num("v", E->getInitVal().getExtValue());
    return o.done();
  }

  int dumpStmt(const Stmt *S) {
    if (!S) return -1;
    auto it = nodeId.find(S);
    if (it != nodeId.end()) return it->second;
    int id = (int)nodes.size();
    nodeId[S] = id;
    nodes.emplace_back();
    Obj o;
    o.str("k", S->getStmtClassName());
    SourceLocation B = S->getBeginLoc();
    o.raw("loc", jintlist({(long long)lineOf(B), (long long)colOf(B)}));
    std::string f = fileOf(B);
    o.str("f", f);
    if (B.isMacroID()) {
      auto ms = macroStack(B);
      if (!ms.empty()) o.raw("macros", jlist(ms));
    }
    std::vector<long long> ch;
    bool customChildren = false;

    if (const auto *E = dyn_cast<Expr>(S)) {
      o.str("t", typeStr(E->getType()));
      std::string ct = canonTypeStr(E->getType());
      if (ct != typeStr(E->getType())) o.str("ct", ct);
      if (E->isLValue()) o.boolean("lv", true);
      if (!E->isValueDependent() && !E->isTypeDependent() &&
          E->getType()->isIntegralOrEnumerationType()) {
        Expr::EvalResult R;
        if (E->EvaluateAsInt(R, Ctx, Expr::SE_NoSideEffects) && R.Val.isInt())
          o.num("cv", R.Val.getInt().getExtValue());
      }
    }

    if (const auto *DRE = dyn_cast<DeclRefExpr>(S)) {
      o.raw("decl", valueDeclRef(DRE->getDecl()));
    } else if (const auto *ME = dyn_cast<MemberExpr>(S)) {
      const ValueDecl *MD = ME->getMemberDecl();
      o.str("member", MD->getNameAsString());
      o.boolean("arrow", ME->isArrow());
      if (const auto *FD = dyn_cast<FieldDecl>(MD)) {
        o.str("fieldOf", qname(FD->getParent()));
        o.str("mtype", typeStr(FD->getType()));
      } else if (const auto *FnD = dyn_cast<FunctionDecl>(MD)) {
        o.raw("fn", fnRef(FnD));
      } else if (const auto *VD = dyn_cast<VarDecl>(MD)) {
        o.str("staticMember", qname(VD));
      }
    } else if (const auto *IL = dyn_cast<IntegerLiteral>(S)) {
      o.num("v", IL->getValue().getLimitedValue());
    } else if (const auto *FL = dyn_cast<FloatingLiteral>(S)) {
      o.key("v");
      std::ostringstream ss;
      ss.precision(17);
      double d = FL->getValueAsApproximateDouble();
      ss << d;
      std::string t = ss.str();
      if (t.find("inf") != std::string::npos || t.find("nan") != std::string::npos) t = "null";
      o.s += t;
    } else if (const auto *SL = dyn_cast<clang::StringLiteral>(S)) {
      if (SL->getCharByteWidth() == 1) o.str("v", SL->getString());
    } else if (const auto *CL = dyn_cast<CharacterLiteral>(S)) {
      o.num("v", CL->getValue());
    } else if (const auto *BL = dyn_cast<CXXBoolLiteralExpr>(S)) {
      o.num("v", BL->getValue() ? 1 : 0);
    } else if (const auto *BO = dyn_cast<BinaryOperator>(S)) {
      o.str("op", BO->getOpcodeStr());
    } else if (const auto *UO = dyn_cast<UnaryOperator>(S)) {
      o.str("op", UnaryOperator::getOpcodeStr(UO->getOpcode()));
      o.boolean("postfix", UO->isPostfix());
    } else if (const auto *CE = dyn_cast<CastExpr>(S)) {
      o.str("cast", CE->getCastKindName());
    } else if (const auto *UE = dyn_cast<UnaryExprOrTypeTraitExpr>(S)) {
      o.str("trait", UE->getKind() == UETT_SizeOf ? "sizeof" : "other");
      o.str("argType", typeStr(UE->getTypeOfArgument()));
    } else if (const auto *SN = dyn_cast<SubstNonTypeTemplateParmExpr>(S)) {
      o.str("param", SN->getParameter()->getNameAsString());
    } else if (const auto *SP = dyn_cast<SizeOfPackExpr>(S)) {
      o.str("pack", SP->getPack()->getNameAsString());
      if (!SP->isValueDependent()) o.num("v", SP->getPackLength());
    } else if (const auto *NE = dyn_cast<CXXNewExpr>(S)) {
      o.boolean("array", NE->isArray());
      o.str("allocType", typeStr(NE->getAllocatedType()));
      bool nt = false;
      if (const FunctionDecl *ON = NE->getOperatorNew())
        if (const auto *FPT = ON->getType()->getAs<FunctionProtoType>()) nt = FPT->isNothrow();
      o.boolean("nothrowNew", nt);
      o.num("placementArgs", NE->getNumPlacementArgs());
    } else if (const auto *DE = dyn_cast<CXXDeleteExpr>(S)) {
      o.boolean("array", DE->isArrayForm());
      o.str("destroyedType", typeStr(DE->getDestroyedType()));
      if (!DE->getDestroyedType().isNull()) o.str("destroyedCType", canonTypeStr(DE->getDestroyedType()));
      bool hasDtor = false;
      if (!DE->getDestroyedType().isNull())
        if (const CXXRecordDecl *RD = DE->getDestroyedType()->getAsCXXRecordDecl())
          hasDtor = RD->hasDefinition() && RD->hasNonTrivialDestructor();
      o.boolean("nonTrivialDtor", hasDtor);
    } else if (const auto *TE = dyn_cast<CXXThrowExpr>(S)) {
      o.boolean("rethrow", TE->getSubExpr() == nullptr);
    } else if (const auto *CS = dyn_cast<CXXCatchStmt>(S)) {
      o.boolean("catchAll", CS->getExceptionDecl() == nullptr);
      if (CS->getExceptionDecl()) {
        o.str("catchType", typeStr(CS->getCaughtType()));
        o.num("var", declId(CS->getExceptionDecl()));
      }
    } else if (const auto *LE = dyn_cast<LambdaExpr>(S)) {
      if (const CXXMethodDecl *Op = LE->getCallOperator()) {
        o.str("lambdaUsr", usr(Op));
        enqueue(Op);
      }
      // variables captured BY COPY (explicitly or through a [=] default): the lambda sees their value at its creation
      std::vector<std::string> copies;
      for (const LambdaCapture &Cap : LE->captures())
        if (Cap.capturesVariable() && Cap.getCaptureKind() == LCK_ByCopy)
          copies.push_back(jstr(Cap.getCapturedVar()->getNameAsString()));
      if (!copies.empty()) o.raw("copyCaptures", jlist(copies));
    } else if (const auto *DS = dyn_cast<DeclStmt>(S)) {
      std::vector<std::string> ds;
      for (const Decl *D : DS->decls()) {
        Obj d;
        if (const auto *V = dyn_cast<VarDecl>(D)) {
          d.str("dk", "Var");
          d.str("name", V->getNameAsString());
          d.num("id", declId(V));
          d.str("type", typeStr(V->getType()));
          d.str("ctype", canonTypeStr(V->getType()));
          d.boolean("static", V->isStaticLocal());
          if (V->hasInit()) {
            int c = dumpStmt(V->getInit());
            d.num("init", c);
            ch.push_back(c);
          }
          // VLA extents
          std::vector<long long> ext;
          QualType T = V->getType();
          while (const ArrayType *AT = T->getAsArrayTypeUnsafe()) {
            if (const auto *VAT = dyn_cast<VariableArrayType>(AT)) {
              int c = dumpStmt(VAT->getSizeExpr());
              ext.push_back(c);
              ch.push_back(c);
            } else if (const auto *CAT = dyn_cast<ConstantArrayType>(AT)) {
              (void)CAT;
              ext.push_back(-1);
            } else
              ext.push_back(-2);
            T = AT->getElementType();
          }
          if (!ext.empty()) {
            d.raw("extents", jintlist(ext));
            if (V->getType()->isVariablyModifiedType()) d.boolean("vla", true);
            if (const auto *CAT = dyn_cast_or_null<ConstantArrayType>(V->getType()->getAsArrayTypeUnsafe()))
              d.num("constExtent", CAT->getSize().getLimitedValue());
          }
        } else if (const auto *R = dyn_cast<RecordDecl>(D)) {
          d.str("dk", "Record");
          d.str("name", R->getNameAsString());
          d.str("qname", qname(R));
          if (const auto *CR = dyn_cast<CXXRecordDecl>(R)) noteRecord(CR);
        } else if (const auto *TD = dyn_cast<TypedefNameDecl>(D)) {
          d.str("dk", "Typedef");
          d.str("name", TD->getNameAsString());
        } else if (const auto *UD = dyn_cast<UsingDecl>(D)) {
          d.str("dk", "Using");
          d.str("name", UD->getNameAsString());
        } else {
          d.str("dk", D->getDeclKindName());
        }
        ds.push_back(d.done());
      }
      o.raw("decls", jlist(ds));
      customChildren = true;
    } else if (const auto *IS = dyn_cast<IfStmt>(S)) {
      if (IS->getInit()) o.num("init", dumpStmt(IS->getInit()));
      if (IS->getConditionVariableDeclStmt()) o.num("condVar", dumpStmt(IS->getConditionVariableDeclStmt()));
      o.num("cond", dumpStmt(IS->getCond()));
      o.num("then", dumpStmt(IS->getThen()));
      o.num("else", dumpStmt(IS->getElse()));
    } else if (const auto *FS = dyn_cast<ForStmt>(S)) {
      o.num("init", dumpStmt(FS->getInit()));
      o.num("cond", dumpStmt(FS->getCond()));
      o.num("inc", dumpStmt(FS->getInc()));
      o.num("body", dumpStmt(FS->getBody()));
    } else if (const auto *WS = dyn_cast<WhileStmt>(S)) {
      o.num("cond", dumpStmt(WS->getCond()));
      o.num("body", dumpStmt(WS->getBody()));
    } else if (const auto *DoS = dyn_cast<DoStmt>(S)) {
      o.num("body", dumpStmt(DoS->getBody()));
      o.num("cond", dumpStmt(DoS->getCond()));
    } else if (const auto *SS = dyn_cast<SwitchStmt>(S)) {
      o.num("cond", dumpStmt(SS->getCond()));
      o.num("body", dumpStmt(SS->getBody()));
    } else if (const auto *CaS = dyn_cast<CaseStmt>(S)) {
      o.num("lhs", dumpStmt(CaS->getLHS()));
      o.num("sub", dumpStmt(CaS->getSubStmt()));
    } else if (const auto *DfS = dyn_cast<DefaultStmt>(S)) {
      o.num("sub", dumpStmt(DfS->getSubStmt()));
    } else if (const auto *RS = dyn_cast<ReturnStmt>(S)) {
      o.num("value", dumpStmt(RS->getRetValue()));
    } else if (const auto *LS = dyn_cast<LabelStmt>(S)) {
      o.str("label", LS->getName());
    } else if (const auto *GS = dyn_cast<GotoStmt>(S)) {
      o.str("label", GS->getLabel()->getName());
    } else if (const auto *CO = dyn_cast<ConditionalOperator>(S)) {
      o.num("cond", dumpStmt(CO->getCond()));
      o.num("then", dumpStmt(CO->getTrueExpr()));
      o.num("else", dumpStmt(CO->getFalseExpr()));
    } else if (const auto *TS = dyn_cast<CXXTryStmt>(S)) {
      o.num("tryBlock", dumpStmt(TS->getTryBlock()));
      std::vector<long long> hs;
      for (unsigned i = 0; i < TS->getNumHandlers(); i++) hs.push_back(dumpStmt(TS->getHandler(i)));
      o.raw("handlers", jintlist(hs));
    } else if (const auto *FR = dyn_cast<CXXForRangeStmt>(S)) {
      o.num("rangeInit", dumpStmt(FR->getRangeInit()));
      o.num("loopVarStmt", dumpStmt(FR->getLoopVarStmt()));
      o.num("body", dumpStmt(FR->getBody()));
    } else if (const auto *DA = dyn_cast<CXXDefaultArgExpr>(S)) {
      int c = dumpStmt(DA->getExpr());
      ch.push_back(c);
      customChildren = true;
      o.boolean("defaultArg", true);
    } else if (const auto *DI = dyn_cast<CXXDefaultInitExpr>(S)) {
      int c = dumpStmt(DI->getExpr());
      ch.push_back(c);
      customChildren = true;
    }

    // calls
    if (const auto *CE = dyn_cast<CallExpr>(S)) {
      if (const FunctionDecl *F = CE->getDirectCallee()) {
        o.raw("callee", fnRef(F));
        SourceLocation CL = CE->getCallee()->getExprLoc();
        if (CL.isMacroID()) {
          auto ms = macroStack(CL);
          if (!ms.empty()) o.raw("calleeMacros", jlist(ms));
        }
      } else {
        o.boolean("indirect", true);
        // does the callee type promise noexcept?
        QualType CT = CE->getCallee()->getType();
        if (const auto *MPT = CT->getAs<MemberPointerType>()) CT = MPT->getPointeeType();
        if (const auto *PT = CT->getAs<PointerType>()) CT = PT->getPointeeType();
        o.str("calleeType", typeStr(CT));
      }
      o.num("nargs", CE->getNumArgs());
      if (isa<CXXOperatorCallExpr>(CE))
        o.str("opcall", getOperatorSpelling(cast<CXXOperatorCallExpr>(CE)->getOperator()));
    } else if (const auto *CC = dyn_cast<CXXConstructExpr>(S)) {
      o.raw("callee", fnRef(CC->getConstructor()));
      o.num("nargs", CC->getNumArgs());
      o.boolean("elidable", CC->isElidable());
    }

    if (!customChildren)
      for (const Stmt *C : S->children()) ch.push_back(dumpStmt(C));
    o.raw("ch", jintlist(ch));
    nodes[id] = o.done();
    return id;
  }

  void noteRecord(const RecordDecl *R) {
    if (!R->isCompleteDefinition()) return;
    if (!seenRec.insert(R->getCanonicalDecl()).second) return;
    if (const auto *CR = dyn_cast<CXXRecordDecl>(R)) {
      if (CR->isDependentContext()) return;
      for (const auto *M : CR->methods())
        if (M->hasBody() && !M->isDependentContext()) enqueue(M);
    }
    if (!underRoots(R->getLocation())) return;
    Obj o;
    o.str("qname", qname(R));
    o.str("usr", usr(R));
    o.str("file", fileOf(R->getLocation()));
    o.num("line", lineOf(R->getLocation()));
    std::vector<std::string> fs;
    for (const FieldDecl *F : R->fields()) {
      Obj f;
      f.str("name", F->getNameAsString());
      f.str("type", typeStr(F->getType()));
      f.str("ctype", canonTypeStr(F->getType()));
      f.boolean("isPointer", F->getType()->isPointerType());
      f.str("access", F->getAccess() == AS_private ? "private" : F->getAccess() == AS_protected ? "protected" : "public");
      fs.push_back(f.done());
    }
    o.raw("fields", jlist(fs));
    if (const auto *CR = dyn_cast<CXXRecordDecl>(R)) {
      std::vector<std::string> bs;
      for (const auto &B : CR->bases()) bs.push_back(jstr(typeStr(B.getType())));
      o.raw("bases", jlist(bs));
      o.boolean("hasUserDtor", CR->hasUserDeclaredDestructor());
      o.boolean("nonTrivialDtor", CR->hasNonTrivialDestructor());
    }
    o.num("size", R->isDependentType() ? 0 : (long long)Ctx.getTypeSizeInChars(Ctx.getRecordType(R)).getQuantity());
    classes.push_back(o.done());
  }

  void enqueue(const FunctionDecl *F) {
    if (!F) return;
    const FunctionDecl *Def = nullptr;
    if (!F->hasBody(Def)) return;
    if (Def->isDependentContext()) return;
    if (!seenFn.insert(Def->getCanonicalDecl()).second) return;
    work.push_back(Def);
  }

  void drain() {
    while (!work.empty()) {
      const FunctionDecl *F = work.back();
      work.pop_back();
      dumpFunction(F);
    }
  }

  void dumpFunction(const FunctionDecl *F) {
    if (!underRoots(F->getLocation())) return;
    if (!F->getBody()) return;
    nodeId.clear();
    localId.clear();
    nodes.clear();
    Obj o;
    o.str("usr", usr(F));
    o.str("name", F->getNameAsString());
    o.str("qname", qname(F));
    o.str("file", fileOf(F->getBody()->getBeginLoc()));
    o.num("line", lineOf(F->getBody()->getBeginLoc()));
    o.num("declLine", lineOf(F->getLocation()));
    o.num("endLine", lineOf(F->getBody()->getEndLoc()));
    o.boolean("externC", F->isExternC());
    bool nothrow = false;
    if (const auto *FPT = F->getType()->getAs<FunctionProtoType>()) nothrow = FPT->isNothrow();
    o.boolean("noexcept", nothrow);
    o.boolean("static", F->getStorageClass() == SC_Static);
    o.str("rtype", typeStr(F->getReturnType()));
    o.boolean("isInstantiation", F->isTemplateInstantiation());
    const char *kind = "function";
    if (const auto *M = dyn_cast<CXXMethodDecl>(F)) {
      kind = isa<CXXConstructorDecl>(M) ? "ctor" : isa<CXXDestructorDecl>(M) ? "dtor" : "method";
      const CXXRecordDecl *P = M->getParent();
      o.str("cls", qname(P));
      if (P->isLambda()) kind = "lambda";
      if (P->isLocalClass()) {
        if (const FunctionDecl *Outer = P->isLocalClass()) o.str("localClassOf", usr(Outer));
      }
      o.str("access", M->getAccess() == AS_private ? "private" : M->getAccess() == AS_protected ? "protected" : "public");
      o.boolean("isStatic", M->isStatic());
      o.boolean("isConst", M->isConst());
      noteRecord(P);
    }
    o.str("kind", kind);
    if (const TemplateArgumentList *TAL = F->getTemplateSpecializationArgs()) {
      std::vector<std::string> ta;
      for (const TemplateArgument &A : TAL->asArray()) templArg(A, ta);
      o.raw("targs", jlist(ta));
    }
    std::vector<std::string> ps;
    for (const ParmVarDecl *P : F->parameters()) {
      Obj p;
      p.num("id", declId(P));
      p.str("name", P->getNameAsString());
      p.str("type", typeStr(P->getType()));
      p.str("ctype", canonTypeStr(P->getType()));
      ps.push_back(p.done());
    }
    o.raw("params", jlist(ps));

    // constructor initialisers
    std::vector<std::string> inits;
    if (const auto *C = dyn_cast<CXXConstructorDecl>(F)) {
      for (const CXXCtorInitializer *I : C->inits()) {
        Obj io;
        if (I->isAnyMemberInitializer()) io.str("field", I->getAnyMember()->getNameAsString());
        else if (I->isBaseInitializer()) io.str("base", typeStr(QualType(I->getBaseClass(), 0)));
        io.boolean("written", I->isWritten());
        io.num("expr", dumpStmt(I->getInit()));
        inits.push_back(io.done());
      }
    }
    int body = dumpStmt(F->getBody());
    o.num("body", body);
    o.raw("inits", jlist(inits));

    // CFG
    CFG::BuildOptions BO;
    BO.setAllAlwaysAdd();
    BO.AddImplicitDtors = true;
    BO.AddTemporaryDtors = true;
    BO.AddInitializers = true;
    BO.AddEHEdges = false;
    BO.PruneTriviallyFalseEdges = false;
    std::unique_ptr<CFG> G = CFG::buildCFG(F, F->getBody(), &Ctx, BO);
    if (G) {
      Obj g;
      g.num("entry", G->getEntry().getBlockID());
      g.num("exit", G->getExit().getBlockID());
      std::vector<std::string> blocks;
      for (const CFGBlock *Bk : *G) {
        Obj b;
        b.num("id", Bk->getBlockID());
        std::vector<std::string> elems;
        for (const CFGElement &E : *Bk) {
          Obj e;
          if (auto CS = E.getAs<CFGStmt>()) {
            e.str("kind", "stmt");
            e.num("n", dumpStmt(CS->getStmt()));
          } else if (auto CI = E.getAs<CFGInitializer>()) {
            e.str("kind", "init");
            const CXXCtorInitializer *I = CI->getInitializer();
            if (I->isAnyMemberInitializer()) e.str("field", I->getAnyMember()->getNameAsString());
            e.num("n", dumpStmt(I->getInit()));
          } else if (auto AD = E.getAs<CFGAutomaticObjDtor>()) {
            e.str("kind", "autoDtor");
            const VarDecl *V = AD->getVarDecl();
            e.str("var", V->getNameAsString());
            e.num("varId", declId(V));
            e.str("type", typeStr(V->getType()));
            if (const CXXDestructorDecl *D = AD->getDestructorDecl(Ctx)) {
              e.raw("dtor", fnRef(D));
              enqueue(D);
            }
            e.num("trigger", dumpStmt(AD->getTriggerStmt()));
          } else if (auto TD = E.getAs<CFGTemporaryDtor>()) {
            e.str("kind", "tempDtor");
            e.str("type", typeStr(TD->getBindTemporaryExpr()->getType()));
            if (const CXXDestructorDecl *D = TD->getDestructorDecl(Ctx)) e.raw("dtor", fnRef(D));
          } else if (auto MD = E.getAs<CFGMemberDtor>()) {
            e.str("kind", "memberDtor");
            e.str("field", MD->getFieldDecl()->getNameAsString());
          } else if (auto BD = E.getAs<CFGBaseDtor>()) {
            e.str("kind", "baseDtor");
            e.str("type", typeStr(BD->getBaseSpecifier()->getType()));
          } else if (E.getAs<CFGNewAllocator>()) {
            e.str("kind", "newAlloc");
          } else {
            e.str("kind", "other");
          }
          elems.push_back(e.done());
        }
        b.raw("elems", jlist(elems));
        if (const Stmt *L = Bk->getLabel()) b.num("label", dumpStmt(L));
        if (const Stmt *T = Bk->getTerminatorStmt()) {
          b.num("term", dumpStmt(T));
          if (Bk->getTerminator().isTemporaryDtorsBranch()) b.boolean("tempDtorBranch", true);
        }
        if (const Stmt *TC = Bk->getTerminatorCondition()) b.num("termCond", dumpStmt(TC));
        std::vector<long long> succ;
        std::vector<long long> unreach;
        for (auto I = Bk->succ_begin(); I != Bk->succ_end(); ++I) {
          if (const CFGBlock *Sb = I->getReachableBlock()) succ.push_back(Sb->getBlockID());
          else if (const CFGBlock *Ub = I->getPossiblyUnreachableBlock()) {
            succ.push_back(Ub->getBlockID());
            unreach.push_back(Ub->getBlockID());
          } else
            succ.push_back(-1);
        }
        b.raw("succ", jintlist(succ));
        if (!unreach.empty()) b.raw("succUnreachable", jintlist(unreach));
        b.boolean("noReturn", Bk->hasNoReturnElement());
        blocks.push_back(b.done());
      }
      g.raw("blocks", jlist(blocks));
      o.raw("cfg", g.done());
    }
    o.raw("nodes", jlist(nodes));
    functions.push_back(o.done());
  }
};

class Visitor : public RecursiveASTVisitor<Visitor> {
public:
  Extractor &X;
  Visitor(Extractor &X) : X(X) {}
  bool shouldVisitTemplateInstantiations() const { return true; }
  bool shouldVisitImplicitCode() const { return false; }
  bool VisitFunctionDecl(FunctionDecl *F) {
    if (F->isDependentContext()) return true;
    if (X.underRoots(F->getLocation())) {
      Obj d;
      d.str("name", F->getNameAsString());
      d.str("qname", X.qname(F));
      d.str("usr", X.usr(F));
      d.str("file", X.fileOf(F->getLocation()));
      d.num("line", X.lineOf(F->getLocation()));
      d.boolean("externC", F->isExternC());
      d.boolean("isDefinition", F->isThisDeclarationADefinition());
      d.str("type", X.typeStr(F->getType()));
      X.decls.push_back(d.done());
    }
    if (F->isThisDeclarationADefinition()) X.enqueue(F);
    return true;
  }
  bool VisitRecordDecl(RecordDecl *R) {
    if (R->isDependentContext()) return true;
    if (R->isCompleteDefinition() && X.underRoots(R->getLocation())) X.noteRecord(R);
    return true;
  }
  bool VisitVarDecl(VarDecl *V) {
    if (V->isLocalVarDeclOrParm() || V->getDeclContext()->isDependentContext()) return true;
    if (!X.underRoots(V->getLocation())) return true;
    Obj g;
    g.str("name", V->getNameAsString());
    g.str("qname", X.qname(V));
    g.str("type", X.typeStr(V->getType()));
    g.str("file", X.fileOf(V->getLocation()));
    g.num("line", X.lineOf(V->getLocation()));
    if (V->hasInit() && !V->getInit()->isValueDependent() && V->getType()->isIntegralOrEnumerationType()) {
      Expr::EvalResult R;
      if (V->getInit()->EvaluateAsInt(R, X.Ctx, Expr::SE_NoSideEffects) && R.Val.isInt())
        g.num("cv", R.Val.getInt().getExtValue());
    }
    // a constant table of strings (`const char* const names[] = {"A", "B"}`): the literals, in order
    if (V->hasInit()) {
      if (const auto *IL = dyn_cast<InitListExpr>(V->getInit()->IgnoreParenImpCasts())) {
        std::vector<std::string> lits;
        bool all = IL->getNumInits() > 0;
        for (const Expr *E : IL->inits()) {
          const auto *SL = dyn_cast<clang::StringLiteral>(E->IgnoreParenImpCasts());
          if (SL && SL->isAscii()) lits.push_back(jstr(SL->getString()));
          else all = false;
        }
        if (all) g.raw("initStrings", jlist(lits));
      }
    }
    X.globals.push_back(g.done());
    return true;
  }
};

class Consumer : public ASTConsumer {
public:
  std::string src;
  Consumer(std::string s) : src(std::move(s)) {}
  void HandleTranslationUnit(ASTContext &Ctx) override {
    if (Ctx.getDiagnostics().hasErrorOccurred()) {
      g_had_error = true;
    }
    Extractor X(Ctx);
    Visitor V(X);
    V.TraverseDecl(Ctx.getTranslationUnitDecl());
    X.drain();
    Obj top;
    top.str("unit", src);
    top.boolean("parseErrors", Ctx.getDiagnostics().hasErrorOccurred());
    top.raw("functions", jlist(X.functions));
    top.raw("classes", jlist(X.classes));
    top.raw("decls", jlist(X.decls));
    top.raw("globals", jlist(X.globals));
    std::ofstream f(g_out);
    f << top.done() << "\n";
  }
};

class Action : public ASTFrontendAction {
public:
  std::unique_ptr<ASTConsumer> CreateASTConsumer(CompilerInstance &, llvm::StringRef file) override {
    return std::make_unique<Consumer>(file.str());
  }
};

int main(int argc, const char **argv) {
  if (argc < 4) {
    llvm::errs() << "usage: psx <out.json> <source> -- <flags>\n";
    return 2;
  }
  g_out = argv[1];
  std::string src = argv[2];
  const char *roots = getenv("PSX_ROOTS");
  std::string r = roots ? roots : "/repo";
  size_t p = 0;
  while (p <= r.size()) {
    size_t q = r.find(':', p);
    if (q == std::string::npos) q = r.size();
    if (q > p) g_roots.push_back(r.substr(p, q - p));
    p = q + 1;
  }
  int dd = -1;
  for (int i = 3; i < argc; i++)
    if (std::string(argv[i]) == "--") { dd = i; break; }
  std::vector<std::string> flags;
  if (dd >= 0)
    for (int i = dd + 1; i < argc; i++) flags.push_back(argv[i]);
  tooling::FixedCompilationDatabase DB(".", flags);
  tooling::ClangTool Tool(DB, {src});
  int rc = Tool.run(tooling::newFrontendActionFactory<Action>().get());
  if (rc != 0 || g_had_error) return 3;
  return 0;
}
