"""TS — ownership typestate / exception safety of splinetable (serves C20, C07, C13, C15, C16, C19).

TS-2  no-throw window: at every element that may raise, the object is either
      untouched since entry, or protected (resetting handler / armed cleanup guard)
TS-2b arrays of owned pointers are initialised before the next raising element
TS-3  occupied guard before a function populates the table
TS-4  field coverage of clear(), move constructor, move assignment; allocation/
      deallocation count agreement
TS-5  local heap pairing (new / malloc results owned, returned or released on every exit)
TS-6  storage stored while ndim may be 0 is released regardless of ndim
"""
from .. import core
from ..core import Poly

CLS = "photospline::splinetable<>"
RESET_FN = "clear"
MUTATING_ALGOS = {  # std algorithm -> index of the destination argument
    "copy": 2, "copy_n": 2, "fill": 0, "fill_n": 0, "partial_sum": 2, "reverse": 0, "sort": 0,
}


def cls_fields(P):
    c = P.classes.get(CLS)
    if c is None:
        raise core.AnalysisBroken("class %s not found in the driver unit" % CLS)
    return c["fields"]


def owned_ptr_fields(P):
    return [f["name"] for f in cls_fields(P) if f["isPointer"]]


def root_member(f, i, obj="this"):
    """lvalue/pointer expression -> (field, depth, object text) if rooted at a member of a splinetable object.
    depth counts subscripts / dereferences between the member and the expression."""
    depth = 0
    i = f.strip(i)
    while i >= 0:
        n = f.nodes[i]
        k = n["k"]
        if k == "ArraySubscriptExpr":
            depth += 1
            i = f.strip(n["ch"][0])
        elif k == "UnaryOperator" and n["op"] == "*":
            depth += 1
            i = f.strip(n["ch"][0])
        elif k == "UnaryOperator" and n["op"] == "&":
            depth -= 1
            i = f.strip(n["ch"][0])
        elif k == "BinaryOperator" and n["op"] in ("+", "-"):
            i = f.strip(n["ch"][0])
        elif k == "MemberExpr":
            if n.get("fieldOf", "").startswith(("photospline::splinetable<", "psv_selftest::splinetable<")) and "mtype" in n:
                base = f.strip(n["ch"][0]) if n["ch"] else -1
                o = "this" if base < 0 or f.nodes[base]["k"] == "CXXThisExpr" else f.render(base)
                return n["member"], depth, o
            return None
        else:
            return None
    return None


def is_null(f, i):
    i = f.strip(i)
    n = f.nodes[i]
    return n["k"] in ("GNUNullExpr", "CXXNullPtrLiteralExpr") or n.get("cv") == 0


def assign_parts(f, i):
    """node i is an assignment-like store: returns (lhs, rhs or None)."""
    n = f.nodes[i]
    if n["k"] in ("BinaryOperator", "CompoundAssignOperator") and n["op"].endswith("=") and n["op"] not in ("==", "!=", "<=", ">="):
        return n["ch"][0], n["ch"][1]
    if n["k"] == "UnaryOperator" and n["op"] in ("++", "--"):
        return n["ch"][0], None
    if n["k"] == "CXXOperatorCallExpr" and n.get("opcall") == "=" and len(n["ch"]) == 3:
        return n["ch"][1], n["ch"][2]
    return None


def member_writes(f, i, obj="this"):
    """does CFG element node i write to storage rooted at a member of `obj`? -> list of (field, depth, how)"""
    out = []
    n = f.nodes[i]
    ap = assign_parts(f, i)
    if ap:
        r = root_member(f, ap[0])
        if r and r[2] == obj:
            out.append((r[0], r[1], "store"))
        return out
    cal = n.get("callee")
    if cal:
        nm = cal["name"]
        args = f.args(i)
        if nm == "deallocate" and args:
            r = root_member(f, args[0])
            if r and r[2] == obj:
                out.append((r[0], r[1], "deallocate"))
        elif nm in MUTATING_ALGOS and cal["qname"].startswith("std::"):
            k = MUTATING_ALGOS[nm]
            if k < len(args):
                r = root_member(f, args[k])
                if r and r[2] == obj:
                    out.append((r[0], r[1] + 1, "algorithm " + nm))
        elif cal.get("externC") and not cal.get("inRoots"):
            for a in args:
                r = root_member(f, a)
                t = f.nodes[a].get("t", "")
                if r and r[2] == obj and "const" not in t and ("*" in t):
                    out.append((r[0], r[1] + 1, "out-argument of " + (f.call_macro(i) or nm)))
    return out


def guard_classes(P, f):
    """local classes of f whose destructor calls clear() on the object they hold, conditional on the handle: {class: field}"""
    out = {}
    for g in P.functions.values():
        if g.kind == "dtor" and g.d.get("localClassOf") == f.usr:
            for i, cal in g.calls():
                if cal and cal["name"] == RESET_FN and cal.get("cls", "").startswith(("photospline::splinetable<", "psv_selftest::splinetable<")):
                    fld = None
                    for a in g.ancestors(i):
                        if g.k(a) == "IfStmt":
                            c, neg = core.cond_polarity(g, g.nodes[a]["cond"])
                            if g.k(c) == "MemberExpr" and not neg:
                                fld = g.nodes[c]["member"]
                    if fld:
                        out[g.cls.split("::")[-1]] = fld
    return out


def handler_resets(P, f, h, obj="this"):
    """catch handler h calls clear() on obj and then rethrows (or throws)."""
    has_reset = False
    for i, cal in f.calls(h):
        if cal and cal["name"] == RESET_FN and cal.get("cls", "").startswith(("photospline::splinetable<", "psv_selftest::splinetable<")):
            has_reset = True
    throws = any(f.k(i) == "CXXThrowExpr" for i in f.walk(h))
    return has_reset and throws


def lexically_protected(P, f, i):
    for (t, in_try, _h) in f.enclosing_try(i):
        if not in_try:
            continue
        hs = f.nodes[t]["handlers"]
        if any(f.nodes[h].get("catchAll") and handler_resets(P, f, h) for h in hs):
            return True
    return False


class Window:
    """TS-2 / TS-2b dataflow on one function for object `obj`."""

    def __init__(self, P, f, obj="this", dirty_calls=None, elem_reads=None):
        self.P, self.f, self.obj = P, f, obj
        self.mt = P.maythrow()
        self.guards = guard_classes(P, f)
        self.dirty_calls = dirty_calls or {}
        self.elem_reads = elem_reads or {}
        self.ptr_arrays = {"knots": "all", "extents": 0, "aux": "all"}   # member arrays whose elements clear() reads
        self.viol = []
        self.points = 0

    def transfer(self, st, e, b, j, record=False):
        f = self.f
        dirty, armed, uninit = st
        if e.get("kind") != "stmt":
            return st
        i = e["n"]
        n = f.nodes[i]
        # 1. may-throw point?
        why = self.P.node_may_throw(f, i, self.mt)
        callee = n.get("callee")
        dirty_callee = callee is not None and callee["usr"] in self.dirty_calls and self._on_obj(i)
        if record and (why or dirty_callee):
            if why and not self.P.contained(f, i, self.mt):
                self.points += 1
                prot = bool(armed) or lexically_protected(self.P, f, i)
                if (dirty or dirty_callee) and not prot:
                    self.viol.append((i, "TS-2", why + ("; callee can leave the object partially built" if dirty_callee else "")))
                if uninit:
                    self.viol.append((i, "TS-2b", "%s while element(s) of %s are still uninitialised (clear() would read them)" % (why, sorted(uninit))))
        # 2. effects
        if n["k"] == "DeclStmt":
            for d in n["decls"]:
                if d.get("dk") == "Var":
                    ty = d.get("ctype", "").replace("struct ", "").split("::")[-1]
                    if ty in self.guards:
                        armed = armed | {d["id"]}
        ap = assign_parts(f, i)
        if ap:
            l = f.strip(ap[0])
            ln = f.nodes[l]
            # disarm guard: guard.field = nullptr
            if ln["k"] == "MemberExpr" and f.ch(l):
                b0 = f.strip(f.ch(l)[0])
                if f.nodes[b0]["k"] == "DeclRefExpr" and f.nodes[b0]["decl"]["id"] in armed and ap[1] is not None and is_null(f, ap[1]):
                    armed = armed - {f.nodes[b0]["decl"]["id"]}
            r = root_member(f, ap[0])
            if r and r[2] == self.obj:
                dirty = True
                fld, depth, _ = r
                if depth == 0 and fld in self.ptr_arrays and ap[1] is not None and not is_null(f, ap[1]):
                    rhs = f.strip(ap[1])
                    rcal = f.nodes[rhs].get("callee")
                    if rcal and rcal["name"] == "allocate":
                        uninit = uninit | {fld}
                    # assignment of an already filled local array (aux = new_aux) keeps it initialised
                if depth == 1 and fld in uninit:
                    want = self.ptr_arrays[fld]
                    idx = f.nodes[l]["ch"][1] if ln["k"] == "ArraySubscriptExpr" else -1
                    if want != "all" and idx >= 0 and f.nodes[idx].get("cv") == want:
                        uninit = uninit - {fld}
        else:
            ws = member_writes(f, i, self.obj)
            if ws:
                dirty = True
                for (fld, depth, how) in ws:
                    if how.startswith("algorithm fill") and fld in uninit and depth == 1:
                        a = f.args(i)
                        # fill(M, M+n, nullptr): whole range
                        if len(a) == 3 and is_null(f, a[2]):
                            uninit = uninit - {fld}
        if callee and callee["name"] == RESET_FN and self._on_obj(i):
            dirty = False
            uninit = frozenset()
        return (dirty, armed, uninit)

    def _on_obj(self, i):
        f = self.f
        n = f.nodes[i]
        if n["k"] != "CXXMemberCallExpr":
            return False
        me = f.strip(n["ch"][0])
        b = f.ch(me)
        if not b:
            return self.obj == "this"
        bb = f.strip(b[0])
        if f.nodes[bb]["k"] == "CXXThisExpr":
            return self.obj == "this"
        return f.render(bb) == self.obj

    def run(self):
        f = self.f
        init = (False, frozenset(), frozenset())

        def join(a, b):
            return (a[0] or b[0], a[1] & b[1], a[2] | b[2])
        self.IN, self.OUT = core.dataflow(f, init, lambda s, e, b, j: self.transfer(s, e, b, j), join)
        for b, st in self.IN.items():
            s = st
            for j, e in enumerate(f.blocks[b]["elems"]):
                s = self.transfer(s, e, b, j, record=True)
        # de-duplicate
        seen = set()
        out = []
        for v in self.viol:
            if (v[0], v[1]) in seen:
                continue
            seen.add((v[0], v[1]))
            out.append(v)
        self.viol = out
        return out


def mutators(P):
    """non-const, non-static member functions and constructors of the table class that write members (driver unit)."""
    out = []
    for f in P.functions.values():
        if f.cls != CLS or f.kind not in ("method", "ctor"):
            continue
        if f.d.get("isConst") or f.d.get("isStatic"):
            continue
        if f.name in ("allocate", "deallocate", RESET_FN):
            continue
        out.append(f)
    return sorted(out, key=lambda f: (f.file, f.line))


def fshort(f):
    if f.kind == "ctor":
        ps = ",".join(p["type"].split("<")[0].replace("const ", "").strip(" &") for p in f.params)
        return "splinetable(%s)" % ps
    if f.kind == "lambda":
        return "lambda@%s" % f.where().split(":")[0].split("/")[-1]
    base = f.name
    if f.targs and f.name in ("write_key", "read_key"):
        base += "<%s>" % ",".join(str(t) for t in f.targs)
    if f.name == "fit":
        base += "<%s>" % ("array_view" if "array_view" in f.qname else "vector")
    return base


def ts2(P, C, only=None, rule_floor=8):
    C.rule("TS-2", "at every element of a table mutator that may raise, the object is untouched since entry, or the element is protected by a "
           "handler that calls clear() and rethrows, or by an armed cleanup guard whose destructor calls clear(); private helpers may "
           "raise with a partially built object only if every call site is protected", floor=rule_floor)
    C.rule("TS-2b", "an array of owned pointers (knots, extents[0], aux) stored into a member has the elements clear() reads initialised "
           "before the next element that may raise", floor=1)
    fs = mutators(P)
    dirty_calls = {}
    results = {}
    # two rounds so that helper summaries reach their callers
    for rnd in range(2):
        for f in fs:
            w = Window(P, f, "this", dirty_calls)
            v = w.run()
            results[f.usr] = (f, w, v)
            if f.d.get("access") == "private" and any(x[1] == "TS-2" for x in v):
                dirty_calls[f.usr] = True
    n = 0
    for usr, (f, w, v) in sorted(results.items(), key=lambda kv: (kv[1][0].file, kv[1][0].line)):
        name = fshort(f)
        if only is not None and f.name not in only and name not in only:
            continue
        n += 1
        ts2v = [x for x in v if x[1] == "TS-2"]
        ts2b = [x for x in v if x[1] == "TS-2b"]
        if f.d.get("access") == "private" and ts2v:
            # obligations are on the call sites (checked through dirty_calls); note it
            C.ob("TS-2", name, "helper-may-leave-partial-object", True, f.where(),
                 "private helper raises with a partially built object at %d point(s); every call site must be protected (checked there)" % len(ts2v))
        else:
            if not ts2v:
                C.ob("TS-2", name, "window", True, f.where(), "%d raising element(s); none leaves a modified, unprotected object" % w.points)
            for (i, _r, why) in ts2v:
                cal = f.nodes[i].get("callee")
                sym = (cal["name"] if cal else f.k(i))
                C.ob("TS-2", name, "unprotected:" + sym, False, f.loc(i),
                     "%s after the object was modified, with no resetting handler or armed cleanup guard: a failure here leaves the table "
                     "neither unchanged nor empty (members may dangle or leak)" % why)
        if not ts2b:
            C.ob("TS-2b", name, "pointer-arrays", True, f.where(), "no raising element while a member pointer array has uninitialised elements")
        for (i, _r, why) in ts2b:
            C.ob("TS-2b", name, "uninitialised-elements", False, f.loc(i), why)
    return n


def ts2b_other_objects(P, C):
    """tables built through a pointer other than `this` (the stacking constructor's padding helper builds `snew`): they are owned by a smart
    pointer, so their destructor (clear()) runs if a later allocation throws — the same initialisation discipline applies."""
    n = 0
    for f in P.functions.values():
        if f.unit != "driver" or not (f.kind == "lambda" or (f.cls or "").startswith("photospline::splinetable<")):
            continue
        objs = set()
        for i in f.walk():
            ap = assign_parts(f, i)
            if ap:
                r = root_member(f, ap[0])
                if r and r[2] not in ("this", "other"):
                    objs.add(r[2])
        for o in sorted(objs):
            w = Window(P, f, o)
            v = [x for x in w.run() if x[1] == "TS-2b"]
            n += 1
            name = fshort(f)
            if not v:
                C.ob("TS-2b", name, "pointer-arrays:" + o, True, f.where(), "object %s: no raising element while one of its pointer arrays has uninitialised elements" % o)
            for (i, _r, why) in v:
                C.ob("TS-2b", name, "uninitialised-elements:" + o, False, f.loc(i), "object %s: %s" % (o, why))
    return n


def reset_fn_ok(P, C):
    """clear(): null-checks before freeing, frees every owned pointer, ends in the empty state, not conditional on ndim."""
    C.rule("TS-4", "field coverage: clear() (the destructor's body) releases every allocator-typed member under a null check and resets every "
           "member to the empty state; the move constructor and move assignment transfer every member and leave the source empty; "
           "deallocation counts equal allocation counts (affine forms) at every allocation site", floor=12)
    fs = [f for f in P.fns(RESET_FN) if f.cls == CLS]
    if len(fs) != 1:
        # no reset function: the destructor itself is analysed
        return None
    f = fs[0]
    fields = cls_fields(P)
    deallocs = {}
    for i, cal in f.calls():
        if cal and cal["name"] == "deallocate":
            a = f.args(i)
            r = root_member(f, a[0])
            if r:
                deallocs.setdefault((r[0], r[1]), []).append((i, a[1]))
    resets = {}
    for i in f.walk():
        ap = assign_parts(f, i)
        if ap and ap[1] is not None:
            r = root_member(f, ap[0])
            if r and r[1] == 0 and is_null(f, ap[1]):
                # must be unconditional (top level of the body)
                if f.parent[i] == f.body or f.k(f.parent[i]) in core.IMPLICIT_ONLY and f.parent[f.parent[i]] == f.body:
                    resets[r[0]] = i
    for fl in fields:
        nm = fl["name"]
        if fl["isPointer"]:
            d = deallocs.get((nm, 0))
            guarded = False
            if d:
                for a in f.ancestors(d[0][0]):
                    if f.k(a) == "IfStmt":
                        c, neg = core.cond_polarity(f, f.nodes[a]["cond"])
                        rr = root_member(f, c)
                        if rr and rr[0] == nm and rr[1] == 0 and not neg:
                            guarded = True
            C.ob("TS-4", RESET_FN, "release:" + nm, bool(d) and guarded, f.loc(d[0][0]) if d else f.where(),
                 "member %s is deallocated under a null check of itself: deallocated=%s null-checked=%s" % (nm, bool(d), guarded))
            C.ob("TS-4", RESET_FN, "reset:" + nm, nm in resets, f.where(), "member %s is reset to null unconditionally" % nm)
        elif nm in ("ndim", "naux"):
            C.ob("TS-4", RESET_FN, "reset:" + nm, nm in resets, f.where(), "member %s is reset to 0 unconditionally" % nm)
    # element releases are null-checked too
    for (nm, depth), lst in sorted(deallocs.items()):
        if depth == 0:
            continue
        for (i, cnt) in lst:
            guarded = False
            target = f.render(f.args(i)[0])
            for a in f.ancestors(i):
                if f.k(a) == "IfStmt":
                    c, neg = core.cond_polarity(f, f.nodes[a]["cond"])
                    rr = root_member(f, c)
                    inthen = f.nodes[a]["then"] in [i] + list(f.ancestors(i))
                    if rr and rr[0] == nm and rr[1] == depth and not neg and inthen:
                        guarded = True
            # `if(!aux[i]) continue;` form
            par = f.parent[i]
            comp = next((a for a in f.ancestors(i) if f.k(a) == "CompoundStmt"), None)
            if not guarded and comp is not None:
                for s in f.ch(comp):
                    if s == i or i in set(f.walk(s)):
                        break
                    if f.k(s) == "IfStmt":
                        c, neg = core.cond_polarity(f, f.nodes[s]["cond"])
                        rr = root_member(f, c)
                        if rr and rr[0] == nm and rr[1] == depth and neg and any(f.k(x) in ("ContinueStmt", "ReturnStmt") for x in f.walk(f.nodes[s]["then"])):
                            guarded = True
            C.ob("TS-4", RESET_FN, "release-element:%s/%d:%s" % (nm, depth, target.replace("this->", "")), guarded, f.loc(i),
                 "element %s is released only when non-null (a partially built table has null elements)" % target)
    # TS-6: nothing in clear() is conditional on ndim
    cond_ndim = []
    for (nm, depth), lst in deallocs.items():
        for (i, cnt) in lst:
            for a in f.ancestors(i):
                if f.k(a) == "IfStmt":
                    c, neg = core.cond_polarity(f, f.nodes[a]["cond"])
                    rr = root_member(f, c)
                    if rr and rr[0] == "ndim":
                        cond_ndim.append(nm)
    C.rule("TS-6", "storage that can be stored while ndim is 0 (auxiliary keys) is released regardless of ndim", floor=1)
    C.ob("TS-6", RESET_FN, "aux-independent-of-ndim", "aux" not in cond_ndim, f.where(),
         "the release of aux is not conditional on ndim (write_key works on an empty table)")
    # ... and there is no way out of the routine that skips a release: every release and every reset store is executed on every path
    early = [i for i in f.walk() if f.k(i) in ("ReturnStmt", "GotoStmt", "CXXThrowExpr")]
    C.ob("TS-6", RESET_FN, "no-early-exit", not early, f.loc(early[0]) if early else f.where(),
         "the release routine has a single exit at its end" if not early else
         "the release routine can leave early (%s at %s): whatever it has not released by then is leaked — keys written to a table that has no "
         "spline yet (ndim == 0) are such storage" % (f.k(early[0]), f.loc(early[0])))
    return f, deallocs


def norm_count(f, i, obj_prefixes=("this->", "snew->", "s2->", "other.", "table->")):
    """Poly of a count expression with object prefixes and loop-index names abstracted."""
    import re

    def atomize(ff, j):
        n = ff.nodes[j]
        if n["k"] in ("MemberExpr", "ArraySubscriptExpr", "DeclRefExpr"):
            s = ff.render(j)
            for p in obj_prefixes:
                s = s.replace(p, "")
            s = re.sub(r"\[[A-Za-z_]\w*\]", "[#]", s)
            return s
        if n["k"] in ("CXXMemberCallExpr",) and n.get("callee", {}).get("name") == "get_ncoeffs":
            return "NCOEFFS"
        return None
    return core.poly(f, i, atomize)


def alloc_sites(P):
    """every `X = allocate<T>(count)` (possibly `+ offset`) whose X is rooted at a table member, in any function."""
    out = []
    for f in P.functions.values():
        if not (f.cls or "").startswith("photospline::splinetable<") and f.kind != "lambda":
            continue
        if f.unit not in ("driver",):
            continue
        for i in f.walk():
            ap = assign_parts(f, i)
            if not ap or ap[1] is None:
                continue
            r = root_member(f, ap[0])
            if not r:
                continue
            rhs = f.strip(ap[1])
            off = None
            if f.k(rhs) == "BinaryOperator" and f.nodes[rhs]["op"] == "+":
                off = f.nodes[rhs]["ch"][1]
                rhs = f.strip(f.nodes[rhs]["ch"][0])
            cal = f.nodes[rhs].get("callee")
            if cal and cal["name"] == "allocate":
                out.append((f, i, r, f.args(rhs)[0], off, cal.get("targs", ["?"])[0]))
    return out


def count_agreement(P, C, deallocs, f_reset):
    """TS-4 count agreement between clear() and every allocation site."""
    sites = alloc_sites(P)
    if len(sites) < 20:
        raise core.AnalysisBroken("TS-4: only %d allocation sites found (expected > 20)" % len(sites))
    # symbolic facts used to compare: NCOEFFS == strides[0]*naxes[0] == product of naxes (consistency of the table)
    for (f, i, r, cnt, off, ty) in sites:
        fld, depth, obj = r
        d = deallocs.get((fld, depth))
        name = fshort(f)
        if fld == "aux" and depth == 2:
            continue    # character arrays: handled by TS-4c
        if not d:
            C.ob("TS-4", name, "alloc:%s/%d" % (fld, depth), False, f.loc(i), "member %s (depth %d) is allocated here but clear() never releases it" % (fld, depth))
            continue
        pa = norm_count(f, cnt)
        ok = False
        dets = []
        for (di, dc) in d:
            pd = norm_count(f_reset, dc)
            dets.append(repr(pd))
            if pa == pd:
                ok = True
        if not ok and fld == "coefficients":
            # allocation counts of the coefficient array are local products of naxes: accept when the local is defined from naxes/strides only
            ok = coeff_count_ok(f, cnt)
            dets.append("product of naxes (local definition checked)")
        if not ok and fld == "aux" and depth == 0:
            # naux+1 / naux-1 temporaries that become aux together with the matching naux update
            ok = aux_resize_ok(f, i, cnt)
            dets.append("aux resized together with naux")
        C.ob("TS-4", name, "count:%s/%d@%d" % (fld, depth, ordinal(sites, f, i, fld, depth)), ok, f.loc(i),
             "allocated with count %r, released with %s" % (pa, " | ".join(dets)))
        # padding offset for knot vectors is checked by KB-1 (C05)
    return len(sites)


def ordinal(sites, f, i, fld, depth):
    same = [s for s in sites if s[0].usr == f.usr and s[2][0] == fld and s[2][1] == depth]
    return [s[1] for s in same].index(i)


def coeff_count_ok(f, cnt):
    """count expression is a local whose definition is strides[0]*naxes[0], an accumulate over naxes, or a running product of naxes."""
    c = f.strip(cnt)
    n = f.nodes[c]
    if n["k"] == "CXXMemberCallExpr" and n.get("callee", {}).get("name") == "get_ncoeffs":
        return True
    if n["k"] != "DeclRefExpr":
        return False
    vid = n["decl"]["id"]
    texts = []
    for i in f.walk():
        if f.k(i) == "DeclStmt":
            for d in f.nodes[i]["decls"]:
                if d.get("id") == vid and d.get("init", -1) >= 0:
                    texts.append(f.render(d["init"]))
        ap = assign_parts(f, i)
        if ap and f.k(f.strip(ap[0])) == "DeclRefExpr" and f.nodes[f.strip(ap[0])]["decl"]["id"] == vid:
            texts.append(f.render(i))
    if not texts:
        return False
    for t in texts:
        t2 = t.replace("this->", "").replace(" ", "")
        if t2 in ("1", "1UL", "1ULL"):
            continue
        if not any(k in t2 for k in ("strides[0]*naxes[0]", "naxes[0]*strides[0]", "accumulate(naxes", "*=naxes[", "get_ncoeffs", "=1)", "=1")):
            return False
    return True


def aux_resize_ok(f, i, cnt):
    """aux-sized temporary: count is naux±1 and naux is updated by the same amount after it is installed."""
    p = norm_count(f, cnt)
    d = p - Poly.atom("naux")
    if not d.is_const() or d.const_value() not in (1, -1):
        return False
    want = "++" if d.const_value() == 1 else "--"
    for j in f.walk():
        n = f.nodes[j]
        if n["k"] == "UnaryOperator" and n["op"] == want:
            r = root_member(f, n["ch"][0])
            if r and r[0] == "naux":
                return True
    return False


def move_ops(P, C):
    fields = [fl["name"] for fl in cls_fields(P)]
    # move constructor
    mc = [f for f in P.functions.values() if f.cls == CLS and f.kind == "ctor" and len(f.params) == 1 and "&&" in f.params[0]["type"]]
    ma = [f for f in P.fns("operator=") if f.cls == CLS and "&&" in f.params[0]["type"]]
    if len(mc) != 1 or len(ma) != 1:
        raise core.AnalysisBroken("move constructor / move assignment not found (%d/%d)" % (len(mc), len(ma)))
    mc, ma = mc[0], ma[0]
    other = mc.params[0]["name"]
    inits = {i["field"]: i for i in mc.d["inits"] if "field" in i}
    for fl in fields:
        it = inits.get(fl)
        txt = mc.render(it["expr"]) if it else ""
        ok = it is not None and ("%s.%s" % (other, fl)) in txt
        C.ob("TS-4", "move-constructor", "take:" + fl, ok, mc.where(), "member %s initialised from %s.%s: %s" % (fl, other, fl, txt[:60]))
    reset = {}
    for i in mc.walk():
        ap = assign_parts(mc, i)
        if ap and ap[1] is not None:
            r = root_member(mc, ap[0])
            if r and r[2] == other and r[1] == 0:
                reset[r[0]] = mc.render(ap[1])
    for fl in fields:
        if fl == "allocator":
            continue
        ok = fl in reset and reset[fl] in ("0", "nullptr", "NULL")
        C.ob("TS-4", "move-constructor", "empty-source:" + fl, ok, mc.where(), "%s.%s reset to the empty state: %s" % (other, fl, reset.get(fl)))
    # move assignment: clear() first (or release), then take every field, then empty the source on every path that is not self-assignment
    other = ma.params[0]["name"]
    taken, emptied, cleared_first = {}, {}, False
    first_store = None
    for i in ma.walk():
        ap = assign_parts(ma, i)
        if ap and ap[1] is not None:
            r = root_member(ma, ap[0])
            if r and r[1] == 0:
                if r[2] == "this":
                    taken[r[0]] = ma.render(ap[1])
                    if first_store is None:
                        first_store = i
                elif r[2] == other:
                    emptied[r[0]] = ma.render(ap[1])
    pos = ma.node_positions()
    clr = [i for i, cal in ma.calls() if cal and cal["name"] == RESET_FN]
    if clr and first_store is not None and clr[0] in pos and first_store in pos:
        (bc, jc), (bs, js) = pos[clr[0]], pos[first_store]
        cleared_first = (bc == bs and jc < js) or (bs in ma.reachable_blocks(bc) and bc != bs)
    C.ob("TS-4", "move-assignment", "release-target-first", cleared_first, ma.where(),
         "the target's own storage is released (clear()) before the members are overwritten")
    for fl in fields:
        ok = fl in taken and ("%s.%s" % (other, fl)) in taken[fl]
        C.ob("TS-4", "move-assignment", "take:" + fl, ok, ma.where(), "member %s taken from %s.%s: %s" % (fl, other, fl, taken.get(fl)))
        if fl != "allocator":
            ok = fl in emptied and emptied[fl] in ("0", "nullptr", "NULL")
            C.ob("TS-4", "move-assignment", "empty-source:" + fl, ok, ma.where(),
                 "a moved-from table is empty: %s.%s reset to %s" % (other, fl, emptied.get(fl)))


def ts3(P, C, only=None):
    C.rule("TS-3", "a function that populates the table (stores a non-zero ndim) is entered only with a table known to be empty: "
           "dominated by `if(ndim!=0) throw`, by clear(), or it is a constructor; private helpers inherit the guard of every call site", floor=3 if only is None else 1)
    pop = []
    for f in mutators(P):
        for i in f.walk():
            ap = assign_parts(f, i)
            if ap and ap[1] is not None:
                r = root_member(f, ap[0])
                if r and r[0] == "ndim" and r[1] == 0 and r[2] == "this" and not is_null(f, ap[1]):
                    pop.append((f, i))
    guarded_fn = {}

    def known_empty_before(f, target):
        def transfer(st, e, b, j):
            if e.get("kind") != "stmt":
                return st
            n = f.nodes[e["n"]]
            cal = n.get("callee")
            if cal and cal["name"] == RESET_FN:
                return True
            return st

        def edge(st, b, k, s, cond):
            if cond is None or cond < 0:
                return st
            c, neg = core.cond_polarity(f, cond)
            n = f.nodes[c]
            if n["k"] == "BinaryOperator" and n["op"] in ("!=", "=="):
                l, r = (f.strip(x) for x in n["ch"])
                rr = root_member(f, l)
                if rr and rr[0] == "ndim" and f.nodes[r].get("cv") == 0:
                    nz_when_true = (n["op"] == "!=") != neg
                    empty_edge = (k == 1) if nz_when_true else (k == 0)
                    if empty_edge:
                        return True
            return st
        IN, OUT = core.dataflow(f, f.kind == "ctor", transfer, lambda a, b: a and b, edge)
        pos = f.node_positions()
        if target not in pos:
            return False
        b, j = pos[target]
        return bool(core.state_before(f, IN, transfer, b, j))

    for (f, i) in pop:
        name = fshort(f)
        if only is not None and f.name not in only:
            continue
        ok = known_empty_before(f, i)
        detail = "table known empty (guard / clear() / constructor) before ndim is set"
        if not ok and f.d.get("access") == "private":
            # all call sites must establish emptiness before the call
            sites = []
            for g in P.functions.values():
                if g.unit != "driver":
                    continue
                for ci, cal in g.calls():
                    if cal and cal["usr"] == f.usr:
                        sites.append((g, ci))
            ok = bool(sites) and all(known_empty_before(g, ci) for g, ci in sites)
            detail = "private helper: %d call site(s), each %s the emptiness guard" % (len(sites), "dominated by" if ok else "NOT dominated by")
        C.ob("TS-3", name, "populate", ok, f.loc(i),
             detail if ok else "ndim is set (the table is populated) without first establishing that it is empty: a populated table is silently abandoned (its arrays leak). " + detail)


SMART = ("std::unique_ptr", "std::shared_ptr")


def ts5(P, C, floor=6):
    C.rule("TS-5", "new / new[] / malloc results in the table's member functions are handed to a smart pointer, returned, stored into a "
           "structure whose deleter releases them, or released on every exit including the exceptional ones", floor=floor)
    mt = P.maythrow()
    fs = [f for f in P.functions.values() if f.unit == "driver" and "/include/photospline/" in f.file and f.file.split("/")[-1] != "bspline.h"]
    returns_new = set()
    for f in fs:
        if f.kind == "lambda" or f.cls == CLS:
            for i in f.walk():
                if f.k(i) == "ReturnStmt" and f.nodes[i].get("value", -1) >= 0:
                    v = f.strip(f.nodes[i]["value"])
                    if f.k(v) == "DeclRefExpr" and "*" in f.nodes[v]["decl"]["type"]:
                        vid = f.nodes[v]["decl"]["id"]
                        for d in f.walk():
                            if f.k(d) == "DeclStmt":
                                for dd in f.nodes[d]["decls"]:
                                    if dd.get("id") == vid and dd.get("init", -1) >= 0 and f.k(f.strip(dd["init"])) == "CXXNewExpr":
                                        returns_new.add(f.usr)
    n = 0
    for f in fs:
        for i in f.walk():
            k = f.k(i)
            src = None
            if k == "CXXNewExpr" and f.nodes[i].get("placementArgs", 0) == 0:
                src = "new"
            elif k == "CallExpr" and f.nodes[i].get("callee", {}).get("name") in ("malloc", "calloc"):
                src = f.nodes[i]["callee"]["name"]
            elif k in ("CXXOperatorCallExpr", "CallExpr") and f.nodes[i].get("callee", {}).get("usr") in returns_new:
                src = "call of a function returning a fresh object"
            if not src:
                continue
            n += 1
            # consumer
            p = f.parent[i]
            while p >= 0 and (f.k(p) in core.TRANSPARENT or f.k(p) == "ConditionalOperator"):
                p = f.parent[p]
            pk = f.k(p) if p >= 0 else None
            name = fshort(f) if (f.cls == CLS or f.kind == "lambda") else f.name
            sym = "%s#%d" % (src.split(" ")[0], sum(1 for j in f.walk() if j < i and (f.k(j) == k)))
            pn = f.nodes[p] if p >= 0 else {}
            ok, why = False, "consumer %s" % pk
            if pk in ("CXXConstructExpr", "CXXTemporaryObjectExpr") and core.Program._norm_std(pn["callee"]["qname"]).startswith(SMART):
                ok, why = True, "owned by a smart pointer from the start"
            elif pk == "CXXMemberCallExpr" and pn.get("callee", {}).get("name") == "reset" and core.Program._norm_std(pn["callee"]["qname"]).startswith(SMART):
                ok, why = True, "handed to unique_ptr::reset"
            elif pk == "ReturnStmt":
                ok, why = True, "returned to the caller"
            elif pk in ("BinaryOperator", "CXXOperatorCallExpr") and pn.get("op", pn.get("opcall")) == "=":
                lhs = f.strip(pn["ch"][0] if pk == "BinaryOperator" else pn["ch"][1])
                lt = f.render(lhs)
                r = root_member(f, lhs)
                if r:
                    ok, why = True, "stored into table member %s" % r[0]
                elif f.k(lhs) == "CXXOperatorCallExpr" and f.nodes[lhs].get("opcall") == "[]":
                    # element of a smart-pointer managed array: the deleter must release that element
                    ok, why = deleter_releases_element(P, f, lhs)
                elif f.k(lhs) == "DeclRefExpr":
                    ok, why = raw_local_released(P, f, f.nodes[lhs]["decl"]["id"], i, mt)
                else:
                    why = "stored into %s" % lt
            elif pk == "DeclStmt":
                var = next((d for d in pn["decls"] if d.get("init", -1) >= 0 and i in set(f.walk(d["init"]))), None)
                if var is not None:
                    ok, why = raw_local_released(P, f, var["id"], i, mt)
            elif pk in ("CXXMemberCallExpr", "CallExpr"):
                why = "passed to %s as a raw owning pointer" % (pn.get("callee", {}).get("qname", "?")[:60])
            C.ob("TS-5", name, sym, ok, f.loc(i), "%s result: %s" % (src, why))
    return n


def deleter_releases_element(P, f, lhs):
    """lhs is up[idx] with up a unique_ptr<T*[], Deleter>; find the deleter lambda and check that it deletes p[idx] and that the array
    was value-initialised (so the deleter never reads an indeterminate element)."""
    base = f.strip(f.nodes[lhs]["ch"][1])
    idx = f.nodes[lhs]["ch"][2]
    if f.k(base) != "DeclRefExpr":
        return False, "element of %s" % f.render(base)
    vid = f.nodes[base]["decl"]["id"]
    for d in f.walk():
        if f.k(d) != "DeclStmt":
            continue
        for dd in f.nodes[d]["decls"]:
            if dd.get("id") != vid or dd.get("init", -1) < 0:
                continue
            lam = [x for x in f.walk(dd["init"]) if f.k(x) == "LambdaExpr"]
            news = [x for x in f.walk(dd["init"]) if f.k(x) == "CXXNewExpr"]
            if not lam or not news:
                return False, "smart pointer %s has no inline deleter" % dd["name"]
            g = P.functions.get(f.nodes[lam[0]].get("lambdaUsr"))
            if g is None:
                return False, "deleter body not found"
            dels = [g.render(x) for x in g.walk() if g.k(x) == "CXXDeleteExpr"]
            want = "delete[] %s[%s]" % (g.params[0]["name"], f.render(idx))
            inited = any(g2 for g2 in f.ch(news[0]) if f.k(f.strip(g2)) in ("ImplicitValueInitExpr", "InitListExpr", "CXXScalarValueInitExpr"))
            if want not in dels:
                return False, "deleter of %s does not release element %s (%s)" % (dd["name"], f.render(idx), dels)
            if not inited:
                return False, ("array %s is allocated uninitialised but its deleter reads element %s: if this allocation throws the deleter "
                               "frees an indeterminate pointer" % (dd["name"], f.render(idx)))
            return True, "stored into element %s of %s whose deleter releases it (array value-initialised)" % (f.render(idx), dd["name"])
    return False, "declaration of the smart pointer not found"


def raw_local_released(P, f, vid, src, mt):
    """raw owning local: released/returned on every normal exit and at every raising element while live."""
    frees = []
    rets = []
    for i in f.walk():
        k = f.k(i)
        if k == "CXXDeleteExpr":
            a = f.strip(f.ch(i)[0])
            if f.k(a) == "DeclRefExpr" and f.nodes[a]["decl"]["id"] == vid:
                frees.append(i)
        if k == "CallExpr" and f.nodes[i].get("callee", {}).get("name") == "free":
            a = f.strip(f.args(i)[0])
            if f.k(a) == "DeclRefExpr" and f.nodes[a]["decl"]["id"] == vid:
                frees.append(i)
        if k == "ReturnStmt":
            if any(f.k(x) == "DeclRefExpr" and f.nodes[x]["decl"].get("id") == vid for x in f.walk(i)):
                rets.append(i)
    # smart pointer takes it over later?
    for i in f.walk():
        n = f.nodes[i]
        if n["k"] in ("CXXConstructExpr",) and core.Program._norm_std(n["callee"]["qname"]).startswith(SMART):
            if any(f.k(x) == "DeclRefExpr" and f.nodes[x]["decl"].get("id") == vid for x in f.walk(i)):
                return True, "taken over by a smart pointer"
    if not frees and not rets:
        return False, "raw local is never released, returned or handed over"
    # normal exits: dataflow 'released or returned'
    pos = f.node_positions()

    def transfer(st, e, b, j):
        if e.get("kind") != "stmt":
            return st
        i = e["n"]
        if i == src:
            return "live"
        if i in frees or i in rets:
            return "done"
        if f.k(i) == "CXXThrowExpr":
            return "thrown"
        return st

    def join(a, b):
        if a == b:
            return a
        if "thrown" in (a, b):
            return a if b == "thrown" else b
        if "none" in (a, b):
            return a if b == "none" else b
        return "live"
    IN, OUT = core.dataflow(f, "none", transfer, join)
    if IN.get(f.cfg["exit"], "none") == "live":
        return False, "a normal exit is reached with the allocation neither released nor returned"
    # exceptional: every raising element while live must sit in a try whose handlers all release it
    for b, st in IN.items():
        s = st
        for j, e in enumerate(f.blocks[b]["elems"]):
            if e.get("kind") == "stmt":
                i = e["n"]
                if s == "live" and i != src:
                    why = P.node_may_throw(f, i, mt)
                    if why and f.k(i) != "CXXThrowExpr" or (why and f.k(i) == "CXXThrowExpr" and not any(f.k(a) == "CXXCatchStmt" for a in f.ancestors(i))):
                        prot = False
                        for (t, in_try, _h) in f.enclosing_try(i):
                            if not in_try:
                                continue
                            hs = f.nodes[t]["handlers"]
                            hall = [h for h in hs if f.nodes[h].get("catchAll")]
                            if hall and all(any(x in frees for x in f.walk(h)) for h in hs):
                                prot = True
                        if not prot:
                            return False, "leaks if %s raises at %s (no handler releases it on every exception type)" % (why, f.loc(i))
            s = transfer(s, e, b, j)
    return True, "released or returned on every normal exit and by the handlers of every raising element"


def run_c20(P, C):
    n2 = ts2(P, C)
    ts2b_other_objects(P, C)
    r = reset_fn_ok(P, C)
    if r is None:
        C.ob("TS-4", "~splinetable", "reset-function", False, "include/photospline/splinetable.h",
             "no clear() member: the destructor trusts ndim != 0 to mean that every array is owned, so a partially built table cannot be released")
    else:
        f_reset, deallocs = r
        count_agreement(P, C, deallocs, f_reset)
    move_ops(P, C)
    ts3(P, C)
    ts5(P, C)
    ts4c(P, C)
    return n2


def ts4c(P, C):
    """character arrays of the auxiliary keys: clear() releases strlen+1 bytes, so every allocate<char>(N) stored into aux must end up
    holding a string of exactly N-1 characters: a copy of N bytes from a source whose N is strlen(source)+1 / size()+1, or a terminator
    stored at index N-1."""
    C.rule("TS-4c", "every allocate<char>(N) for an auxiliary key or value is filled so that strlen == N-1 (terminator at index N-1 on every "
           "path), because clear() releases strlen+1 bytes and an allocator must be given back the size it was asked for", floor=6)
    n = 0
    for f in P.functions.values():
        if f.unit != "driver" or f.cls != CLS:
            continue
        for i in f.walk():
            ap = assign_parts(f, i)
            if not ap or ap[1] is None:
                continue
            rhs = f.strip(ap[1])
            cal = f.nodes[rhs].get("callee")
            if not cal or cal["name"] != "allocate" or cal.get("targs") != ["char"]:
                continue
            tgt = f.render(ap[0]).replace("this->", "")
            N = core.poly(f, f.args(rhs)[0])
            # aliases of the target: `A = tgt` (e.g. new_aux[naux][0] = new_key)
            names = {tgt}
            for j in f.walk():
                ap2 = assign_parts(f, j)
                if ap2 and ap2[1] is not None and f.render(ap2[1]).replace("this->", "") in names:
                    names.add(f.render(ap2[0]).replace("this->", ""))
            ok_paths = []
            texts = []
            for j in f.walk():
                ap2 = assign_parts(f, j)
                if ap2 and ap2[1] is not None and (f.nodes[f.strip(ap2[1])].get("cv") == 0 or f.nodes[f.strip(ap2[1])].get("v") == 0):
                    l = f.strip(ap2[0])
                    lt = f.render(l).replace("this->", "")
                    idx = None
                    if f.k(l) == "ArraySubscriptExpr" and f.render(f.nodes[l]["ch"][0]).replace("this->", "") in names:
                        idx = core.poly(f, f.nodes[l]["ch"][1])
                    elif f.k(l) == "UnaryOperator" and f.nodes[l]["op"] == "*":
                        inner = f.strip(f.ch(l)[0])
                        p = core.poly(f, inner, atomize=lambda ff, x: "BASE" if ff.render(x).replace("this->", "") in names else None)
                        if ("BASE",) in p.t:
                            idx = p - core.Poly.atom("BASE")
                    if idx is not None:
                        texts.append((j, idx))
            copies = []
            for j, cal2 in f.calls():
                if cal2 and cal2["name"] == "copy" and cal2["qname"].startswith("std::"):
                    a = f.args(j)
                    if f.render(a[2]).replace("this->", "") in names:
                        src0 = f.render(a[0])
                        ln = core.poly(f, a[1], atomize=lambda ff, x: "SRC" if ff.render(x) == src0 else None) - core.Poly.atom("SRC")
                        copies.append((j, src0, ln))
            # classification per allocation: all terminator stores must be at N-1; or a copy of exactly N bytes where N = strlen(src)+1
            bad = [(j, idx) for (j, idx) in texts if idx != N - core.Poly.const(1)]
            good_term = [(j, idx) for (j, idx) in texts if idx == N - core.Poly.const(1)]
            full_copy = [c for c in copies if c[2] == N]
            ok = not bad and (bool(good_term) or bool(full_copy))
            n += 1
            C.ob("TS-4c", fshort(f), "chars:%s#%d" % (tgt, n), ok, f.loc(i),
                 "allocate<char>(%r) for %s: terminator stored at %s; full-length copies: %d" %
                 (N, tgt, [repr(idx) for (_j, idx) in texts] or "-", len(full_copy)) +
                 ("" if ok else " — on some path the string is shorter than the allocation, so clear() hands the allocator a smaller size than it was asked for"))
    return n


def ts4d(P, C):
    """TS-4d: the premise of TS-4c for values that arrive as std::string: no terminator inside the string."""
    C.rule("TS-4d", "write_key copies size() characters of the formatted value and a terminator into allocate<char>(size()+1); the stored C string "
           "has size() characters — what clear() assumes when it releases strlen+1 — only if the value contains no NUL character: a "
           "throwing guard refuses such a value before anything is allocated or stored", floor=3)
    from . import vg
    n = 0
    for f in sorted(P.functions.values(), key=lambda g: (g.file, g.line, str(g.targs))):
        if f.unit != "driver" or f.cls != CLS or f.name != "write_key":
            continue
        # the std::string that is copied into a char allocation
        srcs = set()
        for j, cal in f.calls():
            if cal and cal["name"] == "copy" and cal["qname"].startswith("std::"):
                a = f.args(j)
                if f.render(a[0]).endswith(".begin()"):
                    for z in f.walk(a[0]):
                        if f.k(z) == "DeclRefExpr" and f.nodes[z]["decl"].get("kind") == "Var" and "string" in (f.nodes[z]["decl"].get("type", "") + f.nodes[z].get("t", "")):
                            srcs.add(f.nodes[z]["decl"]["id"])
        if not srcs:
            continue
        pos = f.node_positions()
        dom = f.dominators()
        effects = [i for i in f.walk() if i in pos and (member_writes(f, i) or (f.nodes[i].get("callee") or {}).get("name") == "allocate")]
        ok = False
        where = f.where()
        for g in vg.guards_of(f):
            cond = f.nodes[g["node"]]["cond"]
            hit = False
            for y in f.walk(cond):
                cal = f.nodes[y].get("callee")
                if cal and cal["name"] in ("find", "find_first_of", "count", "memchr") and \
                        any(f.nodes[f.strip(a)].get("cv", f.nodes[f.strip(a)].get("v")) == 0 and "char" in (f.nodes[f.strip(a)].get("t") or "char") for a in f.args(y)) and \
                        any(f.k(z) == "DeclRefExpr" and f.nodes[z]["decl"].get("id") in srcs for z in f.walk(y)):
                    hit = True
            if not hit:
                continue
            first = core.cond_leaves(f, cond)[1][0]
            pg = next((pos[x] for x in [first] + list(f.walk(first)) if x in pos), None)
            if pg is not None and all(pg[0] in dom.get(pos[e][0], ()) for e in effects):
                ok = True
                where = f.loc(g["node"])
        n += 1
        C.ob("TS-4d", fshort(f), "no-terminator-inside-the-value", ok, where,
             "a value containing a NUL character is refused before the first allocation" if ok else
             "nothing refuses a value that contains a NUL character: size()+1 characters are allocated, the stored string ends at the NUL, and "
             "every later release hands the allocator strlen()+1 — less than it was asked for (the value is also cut short)")
    if n == 0:
        raise core.AnalysisBroken("TS-4d: write_key copies no std::string into a character allocation")
    return n


def ts7(P, C, floor=3):
    """TS-7: a member that has been handed back to the allocator is nulled or re-pointed before anything can raise."""
    C.rule("TS-7", "after deallocate(member, ...) the member is assigned (null or its replacement) before the next element that may raise: while "
           "it still holds the released pointer, a cleanup guard or handler that calls clear() would release it a second time, and without "
           "one the table would be left with a dangling pointer", floor=floor)
    mt = P.maythrow()
    n = 0
    for f in sorted(mutators(P), key=lambda g: (g.file, g.line)):
        if f.name == RESET_FN or f.name.startswith("~"):
            continue
        rel = [i for i, cal in f.calls() if cal and cal["name"] == "deallocate" and f.args(i) and root_member(f, f.args(i)[0]) and root_member(f, f.args(i)[0])[2] == "this"]
        if not rel:
            continue

        def key_of(i):
            r = root_member(f, i)
            j = f.strip(i)
            while f.k(j) == "BinaryOperator" and f.nodes[j]["op"] in ("+", "-"):      # allocate(...) + offset is released as pointer - offset
                j = f.strip(f.nodes[j]["ch"][0])
            return (r[0], f.render(j).replace("this->", "").replace(" ", "")) if r else None

        def transfer(st, e, b, j):
            if e.get("kind") != "stmt":
                return st
            i = e["n"]
            cal = f.nodes[i].get("callee")
            if cal and cal["name"] == "deallocate" and f.args(i):
                k = key_of(f.args(i)[0])
                if k and root_member(f, f.args(i)[0])[2] == "this":
                    return st | {(k[0], k[1], f.loc(i))}
            ap = assign_parts(f, i)
            if ap and f.nodes[i].get("op", "=") == "=":
                k = key_of(ap[0])
                if k:
                    # assigning the member itself, or the array that contains the released element
                    return frozenset(t for t in st if not (t[1] == k[1] or (t[0] == k[0] and t[1].startswith(k[1]))))
            return st
        IN, OUT = core.dataflow(f, frozenset(), transfer, lambda a, b: a | b)
        bad = []
        for b, blk in f.blocks.items():
            if b not in IN:
                continue
            st = IN[b]
            for j, e in enumerate(blk["elems"]):
                if e.get("kind") == "stmt" and st:
                    i = e["n"]
                    cal = f.nodes[i].get("callee")
                    is_rel = bool(cal and cal["name"] == "deallocate")
                    if not is_rel and P.node_may_throw(f, i, mt) and not P.contained(f, i, mt):
                        # elements released inside a loop and re-pointed after the whole array was dropped are covered by the array's own entry
                        bad.append((i, sorted(st)[0]))
                st = transfer(st, e, b, j)
        n += 1
        seen = set()
        bad = [x for x in bad if not (str(f.nodes[x[0]]["loc"]) in seen or seen.add(str(f.nodes[x[0]]["loc"])))]
        C.ob("TS-7", fshort(f), "released-member-repointed", not bad, f.loc(bad[0][0]) if bad else f.where(),
             ("%d release(s) of member storage, each followed by an assignment to the member before anything can raise" % len(rel)) if not bad else
             "%s at %s may raise while %s still holds the pointer released at %s" % (f.k(bad[0][0]), f.loc(bad[0][0]), bad[0][1][1], bad[0][1][2]))
    return n


def ts3b(P, C, floor=1):
    """TS-3b: storage that exists while ndim is 0 (the auxiliary keys) is not overwritten by a populating operation."""
    C.rule("TS-3b", "a function that points `aux` at a fresh array without having released the old one (the reader) is entered only with a table "
           "known to hold no auxiliary keys: its call sites are dominated by a throwing test of naux (or aux) besides the test of ndim, or by "
           "clear(), or are constructors — write_key works on a table without a spline, so `ndim == 0` alone does not mean `empty`", floor=floor)
    sites = []
    for f in mutators(P):
        for i in f.walk():
            ap = assign_parts(f, i)
            if not ap or ap[1] is None:
                continue
            r = root_member(f, ap[0])
            if not (r and r[0] == "aux" and r[1] == 0 and r[2] == "this"):
                continue
            rhs = f.strip(ap[1])
            if (f.nodes[rhs].get("callee") or {}).get("name") != "allocate":
                continue
            sites.append((f, i))

    def known_keyless_before(f, target):
        def transfer(st, e, b, j):
            if e.get("kind") != "stmt":
                return st
            cal = f.nodes[e["n"]].get("callee")
            if cal and cal["name"] == RESET_FN:
                return True
            if cal and cal["name"] == "deallocate" and f.args(e["n"]) and root_member(f, f.args(e["n"])[0]) and root_member(f, f.args(e["n"])[0])[:2] == ("aux", 0):
                return True                                  # the old array was released here
            return st

        def edge(st, b, k, s, cond):
            if cond is None or cond < 0:
                return st
            c, neg = core.cond_polarity(f, cond)
            n = f.nodes[c]
            # the last block of `A || B` carries the whole disjunction as its condition: on its false edge every disjunct is false
            # (dually for `A && B` on the true edge)
            if n["k"] == "BinaryOperator" and n["op"] in ("||", "&&") and not neg:
                if (n["op"] == "||" and k == 1) or (n["op"] == "&&" and k == 0):
                    out = st
                    for sub in n["ch"]:
                        out = out or edge(st, b, k, s, sub)
                    return out
                return st
            rr = None
            nz_when_true = None
            if n["k"] == "BinaryOperator" and n["op"] in ("!=", "=="):
                l, r = (f.strip(x) for x in n["ch"])
                rr = root_member(f, l)
                if rr and (f.nodes[r].get("cv") == 0 or is_null(f, r)):
                    nz_when_true = (n["op"] == "!=") != neg
            elif n["k"] == "MemberExpr":
                rr = root_member(f, c)
                nz_when_true = not neg
            if rr and rr[0] in ("naux", "aux") and rr[1] == 0 and nz_when_true is not None:
                empty_edge = (k == 1) if nz_when_true else (k == 0)
                if empty_edge:
                    return True
            return st
        IN, OUT = core.dataflow(f, f.kind == "ctor", transfer, lambda a, b: a and b, edge)
        pos = f.node_positions()
        if target not in pos:
            return False
        return bool(core.state_before(f, IN, transfer, *pos[target]))

    n = 0
    for (f, i) in sites:
        if known_keyless_before(f, i):
            continue                                          # releases the old array itself (write_key, remove_key) or tests naux
        n += 1
        callers = []
        for g in P.functions.values():
            if g.unit != "driver":
                continue
            for ci, cal in g.calls():
                if cal and cal["usr"] == f.usr:
                    callers.append((g, ci))
        ok = bool(callers) and all(known_keyless_before(g, ci) for g, ci in callers)
        badc = [fshort(g) for g, ci in callers if not known_keyless_before(g, ci)]
        C.ob("TS-3b", fshort(f), "aux-overwritten-only-when-keyless", ok, f.loc(i),
             ("%d call site(s), each entered only with naux == 0 (or after clear(), or a constructor)" % len(callers)) if ok else
             "aux is pointed at a fresh array while the table may hold keys (call sites without a test of naux: %s): the old entries leak and the "
             "keys are silently lost" % ", ".join(badc))
    if n == 0 and not sites:
        raise core.AnalysisBroken("TS-3b: no assignment of a fresh array to aux found")
    return n


def ts8(P, C, floor=2):
    """TS-8: the entry count of the key store changes only together with its array."""
    C.rule("TS-8", "clear() (and every reallocation) hands the key array back to the allocator with the current naux as its size, so naux may "
           "change only in a function that also installs an array obtained with the matching count: a function that increments, decrements or "
           "assigns naux stores into aux an array that comes from allocate<>() — compacting the entries in place and decrementing naux "
           "leaves a block that was obtained for one count and is later returned with another", floor=floor)
    n = 0
    for f in sorted(mutators(P), key=lambda g: (g.file, g.line)):
        if f.name == RESET_FN or f.name.startswith("~") or (f.kind == "ctor" and len(f.params) == 1 and "&&" in f.params[0]["type"]) or f.name == "operator=":
            continue        # clear(), destructor and the move operations transfer or release the pair as a whole (TS-4)
        changes = []
        for i in f.walk():
            ap = assign_parts(f, i)
            if not ap:
                continue
            r = root_member(f, ap[0])
            if not r or r[0] != "naux" or r[2] != "this" or r[1] != 0:
                continue
            if ap[1] is not None and f.nodes[i].get("op") == "=" and f.nodes[f.strip(ap[1])].get("cv") == 0:
                continue    # naux = 0 next to aux = NULL: no array
            changes.append(i)
        if not changes:
            continue
        # arrays installed into aux that come from allocate (directly or through a local initialised / assigned from allocate)
        from_alloc = set()
        for i in f.walk():
            if f.k(i) == "DeclStmt":
                for d in f.nodes[i]["decls"]:
                    if d.get("init", -1) >= 0 and any((f.nodes[y].get("callee") or {}).get("name") == "allocate" for y in f.walk(d["init"])):
                        from_alloc.add(d["id"])
        for i in f.walk():
            ap = assign_parts(f, i)
            if ap and ap[1] is not None and f.k(f.strip(ap[0])) == "DeclRefExpr" and f.nodes[f.strip(ap[0])]["decl"].get("kind") == "Var" and \
                    any((f.nodes[y].get("callee") or {}).get("name") == "allocate" for y in f.walk(ap[1])):
                from_alloc.add(f.nodes[f.strip(ap[0])]["decl"]["id"])
        installs = []
        for i in f.walk():
            ap = assign_parts(f, i)
            if not ap or ap[1] is None:
                continue
            r = root_member(f, ap[0])
            if r and r[0] == "aux" and r[1] == 0 and r[2] == "this":
                src = f.strip(ap[1])
                if any((f.nodes[y].get("callee") or {}).get("name") == "allocate" for y in f.walk(src)) or \
                        (f.k(src) == "DeclRefExpr" and f.nodes[src]["decl"].get("id") in from_alloc):
                    installs.append(i)
        n += 1
        C.ob("TS-8", fshort(f), "naux-changes-with-aux", bool(installs), f.loc(changes[0]),
             "%d change(s) of naux, together with an array from allocate installed into aux" % len(changes) if installs else
             "naux is changed at %s but no newly allocated array is installed into aux: the block that holds the entries was obtained for the old "
             "count and will be handed back with the new one" % f.loc(changes[0]))
    if n == 0:
        raise core.AnalysisBroken("TS-8: no function changes naux")
    return n


def ts9(P, C, floor=2):
    """TS-9: an empty key store has no array."""
    C.rule("TS-9", "the readers take `ndim == 0 && naux == 0` for 'this table owns nothing' and then assign aux without releasing it, so a key "
           "operation that can run on a table without a spline (write_key, remove_key) never installs an array of zero entries: the count "
           "of every array it installs into aux is at least 1 for every reachable naux (naux + k with k >= 1, or naux - 1 only under "
           "naux > 1 with null installed otherwise)", floor=floor)
    n = 0
    for f in sorted(mutators(P), key=lambda g: (g.file, g.line)):
        if f.name not in ("write_key", "remove_key"):
            continue
        # the allocate<char_ptr_ptr>(count) calls: the arrays of entries
        sites = [i for i, cal in f.calls() if cal and cal["name"] == "allocate" and (cal.get("targs") or [""])[0] == "char **"]
        for i in sites:
            cnt = norm_count(f, f.args(i)[0])
            d = cnt - Poly.atom("naux")
            ok = False
            why = "count %r" % cnt
            if d.is_const() and d.const_value() >= 1:
                ok = True
                why = "count %r is at least 1" % cnt
            elif d.is_const() and d.const_value() <= 0:
                need = 1 - d.const_value()        # naux >= need  <=>  naux > need-1
                # an enclosing if / conditional whose condition is naux > need-1 (in any orientation), with the call in the true arm
                prev = i
                for a in f.ancestors(i):
                    k = f.k(a)
                    if k in ("IfStmt", "ConditionalOperator"):
                        cond = f.nodes[a]["cond"] if k == "IfStmt" else f.nodes[a]["ch"][0]
                        arm = f.nodes[a].get("then") if k == "IfStmt" else f.nodes[a]["ch"][1]
                        in_true = arm == prev or prev in set(f.walk(arm))
                        orr = f.oriented(cond, lambda x: bool(root_member(f, x)) and root_member(f, x)[0] == "naux")
                        if orr and in_true:
                            cv = f.nodes[orr[2]].get("cv")
                            if (orr[1] == ">" and cv is not None and cv >= need - 1) or (orr[1] == ">=" and cv is not None and cv >= need) or \
                                    (orr[1] == "!=" and cv == 0 and need == 1):
                                ok = True
                                why = "count %r, allocated only when %s" % (cnt, f.render(cond))
                    prev = a
                if not ok:
                    why = "count %r is 0 when naux is %d: removing the last key installs an array of zero entries, which a later read into the (spline-less) " \
                          "table overwrites without releasing" % (cnt, need - 1)
            n += 1
            C.ob("TS-9", fshort(f), "installed-array-not-empty@%d" % f.nodes[i]["loc"][0], ok, f.loc(i), why)
    if n == 0:
        raise core.AnalysisBroken("TS-9: no key-array allocation found in write_key / remove_key")
    return n


def ts10(P, C, floor=2):
    """TS-10: a handler returns to the allocator only what was obtained."""
    C.rule("TS-10", "in a catch handler, deallocate(p, n) of a local p that starts as nullptr and is assigned inside the try block is executed "
           "only under a test that p is non-null: the handler also runs when an EARLIER statement of the try block threw, and an allocator "
           "must only be handed back pointers it handed out (Allocator requirements; the release routine clear() tests every pointer before "
           "it releases it — the sibling this contradicts). 'All memory obtained from its allocator is returned exactly once'", floor=floor)
    n = 0
    for f in sorted(P.functions.values(), key=lambda g: (g.file, g.line, g.qname)):
        if f.unit != "driver" or f.cls != CLS:
            continue
        for t in f.walk():
            if f.k(t) != "CXXTryStmt":
                continue
            tb = f.nodes[t]["tryBlock"]
            assigned = {}
            for x in f.walk(tb):
                ap = assign_parts(f, x)
                if ap and ap[1] is not None and f.k(f.strip(ap[0])) == "DeclRefExpr" and f.nodes[f.strip(ap[0])]["decl"].get("kind") == "Var":
                    assigned.setdefault(f.nodes[f.strip(ap[0])]["decl"]["id"], x)
            for h in f.nodes[t]["handlers"]:
                for i, cal in f.calls(h):
                    if not cal or cal["name"] != "deallocate":
                        continue
                    a = f.args(i)
                    p = f.strip(a[0]) if a else -1
                    if p < 0 or f.k(p) != "DeclRefExpr" or f.nodes[p]["decl"].get("id") not in assigned:
                        continue
                    vid = f.nodes[p]["decl"]["id"]
                    # declared null?
                    init_null = False
                    for x in f.walk():
                        if f.k(x) == "DeclStmt":
                            for d in f.nodes[x]["decls"]:
                                if d.get("id") == vid and d.get("init", -1) >= 0:
                                    init_null = is_null(f, d["init"])
                    if not init_null:
                        continue
                    guarded = False
                    for anc in f.ancestors(i):
                        if anc == h:
                            break
                        if f.k(anc) == "IfStmt" and i in set(f.walk(f.nodes[anc]["then"])):
                            c, neg = core.cond_polarity(f, f.nodes[anc]["cond"])
                            cn = f.nodes[c]
                            if cn["k"] == "DeclRefExpr" and cn["decl"].get("id") == vid and not neg:
                                guarded = True
                            if cn["k"] == "BinaryOperator" and cn.get("op") == "!=" and not neg:
                                sides = [f.strip(y) for y in cn["ch"]]
                                if any(f.k(y) == "DeclRefExpr" and f.nodes[y]["decl"].get("id") == vid for y in sides) and any(is_null(f, y) for y in sides):
                                    guarded = True
                    n += 1
                    C.ob("TS-10", fshort(f), "handler-releases-only-what-was-obtained:%s" % f.var_name(vid), guarded, f.loc(i),
                         "deallocate(%s, …) in the handler runs only when %s is non-null" % (f.var_name(vid), f.var_name(vid)) if guarded else
                         "deallocate(%s, …) in the handler also runs when the allocation of %s was never reached (an earlier allocate of the try block threw): "
                         "a null pointer the allocator never handed out is handed back to it" % (f.var_name(vid), f.var_name(vid)))
    return n


def ts10b(P, C, floor=3):
    """TS-10b: the key array is released only where there is one."""
    C.rule("TS-10b", "deallocate(aux, naux) is executed only where the key array exists: under a test of aux (or of naux being non-zero), or after "
           "an element aux[..] has been accessed on every path to it. An empty store has no array (aux == nullptr, naux == 0: TS-9), and the "
           "allocator may only be handed back what it handed out", floor=floor)
    n = 0
    for f in sorted(P.functions.values(), key=lambda g: (g.file, g.line, g.qname)):
        if f.unit != "driver" or f.cls != CLS:
            continue
        sites = []
        for i, cal in f.calls():
            if cal and cal["name"] == "deallocate" and f.args(i):
                r = root_member(f, f.args(i)[0])
                if r and r[0] == "aux" and r[1] == 0 and r[2] == "this":
                    sites.append(i)
        if not sites:
            continue
        pos = f.node_positions()
        dom = f.dominators()

        def at(x):
            while x >= 0 and x not in pos:
                x = f.parent[x]
            return pos.get(x)
        for i in sites:
            pi = at(i)
            how = None
            for anc in f.ancestors(i):
                if f.k(anc) == "IfStmt" and i in set(f.walk(f.nodes[anc]["then"])):
                    c, neg = core.cond_polarity(f, f.nodes[anc]["cond"])
                    conn, leaves = core.cond_leaves(f, c)
                    for lf in ([c] if conn == "leaf" else leaves if conn == "&&" else []):
                        l2, n2 = core.cond_polarity(f, lf)
                        r = root_member(f, l2)
                        if r and r[0] in ("aux", "naux") and r[1] == 0 and not (neg ^ n2):
                            how = "under `if(%s)`" % f.render(f.nodes[anc]["cond"]).replace("this->", "")
                        nn = f.nodes[l2]
                        if nn["k"] == "BinaryOperator" and nn.get("op") in ("!=", "<") and not (neg ^ n2):
                            sides = [f.strip(y) for y in nn["ch"]]
                            if any(root_member(f, y) and root_member(f, y)[0] in ("aux", "naux") for y in sides) and any(f.nodes[y].get("cv") == 0 or is_null(f, y) for y in sides):
                                how = "under `if(%s)`" % f.render(f.nodes[anc]["cond"]).replace("this->", "")
            if how is None and pi:
                # an element of the array was touched on every path to the release
                for x in f.walk():
                    if f.k(x) != "ArraySubscriptExpr":
                        continue
                    r = root_member(f, x)
                    if not (r and r[0] == "aux" and r[2] == "this"):
                        continue
                    px = at(x)
                    if not px or x in set(f.walk(i)):
                        continue
                    if (px[0] == pi[0] and px[1] < pi[1]) or (px[0] != pi[0] and px[0] in dom.get(pi[0], ())):
                        how = "after %s at %s" % (f.render(x).replace("this->", ""), f.loc(x))
                        break
            n += 1
            C.ob("TS-10b", fshort(f), "key-array-released-where-it-exists#%d" % n, how is not None, f.loc(i),
                 "deallocate(aux, naux) %s" % how if how else
                 "deallocate(aux, naux) is reached with an empty store as well (aux == nullptr, naux == 0): a null pointer the allocator never handed out is handed back to it")
    return n
