"""CW — C-wrapper rules (serves C18; parts reused by C07, C08, C13).

CW-0 exhaustiveness, CW-1 containment, CW-2 failure mapping, CW-3 status
propagation, CW-4 handle ownership, CW-5 forwarding.
"""
from .. import core

WRAPPER_FILE = "src/cinter/splinetable.cpp"
HEADER_FILE = "include/photospline/cinter/splinetable.h"

# wrapper -> (member it must call, rendered arguments in order, forwards the return value?)
# Derived from today's wrapper, one line each; the argument strings are renderings of the
# resolved AST (parameters / dereferences / view locals), not source text.
FORWARD = {
    "splinetable_ndim": ("get_ndim", [], True),
    "splinetable_order": ("get_order", ["dim"], True),
    "splinetable_nknots": ("get_nknots", ["dim"], True),
    "splinetable_knots": ("get_knots", ["dim"], True),
    "splinetable_knot": ("get_knot", ["dim", "knot"], True),
    "splinetable_lower_extent": ("lower_extent", ["dim"], True),
    "splinetable_upper_extent": ("upper_extent", ["dim"], True),
    "splinetable_period": ("get_period", ["dim"], True),
    "splinetable_ncoeffs": ("get_ncoeffs", ["dim"], True),
    "splinetable_total_ncoeffs": ("get_ncoeffs", [], True),
    "splinetable_stride": ("get_stride", ["dim"], True),
    "splinetable_coefficients": ("get_coefficients", [], True),
    "tablesearchcenters": ("searchcenters", ["x", "centers"], True),
    "ndsplineeval": ("ndsplineeval", ["x", "centers", "derivatives"], True),
    "ndsplineeval_gradient": ("ndsplineeval_gradient", ["x", "centers", "evaluates"], False),
    "ndsplineeval_deriv": ("ndsplineeval_deriv", ["x", "centers", "derivatives"], True),
    "splinetable_convolve": ("convolve", ["dim", "knots", "n_knots"], False),
    "splinetable_get_key": ("get_aux_value", ["key"], True),
    "splinetable_read_key": ("read_key", ["key", None], False),
    "splinetable_write_key": ("write_key", ["key", None], False),
    "splinetable_init": ("splinetable", [], False),
    "readsplinefitstable": ("splinetable", ["path"], False),
    "writesplinefitstable": ("write_fits", ["path"], False),
    "readsplinefitstable_mem": ("read_fits_mem", ["buffer->data", "buffer->size"], False),
    "writesplinefitstable_mem": ("write_fits_mem", [], False),
    "splinetable_permute": ("permuteDimensions", ["permutationv"], False),
    "splinetable_glamfit": ("fit", ["(*data)", "weightsv", "coordsv", "splineOrderv", "knotsv", "smoothingv",
                                    "penaltyOrderv", "monodim", "verbose"], False),
    "splinetable_grideval": ("grideval", ["coordsv"], False),
}
# view locals of the fit/grideval/permute wrappers: local -> the parameters it must be built from
VIEWS = {
    "splinetable_glamfit": {"weightsv": ["weights", "data->rows"], "coordsv": ["coords[i]", "data->ranges[i]"],
                            "splineOrderv": ["splineOrder", "data->ndim"], "knotsv": ["knots[i]", "nknots[i]"],
                            "smoothingv": ["smoothing", "data->ndim"], "penaltyOrderv": ["penaltyOrder", "data->ndim"]},
    "splinetable_grideval": {"coordsv": ["coords[i]", "ncoords[i]"]},
    "splinetable_permute": {"permutationv": ["permutation"]},
}
# typed key access: each case of the switch must use the matching C type
KEY_TYPES = {"SPLINETABLE_INT": "int", "SPLINETABLE_DOUBLE": "double"}

# members whose bool result is the only failure channel (no exception): one line of reason each
STATUS_MEMBERS = {"read_key": "returns false when the key is absent or its value does not parse"}

# wrappers that are not "status" wrappers although they return int
FORWARDS_INT = {"tablesearchcenters": "returns the lookup result itself"}


def wrappers(P):
    ws = [f for f in P.functions.values() if f.externC and f.file.endswith(WRAPPER_FILE)]
    return sorted(ws, key=lambda f: f.line)


def short(f):
    return f.name


def fail_value_ok(f, ret):
    """return statement returns a failure value for the function's return type"""
    n = f.nodes[ret]
    v = n.get("value", -1)
    rt = f.d["rtype"]
    if v < 0:
        return rt == "void"
    vn = f.nodes[v]
    if rt.endswith("*"):
        s = f.strip(v)
        return f.nodes[s]["k"] in ("GNUNullExpr", "CXXNullPtrLiteralExpr") or f.nodes[s].get("cv") == 0 or vn.get("cv") == 0
    return "cv" in vn and vn["cv"] != 0


def cw0(P, C):
    C.rule("CW-0", "every function declared in cinter/splinetable.h is defined extern \"C\" in the wrapper unit and vice versa", floor=30)
    declared = {}
    for d in P.decls:
        if d["file"].endswith(HEADER_FILE):
            declared[d["name"]] = d
    defined = {f.name: f for f in wrappers(P)}
    for name, d in sorted(declared.items()):
        f = defined.get(name)
        C.ob("CW-0", name, "declared->defined", f is not None and d["externC"],
             "%s:%d" % (HEADER_FILE, d["line"]),
             "declared in the C header but %s" % ("not defined extern \"C\" in the wrapper unit" if f is None else "declaration lacks C linkage"))
    for name, f in sorted(defined.items()):
        if name not in declared:
            C.ob("CW-0", name, "defined->declared", False, f.where(), "extern \"C\" definition has no declaration in the C header")
    return declared, defined


def cw1(P, C, only=None):
    C.rule("CW-1", "in each wrapper every element that may raise (whole-program effect summary, operator new included) "
           "lies inside a try whose catch(...) handler does not rethrow", floor=30 if only is None else len(only))
    mt = P.maythrow()
    for f in wrappers(P):
        if only is not None and f.name not in only:
            continue
        bad = []
        n_sites = 0
        for i in f.walk():
            r = P.node_may_throw(f, i, mt)
            if not r:
                continue
            n_sites += 1
            if not P.contained(f, i, mt):
                bad.append((i, r))
        if not bad:
            C.ob("CW-1", f.name, "contained", True, f.where(), "%d raising element(s), all contained" % n_sites)
        for i, r in bad:
            cal = f.nodes[i].get("callee")
            sym = cal["name"] if cal else f.k(i)
            C.ob("CW-1", f.name, "escapes:" + sym, False, f.loc(i), "%s — not enclosed by a swallowing catch(...)" % r)


def returns_in(f, root):
    return [i for i in f.walk(root) if f.k(i) == "ReturnStmt"]


def cw2(P, C, only=None):
    C.rule("CW-2", "every catch handler and every early argument rejection of a wrapper returns non-zero / NULL; "
           "the normal exit of a status wrapper returns 0", floor=20 if only is None else len(only))
    for f in wrappers(P):
        if only is not None and f.name not in only:
            continue
        rt = f.d["rtype"]
        handlers = [i for i in f.walk() if f.k(i) == "CXXCatchStmt"]
        for h in handlers:
            rets = returns_in(f, h)
            ok = bool(rets) and all(fail_value_ok(f, r) for r in rets)
            if rt == "void":
                ok = True
            C.ob("CW-2", f.name, "handler@%s" % (f.nodes[h].get("catchType") or "..."), ok, f.loc(h),
                 "handler must end in a failure return (%s)" % ", ".join(f.render(r) for r in rets))
        # early rejections: returns control-dependent on a null test of a parameter (before any try)
        for r in returns_in(f, f.body):
            anc = list(f.ancestors(r))
            if any(f.k(a) in ("CXXCatchStmt", "CXXTryStmt") for a in anc):
                continue
            ifs = [a for a in anc if f.k(a) == "IfStmt"]
            if ifs and rt != "void":
                C.ob("CW-2", f.name, "reject@%s" % f.render(f.nodes[ifs[0]]["cond"])[:60], fail_value_ok(f, r), f.loc(r),
                     "argument rejection returns %s" % f.render(r))
        # normal exit of status wrappers: the function-level return is 0, every nested return is a failure value
        if rt == "int" and f.name not in FORWARDS_INT and handlers:
            top = [r for r in returns_in(f, f.body) if f.parent[r] == f.body]
            ok = bool(top) and all(f.nodes[r].get("value", -1) >= 0 and f.nodes[f.nodes[r]["value"]].get("cv") == 0 for r in top)
            C.ob("CW-2", f.name, "normal-exit", ok, f.where(), "normal exit returns %s" % ", ".join(f.render(r) for r in top))
            nested = [r for r in returns_in(f, f.body) if f.parent[r] != f.body
                      and not any(f.k(a) == "CXXCatchStmt" for a in f.ancestors(r))]
            for r in nested:
                C.ob("CW-2", f.name, "nested-return", fail_value_ok(f, r), f.loc(r),
                     "a return before the normal exit of a status wrapper is a rejection and must be non-zero: %s" % f.render(r))


def cw3(P, C):
    C.rule("CW-3", "the bool result of members that report failure by return value (read_key) reaches the wrapper's return value", floor=2)
    for f in wrappers(P):
        for i, cal in f.calls():
            if not cal or cal["name"] not in STATUS_MEMBERS or cal.get("cls", "").find("splinetable") < 0:
                continue
            # climb through implicit nodes to the consumer
            p = f.parent[i]
            while p >= 0 and f.k(p) in core.IMPLICIT_ONLY:
                p = f.parent[p]
            used = None
            if p < 0 or f.k(p) in ("CompoundStmt", "CaseStmt", "DefaultStmt", "SwitchStmt", "LabelStmt"):
                used = False
                why = "result discarded"
            else:
                # accepted consumers: if(!call) return nonzero / return call-derived / assignment to a variable tested later
                why = "result consumed by %s" % f.k(p)
                used = False
                q = i
                a = p
                while a >= 0 and f.k(a) in ("UnaryOperator", "BinaryOperator") or (a >= 0 and f.k(a) in core.IMPLICIT_ONLY):
                    q = a
                    a = f.parent[a]
                if a >= 0 and f.k(a) == "IfStmt" and f.nodes[a]["cond"] in list(f.walk(f.nodes[a]["cond"])) and q in set(f.walk(f.nodes[a]["cond"])):
                    rets = returns_in(f, f.nodes[a]["then"]) + (returns_in(f, f.nodes[a]["else"]) if f.nodes[a]["else"] >= 0 else [])
                    used = any(fail_value_ok(f, r) for r in rets)
                    why = "tested; failure branch returns " + ", ".join(f.render(r) for r in rets)
                elif a >= 0 and f.k(a) == "ReturnStmt":
                    used = True
                    why = "returned"
                elif a >= 0 and f.k(a) == "DeclStmt" or (a >= 0 and f.k(a) in ("BinaryOperator", "CompoundAssignOperator")):
                    used = True
                    why = "stored"
            C.ob("CW-3", f.name, "%s<%s>" % (cal["name"], ",".join(str(t) for t in cal.get("targs", []))), used, f.loc(i),
                 "%s: %s (%s)" % (cal["name"], STATUS_MEMBERS[cal["name"]], why))


def false_after_effect(P, g):
    from . import ts
    """callee g returns the literal false on a path on which it has already written a member: [(return node, writing node)]"""
    pos = g.node_positions()
    rets = []
    for r in g.walk():
        if g.k(r) == "ReturnStmt" and g.ch(r):
            v = g.strip(g.ch(r)[0])
            while g.k(v) == "ParenExpr" and g.ch(v):
                v = g.strip(g.ch(v)[0])
            if (g.k(v) == "CXXBoolLiteralExpr" and not g.nodes[v].get("v", g.nodes[v].get("cv", True))) or g.nodes[v].get("cv") == 0:
                rets.append(r)
    ws = [w for w in g.walk() if w in pos and ts.member_writes(g, w)]
    out = []
    for r in rets:
        pr = pos.get(r)
        if pr is None:
            x = r
            while x >= 0 and x not in pos:
                x = g.parent[x]
            pr = pos.get(x)
        if pr is None:
            continue
        for w in ws:
            pw = pos[w]
            if (pw[0] == pr[0] and pw[1] < pr[1]) or (pw[0] != pr[0] and pr[0] in g.reachable_blocks(pw[0])):
                out.append((r, w))
                break
    return out


def cw3b(P, C):
    C.rule("CW-3b", "a wrapper turns a C++ bool result into a non-zero return only where `false` means failure in the callee: a member that "
           "returns false on a path on which it has already changed the table (write_key: false = an existing key was overwritten, the "
           "operation succeeded) must not have its result mapped to an error — the C caller would be told that a call failed which did "
           "change the table, unlike the C++ operation it wraps", floor=2)
    n = 0
    for f in wrappers(P):
        for i, cal in f.calls():
            if not cal or cal.get("cls", "").find("splinetable") < 0 or not cal.get("usr"):
                continue
            g = P.functions.get(cal["usr"])
            if g is None or "bool" not in (g.d.get("rtype", "") or g.d.get("type", "")):
                continue
            # is the result tested, with a failing arm?
            q, a = i, f.parent[i]
            while a >= 0 and (f.k(a) in core.IMPLICIT_ONLY or f.k(a) in ("UnaryOperator", "ParenExpr")):
                q, a = a, f.parent[a]
            tested = a >= 0 and f.k(a) == "IfStmt" and q in set(f.walk(f.nodes[a]["cond"]))
            mapped = False
            if tested:
                rets = returns_in(f, f.nodes[a]["then"]) + (returns_in(f, f.nodes[a]["else"]) if f.nodes[a]["else"] >= 0 else [])
                mapped = any(fail_value_ok(f, r) for r in rets)
            fe = false_after_effect(P, g)
            n += 1
            ok = not (mapped and fe)
            C.ob("CW-3b", f.name, "%s<%s>" % (cal["name"], ",".join(str(t) for t in cal.get("targs", []))), ok, f.loc(i),
                 ("%s: result %s; callee returns false only before any effect: %s" % (cal["name"], "mapped to an error" if mapped else "not mapped to an error", not fe)) if ok else
                 "%s returns false at %s after it has changed the table at %s (an overwrite, not a failure), yet the wrapper returns non-zero when it sees false" %
                 (cal["name"], g.loc(fe[0][0]), g.loc(fe[0][1])))
    return n


def _is_table_data(f, i):
    i = f.strip(i)
    n = f.nodes[i]
    return n["k"] == "MemberExpr" and n["member"] == "data" and n.get("fieldOf") == "splinetable"


def cw4(P, C, only=None):
    C.rule("CW-4", "handle ownership: a fresh table is stored into table->data only where the old value is known null or was freed "
           "(splinetable_init exempt: its argument is uninitialised by contract); splinetable_free deletes then nulls; "
           "grideval's result is released exactly once after the call that can throw; ndsparse_destroy deletes the C++ type",
           floor=6 if only is None else len(only) + 2)
    W = {f.name: f for f in wrappers(P)}
    for f in W.values():
        if only is not None and f.name not in only:
            continue
        # stores to table->data
        stores = []
        for i in f.walk():
            n = f.nodes[i]
            if n["k"] == "BinaryOperator" and n["op"] == "=" and _is_table_data(f, n["ch"][0]):
                stores.append(i)
        if not stores:
            continue
        pos = f.node_positions()

        def transfer(st, e, b, j):
            if e.get("kind") != "stmt":
                return st
            n = f.nodes[e["n"]]
            if n["k"] == "CallExpr" and n.get("callee", {}).get("name") == "splinetable_free":
                return True
            if n["k"] == "BinaryOperator" and n["op"] == "=" and _is_table_data(f, n["ch"][0]):
                rhs = f.strip(n["ch"][1])
                return f.nodes[rhs]["k"] in ("GNUNullExpr", "CXXNullPtrLiteralExpr") or f.nodes[rhs].get("cv") == 0
            return st

        def edge(st, b, k, s, cond):
            if cond is None or cond < 0:
                return st
            c, neg = core.cond_polarity(f, cond)
            if _is_table_data(f, c):
                nonnull_edge = (k == 0) != neg   # successor 0 is taken when the written condition is true
                return not nonnull_edge
            return st

        IN, OUT = core.dataflow(f, False, transfer, lambda a, b: a and b, edge)
        for s in stores:
            rhs = f.strip(f.nodes[s]["ch"][1])
            if f.nodes[rhs]["k"] == "CXXNewExpr":
                if f.name == "splinetable_init":
                    C.ob("CW-4", f.name, "store-new", True, f.loc(s), "exempt: argument is uninitialised memory by contract")
                    continue
                b, j = pos[s]
                st = core.state_before(f, IN, transfer, b, j)
                C.ob("CW-4", f.name, "store-new", bool(st), f.loc(s),
                     "fresh table stored into table->data while the previous handle is not known to be null or released through splinetable_free (the old table leaks, or the handle dangles if constructing the replacement fails)" if not st
                     else "old handle known null or freed on every path")
            else:
                isnull = f.nodes[rhs]["k"] in ("GNUNullExpr", "CXXNullPtrLiteralExpr") or f.nodes[rhs].get("cv") == 0
                if f.name == "splinetable_free":
                    continue
                C.ob("CW-4", f.name, "store-other", isnull and False, f.loc(s),
                     "table->data assigned something other than a fresh table outside init/free: %s" % f.render(s))
    # splinetable_free: delete of the typed pointer, then null
    f = W.get("splinetable_free")
    if f is None:
        raise core.AnalysisBroken("anchor splinetable_free vanished")
    dels = [i for i in f.walk() if f.k(i) == "CXXDeleteExpr"]
    nulls = [i for i in f.walk() if f.k(i) == "BinaryOperator" and f.nodes[i]["op"] == "=" and _is_table_data(f, f.nodes[i]["ch"][0])
             and (f.nodes[f.strip(f.nodes[i]["ch"][1])]["k"] in ("GNUNullExpr", "CXXNullPtrLiteralExpr") or f.nodes[f.strip(f.nodes[i]["ch"][1])].get("cv") == 0)]
    pos = f.node_positions()
    ok = len(dels) == 1 and "splinetable" in (f.nodes[dels[0]].get("destroyedCType") or f.nodes[dels[0]].get("destroyedType", "")) and f.nodes[dels[0]].get("nonTrivialDtor")
    C.ob("CW-4", "splinetable_free", "delete-typed", ok, f.where(), "deletes the handle as the C++ table type exactly once")
    ok2 = False
    if dels and nulls and dels[0] in pos and nulls[0] in pos:
        # null store post-dominates... simple: same block after, or reachable only after delete
        (bd, jd), (bn, jn) = pos[dels[0]], pos[nulls[0]]
        ok2 = (bd == bn and jn > jd) or (bn in f.reachable_blocks(bd) and bd not in f.reachable_blocks(bn))
    C.ob("CW-4", "splinetable_free", "null-after-delete", ok2, f.where(), "table->data is reset to NULL after the delete (no dangling handle / double free)")
    if only is not None:
        return
    # grideval: release
    f = W.get("splinetable_grideval")
    if f is not None:
        rel = [i for i, cal in f.calls() if cal and cal["name"] == "release"]
        ge = [i for i, cal in f.calls() if cal and cal["name"] == "grideval"]
        mt = P.maythrow()
        ok = len(rel) == 1 and len(ge) == 1
        detail = "release() called %d time(s), grideval %d" % (len(rel), len(ge))
        if ok:
            pos = f.node_positions()
            (br, jr), (bg, jg) = pos[rel[0]], pos[ge[0]]
            after = (br == bg and jr > jg) or (br in f.reachable_blocks(bg) and br != bg)
            # nothing that may throw between release and the store of its value
            st = f.parent[rel[0]]
            while st >= 0 and f.k(st) in core.IMPLICIT_ONLY:
                st = f.parent[st]
            stored = st >= 0 and f.k(st) == "BinaryOperator" and f.nodes[st]["op"] == "=" and f.render(f.nodes[st]["ch"][0]) == "(*result)"
            in_try = any(t[1] for t in f.enclosing_try(rel[0]))
            ok = after and stored and in_try
            detail = "release after grideval=%s, stored to *result=%s, inside try=%s" % (after, stored, in_try)
        C.ob("CW-4", f.name, "release-once", ok, f.where(), detail)
        # *result = NULL before anything else
        first = None
        for i in f.walk():
            if f.k(i) == "BinaryOperator" and f.nodes[i]["op"] == "=" and f.render(f.nodes[i]["ch"][0]) == "(*result)":
                first = i
                break
        okn = first is not None and (f.nodes[f.strip(f.nodes[first]["ch"][1])]["k"] in ("GNUNullExpr", "CXXNullPtrLiteralExpr"))
        C.ob("CW-4", f.name, "result-null-on-failure", okn, f.where(), "*result is NULL on every failure path")
    # ndsparse_destroy
    f = W.get("ndsparse_destroy")
    if f is not None:
        dels = [i for i in f.walk() if f.k(i) == "CXXDeleteExpr"]
        ok = len(dels) == 1 and f.nodes[dels[0]].get("nonTrivialDtor") and "photospline::ndsparse" in f.nodes[dels[0]].get("destroyedType", "")
        C.ob("CW-4", f.name, "delete-type", ok, f.loc(dels[0]) if dels else f.where(),
             "grideval releases a photospline::ndsparse (destructor frees the arrays); delete is applied to '%s' (non-trivial destructor: %s) — "
             "the arrays leak and the sized deallocation gets the wrong type" %
             (f.nodes[dels[0]].get("destroyedType") if dels else "?", f.nodes[dels[0]].get("nonTrivialDtor") if dels else "?"))


def _table_object(f, i):
    """does the object expression of member call i derive from table->data?"""
    me = f.strip(f.nodes[i]["ch"][0])
    obj = f.ch(me)
    if not obj:
        return False
    o = f.strip(obj[0])
    n = f.nodes[o]
    if n["k"] == "DeclRefExpr" and n["decl"]["kind"] == "Var":
        # local reference: find its initialiser
        vid = n["decl"]["id"]
        for d in f.walk():
            if f.k(d) == "DeclStmt":
                for dd in f.nodes[d]["decls"]:
                    if dd.get("id") == vid and dd.get("init", -1) >= 0:
                        return any(_is_table_data(f, x) for x in f.walk(dd["init"]))
        return False
    return any(_is_table_data(f, x) for x in f.walk(o))


def cw5(P, C):
    C.rule("CW-5", "each wrapper calls the member its name maps to, on the table behind the handle, passing its own parameters "
           "in order (view wrappers built from the matching parameters), forwarding the result where the C function returns one; "
           "precision defaults are the same as the C++ default (float)", floor=27)
    W = {f.name: f for f in wrappers(P)}
    for name, (member, args, fwd) in sorted(FORWARD.items()):
        f = W.get(name)
        if f is None:
            C.ob("CW-5", name, member, False, WRAPPER_FILE, "wrapper vanished")
            continue
        calls = [(i, cal) for i, cal in f.calls() if cal and cal["name"] == member and "splinetable" in cal.get("cls", "")]
        if not calls:
            C.ob("CW-5", name, member, False, f.where(), "wrapper does not call splinetable::%s" % member)
            continue
        for i, cal in calls:
            got = [f.render(a) for a in f.args(i)]
            # drop defaulted trailing args (allocator of the constructor)
            got = [g for a, g in zip(f.args(i), got) if f.k(a) != "CXXDefaultArgExpr"]
            exp = list(args)
            ok = len(got) == len(exp)
            if ok:
                for g, e in zip(got, exp):
                    if e is None:
                        continue
                    if g != e and g != "std::string(%s)" % e and not g.endswith("(%s)" % e):
                        ok = False
            tgt_ok = True
            if f.k(i) == "CXXMemberCallExpr":
                tgt_ok = _table_object(f, i)
            detail = "calls %s(%s); expected (%s)%s" % (cal["qname"], ", ".join(got), ", ".join("*" if e is None else e for e in exp),
                                                        "" if tgt_ok else "; object is not the table behind the handle")
            if ok and member in ("ndsplineeval", "ndsplineeval_gradient") and cal.get("targs"):
                if cal["targs"][0] != "float":
                    ok = False
                    detail += "; precision %s differs from the C++ default float" % cal["targs"][0]
            C.ob("CW-5", name, member, ok and tgt_ok, f.loc(i), detail)
            if member == "splinetable":
                # the table that is constructed is the one the handle holds afterwards: `table->data = new splinetable<>(...)`
                p = f.parent[i]
                while p >= 0 and f.k(p) in core.TRANSPARENT:
                    p = f.parent[p]
                isnew = p >= 0 and f.k(p) == "CXXNewExpr"
                q = f.parent[p] if isnew else -1
                while q >= 0 and f.k(q) in core.TRANSPARENT:
                    q = f.parent[q]
                stored = q >= 0 and f.k(q) == "BinaryOperator" and f.nodes[q].get("op") == "=" and \
                    any(_is_table_data(f, x) for x in f.walk(f.nodes[q]["ch"][0])) and f._value_unused(q)
                C.ob("CW-5", name, member + ":stored-in-handle", bool(isnew and stored), f.loc(i),
                     "the constructed table is allocated with new and stored in table->data (new=%s, stored=%s)" % (isnew, stored))
            if fwd:
                # the call's value is what is returned
                p = f.parent[i]
                while p >= 0 and f.k(p) in core.TRANSPARENT:
                    p = f.parent[p]
                C.ob("CW-5", name, member + ":return", p >= 0 and f.k(p) == "ReturnStmt", f.loc(i),
                     "the member's result must be returned unchanged")
        # typed key access
        if member in ("read_key", "write_key"):
            for i, cal in calls:
                case = next((a for a in f.ancestors(i) if f.k(a) == "CaseStmt"), None)
                # find governing case label by walking preceding siblings
                lab = None
                if case is None:
                    # call is a sibling after a CaseStmt inside the switch body
                    par = f.parent[i]
                    while par >= 0 and f.k(par) != "CompoundStmt":
                        par = f.parent[par]
                else:
                    lab = f.render(f.nodes[case]["lhs"])
                if lab is None:
                    # the same selection written as an if / else-if chain: the nearest enclosing `if (<selector> == LABEL)` whose
                    # then-branch holds the call
                    prev = i
                    for a in f.ancestors(i):
                        if f.k(a) == "IfStmt" and f.nodes[a].get("then") == prev:
                            orr = f.oriented(f.nodes[a]["cond"], lambda x: f.k(x) == "DeclRefExpr" and f.nodes[x]["decl"].get("kind") == "EnumConstant")
                            if orr and orr[1] == "==":
                                lab = f.render(orr[0])
                                break
                        prev = a
                ty = cal.get("targs", [None])[0]
                C.ob("CW-5", name, "%s<%s>@%s" % (member, ty, lab), lab in KEY_TYPES and KEY_TYPES[lab] == ty, f.loc(i),
                     "case %s must access the value as %s, uses %s" % (lab, KEY_TYPES.get(lab), ty))
        # views
        for local, parts in VIEWS.get(name, {}).items():
            texts = []
            for i in f.walk():
                k = f.k(i)
                if k == "DeclStmt":
                    for dd in f.nodes[i]["decls"]:
                        if dd.get("name") == local and dd.get("init", -1) >= 0:
                            texts.append(f.render(dd["init"]))
                elif k in ("CXXMemberCallExpr", "CallExpr"):
                    r = f.render(i)
                    if r.startswith(local + "[") or r.startswith(local + ".") or (local in r and ("reset" in r or "copy" in r)):
                        texts.append(r)
            ok = any(all(p in t for p in parts) for t in texts)
            C.ob("CW-5", name, "view:" + local, ok, f.where(),
                 "view %s must be built from (%s); found: %s" % (local, ", ".join(parts), " | ".join(texts)[:200]))


def cw6(P, C):
    """CW-6: a wrapper that selects an operation by an enumerated selector argument rejects the values it does not handle."""
    C.rule("CW-6", "a wrapper that dispatches on an enumerated selector (the value type of splinetable_read_key / splinetable_write_key) "
           "returns non-zero for a selector it has no case for: the switch has a default that returns a non-zero constant (or the if-chain "
           "ends in an else that does) — the sibling wrappers must agree on this (an unhandled type is a failed operation, not a success)", floor=2)
    n = 0
    for f in wrappers(P):
        enum_params = {p["id"] for p in f.params if "splinetable_dtype" in p.get("type", "") or p.get("ctype", "").startswith("enum ")}
        if not enum_params:
            continue

        def on_selector(c):
            c = f.strip(c)
            return f.k(c) == "DeclRefExpr" and f.nodes[c]["decl"].get("kind") == "ParmVar" and f.nodes[c]["decl"].get("id") in enum_params

        def rejects(st):
            rs = [x for x in f.walk(st) if f.k(x) == "ReturnStmt"]
            return bool(rs) and all(f.ch(r) and f.nodes[f.strip(f.ch(r)[0])].get("cv") not in (None, 0) for r in rs)
        sites = []
        for i in f.walk():
            if f.k(i) == "SwitchStmt" and on_selector(f.nodes[i]["cond"]):
                dfl = [x for x in f.walk(f.nodes[i]["body"]) if f.k(x) == "DefaultStmt" and
                       next((a for a in f.ancestors(x) if f.k(a) == "SwitchStmt"), None) == i]
                sites.append((i, len(dfl) == 1 and rejects(dfl[0]), "switch without a rejecting default" if not dfl else "default does not return a non-zero constant"))
            elif f.k(i) == "IfStmt" and f.k(f.parent[i]) != "IfStmt":
                # head of an if / else-if chain on the selector
                orr = f.oriented(f.nodes[i]["cond"], on_selector)
                if not orr or orr[1] != "==":
                    continue
                last = i
                while f.nodes[last].get("else", -1) >= 0 and f.k(f.nodes[last]["else"]) == "IfStmt":
                    last = f.nodes[last]["else"]
                e = f.nodes[last].get("else", -1)
                sites.append((i, e >= 0 and rejects(e), "if-chain on the selector without a rejecting final else"))
        for i, ok, why in sites:
            n += 1
            C.ob("CW-6", f.name, "unhandled-selector", ok, f.loc(i),
                 "a selector value without a case is rejected with a non-zero return" if ok else
                 "%s: an unknown value type does nothing and the wrapper returns 0 (success)" % why)
    if n == 0:
        raise core.AnalysisBroken("CW-6: no wrapper dispatches on an enumerated selector")


def cw7(P, C):
    """CW-7: wrappers that can report failure reject a handle that holds no table before they dereference it."""
    C.rule("CW-7", "a handle is valid after splinetable_init, after a failed read and after splinetable_free — in the last two states its data "
           "pointer is null.  Every wrapper that reports failures (it has a failure value and handles exceptions) "
           "tests `!table->data` in an argument rejection that precedes the first use of the pointer; most wrappers do (the key, fit, "
           "convolve and grid wrappers), so the others contradict them (a crash is not a non-zero return)", floor=8)
    n = 0
    for f in wrappers(P):
        rt = f.d.get("rtype", "")
        if rt not in ("int",) and "*" not in rt:
            continue                      # accessors without a failure channel: precondition 'holds a table'
        if f.name in ("splinetable_init", "splinetable_free", "readsplinefitstable", "readsplinefitstable_mem", "ndsparse_allocate"):
            continue                      # these create or release the object behind the handle
        if not any(f.k(x) == "CXXTryStmt" for x in f.walk()):
            continue                      # plain accessors (no failure handling at all): their precondition is a handle that holds a table
        hp = [p for p in f.params if "splinetable" in p.get("type", "") and "*" in p.get("type", "") and "buffer" not in p.get("type", "")]
        if not hp:
            continue
        hid = hp[0]["id"]

        def is_data(x):
            x = f.strip(x)
            if f.k(x) != "MemberExpr" or f.nodes[x].get("member") != "data":
                return False
            b = f.strip(f.ch(x)[0]) if f.ch(x) else -1
            return b >= 0 and f.k(b) == "DeclRefExpr" and f.nodes[b]["decl"].get("id") == hid
        uses = [x for x in f.walk() if is_data(x)]
        derefs = []
        tests = []
        for x in uses:
            p_ = f.parent[x]
            while p_ >= 0 and f.k(p_) in ("ImplicitCastExpr", "ParenExpr"):
                p_ = f.parent[p_]
            if p_ >= 0 and f.k(p_) == "UnaryOperator" and f.nodes[p_].get("op") == "!":
                tests.append(p_)
            elif p_ >= 0 and f.k(p_) == "BinaryOperator" and f.nodes[p_].get("op") in ("==", "!=", "="):
                tests.append(p_)
            else:
                derefs.append(x)
        if not derefs:
            continue
        # a rejection: if (... || !table->data || ...) return <failure>;
        rejected = False
        pos = f.node_positions()
        for t in tests:
            g = next((a for a in f.ancestors(t) if f.k(a) == "IfStmt"), None)
            if g is None or f.nodes[g].get("then", -1) < 0:
                continue
            conn, leaves = core.cond_leaves(f, f.nodes[g]["cond"])
            if conn not in ("||", "leaf") or f.strip(t) not in [f.strip(l) for l in leaves]:
                continue
            rets = [r for r in f.walk(f.nodes[g]["then"]) if f.k(r) == "ReturnStmt"]
            if rets and all(fail_value_ok(f, r) for r in rets) and f.nodes[g]["loc"] < f.nodes[derefs[0]]["loc"]:
                rejected = True
        n += 1
        C.ob("CW-7", f.name, "empty-handle-rejected", rejected, f.loc(derefs[0]),
             "a handle without a table is rejected with the failure value before table->data is used" if rejected else
             "table->data is dereferenced without having been tested: on a handle that holds no table (after a failed read, after "
             "splinetable_free) the wrapper crashes instead of returning its failure value")
    if n == 0:
        raise core.AnalysisBroken("CW-7: no wrapper with a failure value dereferences the handle")


def cw8(P, C):
    """CW-8: a result handed back through a pointer-to-pointer parameter is defined on every exit."""
    C.rule("CW-8", "a wrapper that hands its result back through a pointer-to-pointer parameter (`struct ndsparse** result`) stores to `*result` on "
           "every path to every return, the rejections included (must-dataflow over the CFG): the header promises NULL on failure, and a caller "
           "that re-uses its variable across calls releases a stale pointer a second time if a failing call leaves it untouched", floor=1)
    from . import ts
    n = 0
    for f in wrappers(P):
        outs = [p for p in f.params if p.get("type", "").replace(" ", "").endswith("**") and "const" not in p.get("type", "").split("*")[0]]
        if not outs or not f.cfg:
            continue
        for p in outs:
            pid = p["id"]

            def is_store(i, _f=f, _pid=pid):
                ap = ts.assign_parts(_f, i)
                if not ap:
                    return False
                l = _f.strip(ap[0])
                if _f.k(l) == "UnaryOperator" and _f.nodes[l].get("op") == "*":
                    b = _f.strip(_f.nodes[l]["ch"][0])
                    return _f.k(b) == "DeclRefExpr" and _f.nodes[b]["decl"].get("id") == _pid
                if _f.k(l) == "ArraySubscriptExpr":
                    b = _f.strip(_f.nodes[l]["ch"][0])
                    return _f.k(b) == "DeclRefExpr" and _f.nodes[b]["decl"].get("id") == _pid and _f.nodes[_f.strip(_f.nodes[l]["ch"][1])].get("cv") == 0
                return False

            def transfer(st, e, _b=None, _j=None):
                if e.get("kind") == "stmt" and e.get("n", -1) >= 0 and is_store(e["n"]):
                    return True
                return st
            IN, OUT = core.dataflow(f, False, transfer, lambda a, b: a and b)
            # handler blocks are not reachable from the entry (no EH edges): they start where the try block started
            pos = f.node_positions()
            bad = []
            for r in f.walk():
                if f.k(r) != "ReturnStmt" or r not in pos:
                    continue
                b, j = pos[r]
                if b in IN:
                    st = core.state_before(f, IN, transfer, b, j)
                else:
                    # a return inside a catch handler: what held when the try block was entered holds here
                    t = next((t_ for (t_, in_try, _h) in f.enclosing_try(r) if not in_try), None)
                    st = None
                    if t is not None:
                        tb = next((pos[x][0] for x in f.walk(f.nodes[t]["tryBlock"]) if x in pos and pos[x][0] in IN), None) if "tryBlock" in f.nodes[t] else None
                        if tb is not None:
                            st = IN[tb]
                    if st is None:
                        st = False
                if not st:
                    bad.append(r)
            n += 1
            C.ob("CW-8", f.name, "out-parameter-defined:%s" % p["name"], not bad, f.loc(bad[0]) if bad else f.where(),
                 "*%s is stored on every path to every return" % p["name"] if not bad else
                 "%s leaves at %s without having stored to *%s: a failing call hands the caller's old pointer back" % (f.name, f.loc(bad[0]), p["name"]))
    if n == 0:
        raise core.AnalysisBroken("CW-8: no wrapper with a pointer-to-pointer result parameter")


def cw9(P, C):
    """CW-9: an evaluation wrapper evaluates."""
    C.rule("CW-9", "the wrappers that hand a value of the table or of an evaluation straight back (read-only handle, no status channel of their "
           "own: lookup, the evaluation entry points, the accessors) reach the call of the member they forward to on every path on which "
           "their pointer arguments are valid — branch conditions that only test those pointers are evaluated, every other branch is followed "
           "both ways (CFG search from the entry to the exit that avoids the forwarding call; catch handlers are not reachable without it). "
           "A wrapper that decides by itself when not to ask the table returns something else than the C++ operation for some tables", floor=15)
    n = 0
    W = {f.name: f for f in wrappers(P)}
    for name, (member, _args, _fwd) in sorted(FORWARD.items()):
        f = W.get(name)
        if f is None or not f.cfg:
            continue
        hp = [p for p in f.params if "splinetable" in p.get("type", "") and "*" in p.get("type", "")]
        if not hp or "const" not in hp[0].get("type", "") or any(f.k(x) == "SwitchStmt" for x in f.walk()):
            continue
        if f.d.get("rtype", "") == "int" and name not in FORWARDS_INT:
            continue
        calls = [i for i, cal in f.calls() if cal and cal["name"] == member and "splinetable" in cal.get("cls", "")]
        pos = f.node_positions()
        cblocks = {pos[c][0] for c in calls if c in pos}
        if not cblocks:
            continue                   # CW-5 reports a wrapper that does not call its member
        env = {}
        for p in f.params:
            if "*" in p.get("type", ""):
                env[p["name"]] = core.SOMEPTR
                env[p["name"] + "->data"] = core.SOMEPTR
        seen, st, leak = set(), [f.cfg["entry"]], None
        while st:
            b = st.pop()
            if b in seen or b in cblocks:
                continue
            seen.add(b)
            if b == f.cfg["exit"]:
                leak = b
                break
            blk = f.blocks[b]
            succ = [s for s in blk["succ"] if s >= 0]
            tc = blk.get("termCond", -1)
            if len(blk["succ"]) == 2 and tc is not None and tc >= 0:
                try:
                    v = core.truth(core.expr_value(f, tc, env))
                    succ = [blk["succ"][0 if v else 1]] if blk["succ"][0 if v else 1] >= 0 else []
                except core.Unknown:
                    pass
            st.extend(succ)
        n += 1
        C.ob("CW-9", name, "reaches:" + member, leak is None, f.where(),
             "with valid pointer arguments every path through %s calls splinetable::%s" % (name, member) if leak is None else
             "%s can return without calling splinetable::%s although its pointer arguments are valid: for the tables on that path the C interface "
             "does not return what the C++ operation returns" % (name, member))
    if n == 0:
        raise core.AnalysisBroken("CW-9: no forwarding wrapper found")


def run(P, C):
    cw8(P, C)
    cw9(P, C)
    cw7(P, C)
    cw6(P, C)
    cw0(P, C)
    cw1(P, C)
    cw2(P, C)
    cw3(P, C)
    cw3b(P, C)
    cw4(P, C)
    cw5(P, C)
