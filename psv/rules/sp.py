"""SP — stale cached array pointers of CHOLMOD objects (serves C10, C11, C13: memory safety of the solver's factor bookkeeping).

The fitter caches the arrays of CHOLMOD objects in locals (`Li = (long*)(L->i)`).  Several CHOLMOD routines may move those arrays
(reallocation) or destroy the object.  SP-1: after a call that may move or free an object's arrays, a local that cached one of them is
not read again until it has been reloaded from the object.  Forward may-dataflow over each function's CFG: the state is the set of cached
locals with the object and field they came from and a stale flag; joins take the union (stale on any path = stale)."""
from .. import core

CHOLMOD_TYPES = ("cholmod_factor", "cholmod_sparse", "cholmod_dense", "cholmod_triplet")
MOVING = ("i", "x", "z")       # arrays a reallocation may move
NUMERIC = ("p", "i", "x", "z", "nz", "next", "prev", "pi", "px", "s", "super")   # rebuilt when a factor changes form (Perm, ColCount stay)
ALL = None                     # every array (object freed)
# callee -> (index of the object argument, fields invalidated, object passed by address?)
INVALIDATORS = {
    "cholmod_l_reallocate_column": (2, MOVING, False),
    "cholmod_l_reallocate_factor": (1, MOVING, False),
    "cholmod_l_reallocate_sparse": (1, MOVING, False),
    "cholmod_l_change_factor": (5, NUMERIC, False),
    "cholmod_l_pack_factor": (0, NUMERIC, False),
    "cholmod_l_factorize": (1, NUMERIC, False),
    "cholmod_l_factorize_p": (4, NUMERIC, False),
    "cholmod_l_rowadd": (2, MOVING, False),
    "cholmod_l_rowdel": (2, MOVING, False),
    "cholmod_l_updown": (2, MOVING, False),
    "cholmod_l_drop": (1, MOVING, False),
    "cholmod_l_sort": (0, MOVING, False),
    "cholmod_l_free_factor": (0, ALL, True),
    "cholmod_l_free_sparse": (0, ALL, True),
    "cholmod_l_free_dense": (0, ALL, True),
    "cholmod_l_free_triplet": (0, ALL, True),
}


def _obj_var(f, i, by_address=False):
    i = f.strip(i)
    if by_address:
        if f.k(i) == "UnaryOperator" and f.nodes[i]["op"] == "&":
            i = f.strip(f.nodes[i]["ch"][0])
        else:
            return None
    if f.k(i) == "DeclRefExpr" and any(t in f.nodes[i].get("t", "") for t in CHOLMOD_TYPES):
        return f.nodes[i]["decl"]["id"]
    return None


def _cached_source(f, rhs):
    """rhs is (casts of) X->field with X a CHOLMOD object variable: (X id, field)"""
    i = f.strip(rhs)
    n = f.nodes[i]
    if n["k"] == "MemberExpr" and n.get("ch"):
        base = f.strip(n["ch"][0])
        if f.k(base) == "DeclRefExpr" and any(t in f.nodes[base].get("t", "") for t in CHOLMOD_TYPES) and "*" in n.get("t", ""):
            return f.nodes[base]["decl"]["id"], n["member"]
    return None


def analyse(f):
    """-> (cache sites, invalidating calls seen, [(node, var id, object id, field, invalidating call loc)] stale reads)"""
    from . import ts
    caches, invs = [], []

    def elem_effect(st, i, record=None):
        n = f.nodes[i]
        k = n["k"]
        # read of a stale cached local
        if k == "DeclRefExpr" and record is not None:
            vid = n["decl"]["id"]
            par = f.parent[i]
            is_store_target = False
            if par >= 0:
                ap = ts.assign_parts(f, par)
                is_store_target = bool(ap) and f.strip(ap[0]) == i and f.nodes[par].get("op") == "="
            if not is_store_target:
                for (v, x, fld, stale) in st:
                    if v == vid and stale:
                        record.append((i, vid, x, fld, stale))
        # (re)load of a cache, or reassignment of the object variable
        tgt = src = None
        if k == "DeclStmt":
            for d in n["decls"]:
                if d.get("init", -1) >= 0:
                    st = assign(st, d["id"], d["init"], i)
            return st
        ap = ts.assign_parts(f, i)
        if ap and ap[1] is not None and n.get("op") == "=":
            t = f.strip(ap[0])
            if f.k(t) == "DeclRefExpr":
                st = assign(st, f.nodes[t]["decl"]["id"], ap[1], i)
            return st
        cal = n.get("callee")
        if cal and cal["name"] in INVALIDATORS:
            ai, flds, by_addr = INVALIDATORS[cal["name"]]
            args = f.args(i)
            x = _obj_var(f, args[ai], by_addr) if ai < len(args) else None
            if x is not None:
                if i not in invs:
                    invs.append(i)
                st = frozenset((v, xx, fld, (f.loc(i) + " " + cal["name"]) if (xx == x and (flds is ALL or fld in flds) and not stale) else stale)
                               for (v, xx, fld, stale) in st)
        return st

    def assign(st, vid, rhs, at):
        src = _cached_source(f, rhs)
        st = frozenset(e for e in st if e[0] != vid)                       # the local now holds something else
        if src:
            if at not in caches:
                caches.append(at)
            return st | {(vid, src[0], src[1], False)}
        # the object variable itself reassigned: everything cached from the old object is stale
        if any(e[1] == vid for e in st):
            st = frozenset((v, x, fld, ("%s object variable reassigned" % f.loc(at)) if (x == vid and not stale) else stale) for (v, x, fld, stale) in st)
        return st

    def transfer(st, e, b, j):
        if e.get("kind") != "stmt":
            return st
        return elem_effect(st, e["n"])

    IN, OUT = core.dataflow(f, frozenset(), transfer, lambda a, b: a | b)
    bad = []
    for b, blk in f.blocks.items():
        if b not in IN:
            continue
        st = IN[b]
        for e in blk["elems"]:
            if e.get("kind") != "stmt":
                continue
            st = elem_effect(st, e["n"], record=bad)
    seen, out = set(), []
    for r in bad:
        if r[0] not in seen:
            seen.add(r[0])
            out.append(r)
    return caches, invs, out


def sp1(P, C, units_prefix=("fitter/",), floor=10, only=None):
    C.rule("SP-1", "a local that caches an array of a CHOLMOD object (Li = L->i, Ax = A->x, ...) is not read after a call that may move or free "
           "that object's arrays (reallocate_column/factor/sparse, change_factor, factorize, rowadd/rowdel, drop, sort, free_*) or after the "
           "object variable is reassigned, until it is reloaded from the object", floor=floor)
    n = 0
    for f in sorted(P.functions.values(), key=lambda g: (g.file, g.line)):
        if not f.unit.startswith(units_prefix) and f.unit not in ("driver",):
            continue
        if f.unit == "driver" and not f.file.endswith(("grideval.h", "fit.h")):
            continue
        if only is not None and f.name not in only:
            continue
        caches, invs, bad = analyse(f)
        if not caches:
            continue
        n += 1
        det = "%d cached array pointer(s), %d call(s) that may move or free arrays" % (len(caches), len(invs))
        if bad:
            det += "; STALE READ of %s (cached from %s->%s) at %s after %s" % (
                f.var_name(bad[0][1]), f.var_name(bad[0][2]), bad[0][3], ", ".join(f.loc(b[0]) for b in bad[:4]), bad[0][4])
        else:
            det += "; every read happens before the arrays can move or after a reload"
        C.ob("SP-1", f.name, "cached-arrays", not bad, f.loc(bad[0][0]) if bad else f.where(), det)
    return n


FREES = ("cholmod_l_free_factor", "cholmod_l_free_sparse", "cholmod_l_free_dense", "cholmod_l_free_triplet")


def freed_derefs(f):
    """[(node, object var id, free site)] : X->field evaluated where X was released (cholmod_l_free_* nulls it) on some path and not
    reassigned since.  May-analysis; a branch on X itself refines (if (X) ... / if (X != NULL))."""
    from . import ts

    def objs_freed(i):
        n = f.nodes[i]
        cal = n.get("callee")
        if cal and cal["name"] in FREES:
            a = f.args(i)
            return _obj_var(f, a[0], True) if a else None
        return None

    def transfer(st, e, b, j):
        if e.get("kind") != "stmt":
            return st
        i = e["n"]
        x = objs_freed(i)
        if x is not None:
            return frozenset(t for t in st if t[0] != x) | {(x, f.loc(i))}
        n = f.nodes[i]
        if n["k"] == "DeclStmt":
            ids = {d["id"] for d in n["decls"] if d.get("init", -1) >= 0}
            return frozenset(t for t in st if t[0] not in ids)
        ap = ts.assign_parts(f, i)
        if ap and n.get("op") == "=":
            t = f.strip(ap[0])
            if f.k(t) == "DeclRefExpr":
                return frozenset(u for u in st if u[0] != f.nodes[t]["decl"]["id"])
        return st

    def edge(st, b, k, s, cond):
        if cond is None or cond < 0 or len(f.blocks[b]["succ"]) != 2:
            return st
        c, neg = core.cond_polarity(f, cond)
        n = f.nodes[c]
        v = None
        if n["k"] == "BinaryOperator" and n["op"] in ("!=", "==") and ts.is_null(f, n["ch"][1]):
            v = f.strip(n["ch"][0])
            if n["op"] == "==":
                neg = not neg
        elif n["k"] == "DeclRefExpr":
            v = c
        if v is not None and f.k(v) == "DeclRefExpr" and (k == 0) == (not neg):
            vid = f.nodes[v]["decl"]["id"]
            return frozenset(t for t in st if t[0] != vid)       # non-null on this edge: not the released (nulled) pointer
        return st

    IN, OUT = core.dataflow(f, frozenset(), transfer, lambda a, b: a | b, edge)
    out = []
    nfree = 0
    for b, blk in f.blocks.items():
        if b not in IN:
            continue
        st = IN[b]
        for j, e in enumerate(blk["elems"]):
            if e.get("kind") == "stmt":
                i = e["n"]
                n = f.nodes[i]
                if n["k"] == "MemberExpr" and n.get("ch"):
                    base = f.strip(n["ch"][0])
                    if f.k(base) == "DeclRefExpr":
                        for (x, where) in st:
                            if x == f.nodes[base]["decl"]["id"]:
                                out.append((i, x, where))
                if objs_freed(i) is not None:
                    nfree += 1
            st = transfer(st, e, b, j)
    return nfree, out


def sp2(P, C, units_prefix=("fitter/",), floor=20):
    C.rule("SP-2", "no field of a CHOLMOD object is read through a variable after cholmod_l_free_*(&variable) released (and nulled) it on some "
           "path, unless the variable was reassigned or tested non-null in between", floor=floor)
    for f in sorted(P.functions.values(), key=lambda g: (g.file, g.line)):
        if not f.unit.startswith(units_prefix) and not (f.unit == "driver" and f.file.endswith(("grideval.h", "fit.h"))):
            continue
        nfree, bad = freed_derefs(f)
        if not nfree:
            continue
        C.ob("SP-2", f.name, "released-objects", not bad, f.loc(bad[0][0]) if bad else f.where(),
             "%d release call(s); %s" % (nfree, "no field is read through a released variable" if not bad else
                                         "%s->%s read at %s after the release at %s" % (f.var_name(bad[0][1]), f.nodes[bad[0][0]]["member"],
                                                                                      f.loc(bad[0][0]), bad[0][2])))


def so1(P, C):
    """SO-1: get_column does not depend on the order of the requested rows."""
    from . import ts
    C.rule("SO-1", "get_column extracts the requested rows of a column whatever their order: inside the loop over the row set no search position "
           "is carried from one requested row to the next (the only loop-carried variable is the output count) — its caller appends the newly "
           "freed row at the END of F and sorts F only after the row-add loop, so a single merge pass over the (sorted) column would skip it", floor=1)
    f = P.one("get_column", file_endswith="cholesky_solve.c")
    nF = f.params[4]["id"]
    outer = None
    for L in f.walk():
        if f.k(L) == "ForStmt" and f.nodes[L].get("cond", -1) >= 0:
            if any(f.k(y) == "DeclRefExpr" and f.nodes[y]["decl"]["id"] == nF for y in f.walk(f.nodes[L]["cond"])):
                outer = L
                break
    if outer is None:
        raise core.AnalysisBroken("SO-1: the loop over the requested rows (bounded by nF) was not found in get_column")
    body = f.nodes[outer]["body"]
    inbody = set(f.walk(body))
    # the loop's own variable(s): assigned in its init / changed in its increment
    own = set()
    for part in ("inc",):
        for y in f.walk(f.nodes[outer].get(part, -1)) if f.nodes[outer].get(part, -1) >= 0 else []:
            if f.k(y) == "DeclRefExpr":
                own.add(f.nodes[y]["decl"]["id"])
    written, plain = {}, set()
    for y in inbody:
        ap = ts.assign_parts(f, y)
        if not ap:
            continue
        t = f.strip(ap[0])
        if f.k(t) != "DeclRefExpr":
            continue
        vid = f.nodes[t]["decl"]["id"]
        written.setdefault(vid, []).append(y)
        if f.nodes[y].get("op") == "=" and ap[1] is not None and not any(f.k(z) == "DeclRefExpr" and f.nodes[z]["decl"]["id"] == vid for z in f.walk(ap[1])):
            plain.add(vid)
    carried = [v for v in written if v not in plain and v not in own]
    # carried variables may only count output: every use is a subscript of a store's left-hand side (or its own increment)
    bad = []
    for v in carried:
        for y in inbody:
            if f.k(y) == "DeclRefExpr" and f.nodes[y]["decl"]["id"] == v:
                par = f.parent[y]
                while par >= 0 and f.k(par) in ("ImplicitCastExpr", "ParenExpr"):
                    par = f.parent[par]
                if f.k(par) == "UnaryOperator" and f.nodes[par]["op"] in ("++", "--"):
                    continue
                sub = par if f.k(par) == "ArraySubscriptExpr" else -1
                top = f.parent[sub] if sub >= 0 else -1
                while top >= 0 and f.k(top) in ("ImplicitCastExpr", "ParenExpr"):
                    top = f.parent[top]
                is_lhs = sub >= 0 and top >= 0 and ts.assign_parts(f, top) and f.strip(ts.assign_parts(f, top)[0]) == sub
                if not is_lhs:
                    bad.append((y, v))
    C.ob("SO-1", "get_column", "order-insensitive", not bad, f.loc(bad[0][0]) if bad else f.loc(outer),
         ("loop-carried variables: %s (output count only)" % [f.var_name(v) for v in carried]) if not bad else
         "`%s` keeps its value from one requested row to the next and steers the search at %s: rows that are not in ascending order are skipped"
         % (f.var_name(bad[0][1]), f.loc(bad[0][0])))


def mm1(P, C, floor=30):
    """MM-1: the element size in a byte count is the element size of the array it is applied to."""
    C.rule("MM-1", "in memcpy / memmove / memset / realloc(p, n*sizeof(T)) and in `(U*)malloc(n*sizeof(T))`, `(U*)calloc(n, sizeof(T))` the type in "
           "the sizeof has the size of the elements of the destination array (same type, or a type of the same width such as int / unsigned "
           "int): a count of elements multiplied by the size of another type moves or allocates the wrong number of bytes", floor=floor)
    SIZE = {"char": 1, "signed char": 1, "unsigned char": 1, "short": 2, "unsigned short": 2, "int": 4, "unsigned int": 4, "unsigned": 4, "float": 4,
            "long": 8, "unsigned long": 8, "long long": 8, "unsigned long long": 8, "double": 8, "size_t": 8, "uint64_t": 8, "int64_t": 8,
            "uint32_t": 4, "int32_t": 4, "bool": 1}

    def norm(t):
        t = (t or "").replace("const ", "").replace("volatile ", "").replace("struct ", "").strip()
        return t

    def size_of(t):
        t = norm(t)
        if t.endswith("*"):
            return 8
        return SIZE.get(t)
    n = 0
    for f in sorted(P.functions.values(), key=lambda g: (g.file, g.line, str(g.targs))):
        if not f.file.startswith(core.REPO) or f.unit.startswith("selftest"):
            continue
        for i, cal in f.calls():
            if not cal or cal["name"] not in ("memcpy", "memmove", "memset", "malloc", "realloc", "calloc"):
                continue
            so = [x for x in f.walk(i) if f.k(x) == "UnaryExprOrTypeTraitExpr" and f.nodes[x].get("argType")]
            if len(so) != 1:
                continue
            T = norm(f.nodes[so[0]]["argType"])
            tsize = f.nodes[so[0]].get("cv")
            if cal["name"] in ("malloc", "calloc"):
                p_ = f.parent[i]
                dst_t = f.nodes[p_].get("t") if p_ >= 0 and f.k(p_).endswith("CastExpr") else None
            else:
                a0 = f.strip(f.args(i)[0], casts=True)
                dst_t = f.nodes[a0].get("t")
            dst_t = norm(dst_t)
            if not dst_t or not dst_t.endswith("*") or dst_t.startswith("void"):
                continue
            elem = dst_t[:-1].strip()
            es = size_of(elem)
            ok = elem == T or (es is not None and tsize is not None and es == tsize)
            if es is None and elem != T:
                continue                    # element type of unknown size under another name: no claim
            n += 1
            C.ob("MM-1", f.name, "%s:%s@%d" % (cal["name"], T.replace(" ", ""), f.nodes[i]["loc"][0]), ok, f.loc(i),
                 "elements of %s, byte count in units of sizeof(%s)" % (elem, T) if ok else
                 "the array has elements of type %s (%s bytes) but the byte count is in units of sizeof(%s) = %s: %s" %
                 (elem, es, T, tsize, "only part of the elements is moved" if (tsize or 0) < (es or 0) else "more bytes than the elements occupy are touched"))
    return n


def sp3(P, C):
    """SP-3: factors whose arrays are copied into each other have the same form."""
    C.rule("SP-3", "recompute_factor copies the columns of the block factor L_F into the main factor L entry by entry, and every row update "
           "(cholmod_l_rowadd / rowdel) works on a simplicial LDL' factor: each cholmod_l_change_factor in the factor-update code asks for "
           "the same form by constants — to_ll = false, to_super = false — so that the values it copies mean the same thing in both "
           "(a supernodal LL' factorisation of a large block would otherwise be read as LDL')", floor=3)
    n = 0
    for f in sorted(P.functions.values(), key=lambda g: (g.file, g.line)):
        if not f.file.endswith("cholesky_solve.c"):
            continue
        for i, cal in f.calls():
            if not cal or cal["name"] != "cholmod_l_change_factor":
                continue
            a = f.args(i)
            vals = [f.nodes[f.strip(x)].get("cv", f.nodes[x].get("cv")) for x in a[1:3]]
            ok = vals == [0, 0]
            n += 1
            C.ob("SP-3", f.name, "change_factor@%d" % f.nodes[i]["loc"][0], ok, f.loc(i),
                 "to_ll = false, to_super = false" if ok else
                 "the factor is converted with to_ll = %s, to_super = %s: not the constant simplicial LDL' form that the entry-wise copy into the main "
                 "factor and the row updates assume" % tuple(f.render(x) for x in a[1:3]))
    if n == 0:
        raise core.AnalysisBroken("SP-3: no cholmod_l_change_factor call in cholesky_solve.c")
    return n


def sp4(P, C):
    """SP-4: the row pattern handed to cholmod_l_rowdel."""
    C.rule("SP-4", "every cholmod_l_rowdel in the fitter passes NULL as the row pattern (CHOLMOD then takes row k of L itself), or a pattern "
           "obtained FROM THE FACTOR it updates (cholmod_l_row_lsubtree / row_subtree with that factor): the pattern must be that of row k "
           "of L, fill-in included — the corresponding column of A lacks the fill-in, the entries L(k,j) it misses are neither zeroed nor "
           "down-dated and every later solve through the factor is wrong (KKT violated on sparse systems with fill-in)", floor=1)
    n = 0
    for f in sorted(P.functions.values(), key=lambda g: (g.file, g.line)):
        if not f.unit.startswith("fitter/"):
            continue
        for i, cal in f.calls():
            if not cal or cal["name"] not in ("cholmod_l_rowdel", "cholmod_l_rowdel_solve", "cholmod_l_rowdel_mark"):
                continue
            a = f.args(i)
            r = f.strip(a[1])
            Lid = None
            for x in f.walk(a[2]):
                if f.k(x) == "DeclRefExpr":
                    Lid = f.nodes[x]["decl"].get("id")
            n += 1
            if f.k(r) in ("GNUNullExpr", "CXXNullPtrLiteralExpr") or f.nodes[r].get("cv") == 0 or f.render(r).replace(" ", "") in ("NULL", "((void*)0)", "(void*)0"):
                C.ob("SP-4", f.name, "rowdel-pattern#%d" % n, True, f.loc(i), "row pattern NULL: CHOLMOD reads row k of the factor itself")
                continue
            ok, det = False, "the row pattern %s cannot be traced to the factor" % f.render(r)
            if f.k(r) == "DeclRefExpr":
                vid = f.nodes[r]["decl"].get("id")
                srcs = []
                for x in f.walk():
                    ap = None
                    from . import ts as _ts
                    ap = _ts.assign_parts(f, x)
                    if ap and ap[1] is not None and f.k(f.strip(ap[0])) == "DeclRefExpr" and f.nodes[f.strip(ap[0])]["decl"].get("id") == vid:
                        srcs.append(f.strip(ap[1]))
                    # out-parameter form: cholmod_l_row_lsubtree(A, Fi, fnz, k, L, R, c)
                    cc = f.nodes[x].get("callee")
                    if cc and cc["name"] in ("cholmod_l_row_lsubtree", "cholmod_l_row_subtree") and any(
                            f.k(y) == "DeclRefExpr" and f.nodes[y]["decl"].get("id") == vid for aa in f.args(x) for y in f.walk(aa)):
                        srcs.append(x)
                from_factor = [s_ for s_ in srcs if f.nodes[s_].get("callee") and f.nodes[s_]["callee"]["name"] in ("cholmod_l_row_lsubtree", "cholmod_l_row_subtree") and
                               any(f.k(y) == "DeclRefExpr" and f.nodes[y]["decl"].get("id") == Lid for aa in f.args(s_) for y in f.walk(aa))]
                ok = bool(srcs) and len(from_factor) == len(srcs)
                det = "row pattern computed from the factor by %s" % ", ".join(sorted(set(f.nodes[s_]["callee"]["name"] for s_ in from_factor))) if ok else \
                    "the row pattern `%s` comes from %s, not from the factor %s: it lacks the fill-in of row k of L" % (
                        f.render(r), ", ".join(sorted(set((f.nodes[s_].get("callee") or {}).get("name", f.render(s_)[:40]) for s_ in srcs))) or "nowhere visible", f.render(a[2]))
            C.ob("SP-4", f.name, "rowdel-pattern#%d" % n, ok, f.loc(i), det)
    if n == 0:
        raise core.AnalysisBroken("SP-4: no cholmod_l_rowdel call found in the fitter")
    return n


def sp5(P, C):
    """SP-5: a released row is added to a factor of exactly the rows that are in it."""
    C.rule("SP-5", "modify_factor_p adds the released rows one at a time: in the iteration for H2[i] the free set F gains exactly that index "
           "(F[nF++] = H2[i]) before get_column(A, H2[i], iPerm, F, nF) builds the column for cholmod_l_rowadd, and nothing else puts H2 "
           "entries into F (no bulk copy in front of the loop). The column must have entries for the rows already in the factor plus the new "
           "one: with later H2 rows in F as well, L is no longer the factor of A[F,F] as soon as two coupled rows are released together", floor=3)
    from . import ts as _ts
    fs_ = [f for f in P.fns("modify_factor_p") if f.unit.startswith("fitter/")]
    if len(fs_) != 1:
        raise core.AnalysisBroken("SP-5: modify_factor_p not found")
    f = fs_[0]
    adds = [i for i, cal in f.calls() if cal and cal["name"] == "cholmod_l_rowadd"]
    if len(adds) != 1:
        raise core.AnalysisBroken("SP-5: expected one cholmod_l_rowadd in modify_factor_p, found %d" % len(adds))
    add = adds[0]
    L = next((a for a in f.ancestors(add) if f.k(a) == "ForStmt"), None)
    if L is None:
        raise core.AnalysisBroken("SP-5: the row-add call is not in a loop")
    # the column handed to rowadd
    colarg = f.strip(f.args(add)[1])
    gc = None
    if f.k(colarg) == "DeclRefExpr":
        cid = f.nodes[colarg]["decl"]["id"]
        for x in f.walk(L):
            ap = _ts.assign_parts(f, x)
            if ap and ap[1] is not None and f.k(f.strip(ap[0])) == "DeclRefExpr" and f.nodes[f.strip(ap[0])]["decl"]["id"] == cid:
                r = f.strip(ap[1])
                if f.nodes[r].get("callee") and f.nodes[r]["callee"]["name"] == "get_column":
                    gc = r
    C.ob("SP-5", "modify_factor_p", "column-from-get_column", gc is not None, f.loc(add),
         "the column for rowadd is get_column(%s) computed in the same iteration" % (", ".join(f.render(a) for a in f.args(gc)) if gc is not None else "?"))
    if gc is None:
        return
    ga = f.args(gc)
    row_txt = f.render(ga[1]).replace(" ", "")                         # H2[i]
    set_id = f.nodes[f.strip(ga[3])]["decl"]["id"] if f.k(f.strip(ga[3])) == "DeclRefExpr" else None     # F
    cnt_id = f.nodes[f.strip(ga[4])]["decl"]["id"] if f.k(f.strip(ga[4])) == "DeclRefExpr" else None     # nF
    # the growth of the free set inside the loop: F[nF++] = H2[i], before get_column
    grow = []
    for x in f.walk(f.nodes[L]["body"]):
        ap = _ts.assign_parts(f, x)
        if ap and ap[1] is not None and f.nodes[x].get("op") == "=":
            l = f.strip(ap[0])
            if f.k(l) == "ArraySubscriptExpr" and f.k(f.strip(f.nodes[l]["ch"][0])) == "DeclRefExpr" and f.nodes[f.strip(f.nodes[l]["ch"][0])]["decl"]["id"] == set_id:
                idx = f.strip(f.nodes[l]["ch"][1])
                post = f.k(idx) == "UnaryOperator" and f.nodes[idx].get("op") == "++" and f.k(f.strip(f.nodes[idx]["ch"][0])) == "DeclRefExpr" and \
                    f.nodes[f.strip(f.nodes[idx]["ch"][0])]["decl"]["id"] == cnt_id
                grow.append((x, post, f.render(ap[1]).replace(" ", "")))
    ok_g = len(grow) == 1 and grow[0][1] and grow[0][2] == row_txt and f.seq(grow[0][0]) < f.seq(gc) and \
        not any(f.k(a) in ("IfStmt", "WhileStmt", "ForStmt") and a != L and L in set(f.ancestors(a)) for a in f.ancestors(grow[0][0]))
    C.ob("SP-5", "modify_factor_p", "free-set-grows-by-the-row-being-added", ok_g, f.loc(grow[0][0]) if grow else f.loc(L),
         "F[nF++] = %s, unconditionally, before the column is extracted" % row_txt if ok_g else
         "inside the row-add loop the free set is not extended by exactly the row being added before get_column is called (stores into it: %s)" % [g[2] for g in grow])
    # nothing else moves released rows into the free set, or changes its count, between the two loops
    bulk = []
    for i, cal in f.calls():
        if cal and cal["name"] in ("memcpy", "memmove", "copy", "copy_n"):
            dst = f.args(i)[0] if cal["name"].startswith("mem") else f.args(i)[2]
            if any(f.k(y) == "DeclRefExpr" and f.nodes[y]["decl"].get("id") == set_id for y in f.walk(dst)):
                bulk.append(i)
    cnt_writes = [x for x in f.walk() if f.k(x) in ("BinaryOperator", "CompoundAssignOperator") and f.nodes[x].get("op") in ("=", "+=", "-=") and
                  f.k(f.strip(f.nodes[x]["ch"][0])) == "DeclRefExpr" and f.nodes[f.strip(f.nodes[x]["ch"][0])]["decl"]["id"] == cnt_id and f.nodes[x].get("op") == "+="]
    C.ob("SP-5", "modify_factor_p", "no-bulk-growth-of-the-free-set", not bulk and not cnt_writes, f.loc((bulk + cnt_writes)[0]) if (bulk or cnt_writes) else f.where(),
         "the free set grows only by the store in the row-add loop" if not bulk and not cnt_writes else
         "%s puts several released rows into the free set at once: the columns extracted for the first of them already have entries for rows that are not in the factor yet" %
         f.render((bulk + cnt_writes)[0])[:70])


def sp6(P, C):
    """SP-6: the row taken out of / put into the factor is the coefficient that changes sets."""
    C.rule("SP-6", "in each transfer loop of modify_factor_p the element that moves between the free and the constrained set (`G[nG++] = H1[i]`, "
           "`F[nF++] = H2[i]`) is also the row of the factor that is deleted / added: the first argument of cholmod_l_rowdel / cholmod_l_rowadd is "
           "that element, or iPerm[that element] — in both arms of the permutation test — and the column extracted by get_column is its "
           "column. Deleting another row (a neighbour in the compacted set) leaves the constrained coefficient in the factor and drops a free one", floor=3)
    from . import ts as _ts
    fs_ = [f for f in P.fns("modify_factor_p") if f.unit.startswith("fitter/")]
    if len(fs_) != 1:
        raise core.AnalysisBroken("SP-6: modify_factor_p not found")
    f = fs_[0]
    n = 0
    for i, cal in f.calls():
        if not cal or cal["name"] not in ("cholmod_l_rowdel", "cholmod_l_rowadd", "get_column"):
            continue
        L = next((a for a in f.ancestors(i) if f.k(a) == "ForStmt"), None)
        if L is None:
            C.ob("SP-6", f.name, "%s-outside-loop" % cal["name"], False, f.loc(i), "%s is not inside a transfer loop" % cal["name"])
            continue
        # the element that changes sets in this loop: SET[count++] = E, a statement of the loop body itself
        moved = []
        body = f.nodes[L]["body"]
        for x in (f.ch(body) if f.k(body) == "CompoundStmt" else [body]):
            ap = _ts.assign_parts(f, x)
            if ap and ap[1] is not None and f.nodes[f.strip(x)].get("op", f.nodes[x].get("op")) == "=":
                l = f.strip(ap[0])
                if f.k(l) == "ArraySubscriptExpr":
                    idx = f.strip(f.nodes[l]["ch"][1])
                    if f.k(idx) == "UnaryOperator" and f.nodes[idx].get("op") == "++":
                        moved.append(f.render(ap[1]).replace(" ", ""))
        arg = f.args(i)[1] if cal["name"] == "get_column" else f.args(i)[0]
        a = f.strip(arg)
        forms = []
        if f.k(a) == "ConditionalOperator":
            forms = [f.strip(f.nodes[a]["ch"][1]), f.strip(f.nodes[a]["ch"][2])]
        else:
            forms = [a]
        elems = []
        for x in forms:
            # E or PERM[E]
            t = f.render(x).replace(" ", "")
            if f.k(x) == "ArraySubscriptExpr" and "Perm" in f.render(f.nodes[x]["ch"][0]):
                t = f.render(f.strip(f.nodes[x]["ch"][1])).replace(" ", "")
            elems.append(t)
        n += 1
        ok = len(moved) == 1 and all(e == moved[0] for e in elems)
        C.ob("SP-6", f.name, "%s-row#%d" % (cal["name"], n), ok, f.loc(i),
             "%s acts on %s, the element this loop moves between the sets" % (cal["name"], moved[0]) if ok else
             "%s acts on row %s, but the element this loop moves between the sets is %s: the factor loses or gains the wrong row" % (cal["name"], sorted(set(elems)), moved))
    if n < 3:
        raise core.AnalysisBroken("SP-6: expected rowdel, rowadd and get_column in modify_factor_p, found %d call(s)" % n)


def sp7(P, C):
    """SP-7: a sub-factor whose columns are copied by position is analysed with the given permutation and nothing else."""
    C.rule("SP-7", "every cholmod_l_analyze_p in the fitter that is handed a permutation runs with the ordering forced: on every path to the call the "
           "last store to the common's `nmethods` is the constant 1 and the last store to `postorder` is false, in the same function (must-"
           "dataflow over the CFG). With more methods enabled CHOLMOD also tries AMD on the sub-matrix and keeps the ordering with less fill; the "
           "columns of the sub-factor are then copied into the full factor at positions derived from the permutation that was handed in", floor=1)
    from . import ts as _ts
    n = 0
    for f in sorted(P.functions.values(), key=lambda g: (g.file, g.line)):
        if not f.unit.startswith("fitter/") or not f.cfg:
            continue
        calls = [i for i, cal in f.calls() if cal and cal["name"] == "cholmod_l_analyze_p"]
        for ci in calls:
            perm = f.strip(f.args(ci)[1])
            if f.k(perm) in ("GNUNullExpr", "CXXNullPtrLiteralExpr") or f.nodes[perm].get("cv") == 0 or f.render(perm).replace(" ", "") in ("NULL", "((void*)0)"):
                continue
            n += 1

            def transfer(state, e, _b=None, _j=None, _f=f):
                i = e.get("n", -1) if e.get("kind") == "stmt" else -1
                if i < 0:
                    return state
                ap = _ts.assign_parts(_f, i)
                if ap and ap[1] is not None:
                    l = _f.strip(ap[0])
                    if _f.k(l) == "MemberExpr" and _f.nodes[l].get("member") in ("nmethods", "postorder"):
                        r = _f.strip(ap[1])
                        v = _f.nodes[r].get("cv", _f.nodes[r].get("v"))
                        if isinstance(v, bool):
                            v = int(v)
                        state = dict(state)
                        state[_f.nodes[l]["member"]] = v if isinstance(v, int) else "?"
                return state

            def join(a, b):
                return {k: (a.get(k) if a.get(k) == b.get(k) else "?") for k in set(a) | set(b)}
            IN, _OUT = core.dataflow(f, {"nmethods": "?", "postorder": "?"}, transfer, join)
            pos = f.node_positions()
            st = None
            if ci in pos and pos[ci][0] in IN:
                b, j = pos[ci]
                st = core.state_before(f, IN, transfer, b, j)
            ok = st is not None and st.get("nmethods") == 1 and st.get("postorder") == 0
            C.ob("SP-7", f.name, "analyze_p#%d" % n, ok, f.loc(ci),
                 "the given permutation is the only ordering CHOLMOD may use here (nmethods = 1, postorder = false on every path)" if ok else
                 "cholmod_l_analyze_p(%s) is reached with nmethods = %s, postorder = %s: CHOLMOD may choose another ordering than the one handed in, "
                 "and the sub-factor's columns are copied by the positions of that one" % (f.render(perm), (st or {}).get("nmethods"), (st or {}).get("postorder")))
    if n == 0:
        raise core.AnalysisBroken("SP-7: no cholmod_l_analyze_p with a permutation found in the fitter")


def sp8(P, C):
    """SP-8: entries are dropped from a system matrix only below machine epsilon."""
    C.rule("SP-8", "every cholmod_l_drop in the fitter passes DBL_EPSILON (or a smaller literal) as its tolerance, never a tolerance of the "
           "iteration: the entries of the normal matrix scale with the weights, so a threshold of the size of the solver's stopping tolerance "
           "removes real couplings from a problem with small weights — the truncated matrix is another problem, or not positive definite", floor=1)
    n = 0
    for f in sorted(P.functions.values(), key=lambda g: (g.file, g.line)):
        if not f.unit.startswith("fitter/"):
            continue
        for i, cal in f.calls():
            if not cal or cal["name"] != "cholmod_l_drop":
                continue
            n += 1
            a = f.strip(f.args(i)[0])
            macros = f.nodes[a].get("macros") or f.nodes[f.args(i)[0]].get("macros") or []
            v = f.nodes[a].get("v", f.nodes[a].get("cv"))
            ok = "DBL_EPSILON" in macros or (f.k(a) == "FloatingLiteral" and isinstance(v, (int, float)) and 0 <= v <= 2.3e-16)
            C.ob("SP-8", f.name, "drop-tolerance#%d" % n, ok, f.loc(i),
                 "cholmod_l_drop(%s, ...): machine epsilon" % f.render(a) if ok else
                 "cholmod_l_drop(%s, ...): the tolerance is not machine epsilon; entries of a system with small weights fall below it" % f.render(a))
    if n == 0:
        raise core.AnalysisBroken("SP-8: no cholmod_l_drop call found in the fitter")


def so2(P, C):
    """SO-2: get_column does not depend on the order of the column's entries either."""
    C.rule("SO-2", "the scan of a stored column for a requested row leaves early only when it has found that row: every `break` / `continue` / "
           "early exit of the inner search loop of get_column is control-dependent on the equality test between the stored row index and the "
           "requested one. A CHOLMOD sparse matrix need not have sorted columns (`sorted == 0`; glam assembles the system with cholmod_l_add(…, "
           "sorted = 0), which appends penalty-only entries after the data term's), so an exit on `stored > requested` drops entries from the "
           "column handed to cholmod_l_rowadd", floor=1)
    f = P.one("get_column", file_endswith="cholesky_solve.c")
    loops = [L for L in f.walk() if f.k(L) in ("ForStmt", "WhileStmt")]
    inner = [L for L in loops if any(f.k(a) in ("ForStmt", "WhileStmt") for a in f.ancestors(L))]
    if not inner:
        raise core.AnalysisBroken("SO-2: the inner search loop of get_column was not found")
    bad = []
    n = 0
    for L in inner:
        for x in f.walk(f.nodes[L]["body"]):
            if f.k(x) not in ("BreakStmt", "ReturnStmt", "GotoStmt"):
                continue
            if next((a for a in f.ancestors(x) if f.k(a) in ("ForStmt", "WhileStmt", "DoStmt", "SwitchStmt")), None) != L and f.k(x) == "BreakStmt":
                continue
            n += 1
            ok = False
            for a in f.ancestors(x):
                if a == L:
                    break
                if f.k(a) == "IfStmt" and f.nodes[a]["then"] in [x] + list(f.ancestors(x)):
                    c = f.nodes[f.strip(f.nodes[a]["cond"])]
                    if c["k"] == "BinaryOperator" and c.get("op") == "==":
                        ok = True
            if not ok:
                bad.append(x)
        # the loop condition itself may not compare stored and requested indices by order
        c = f.nodes[L].get("cond", -1)
        if c is not None and c >= 0 and any(f.k(y) == "BinaryOperator" and f.nodes[y].get("op") in ("<", "<=", ">", ">=") and
                                           "Fset" in f.render(y) and "Ai" in f.render(y) for y in f.walk(c)):
            bad.append(L)
    C.ob("SO-2", "get_column", "entry-order-insensitive", not bad, f.loc(bad[0]) if bad else f.loc(inner[0]),
         "the search leaves the column early only after a match (%d early exit(s))" % n if not bad else
         "the search of the stored column stops at %s on a condition other than having found the requested row: entries stored after a larger "
         "row index are dropped when the column is not sorted" % f.loc(bad[0]))
