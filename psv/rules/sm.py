"""SM — allocation-site / size-model agreement (serves C19).

SM-1 every allocation the reader makes through the allocator has a dominating term in estimateMemory
SM-2 the model's convolution adjustments equal the shape convolve produces
SM-3 convolve releases before it allocates and uses the allocator only for members
TS-3a owned members only ever receive allocator memory
"""
import re

from .. import core
from ..core import Poly
from . import ts, uw, vg

SIZEOF = {"unsigned int": 4, "uint32_t": 4, "float": 4, "double": 8, "unsigned long": 8, "uint64_t": 8, "double *": 8, "char *": 8,
          "char **": 8, "char": 1, "long": 8}


def reader_allocs(P):
    f = [g for g in P.fns("read_fits_core") if g.unit == "driver"][0]
    out = []
    for (g, i, r, cnt, off, ty) in ts.alloc_sites(P):
        if g.usr != f.usr:
            continue
        loops = [a for a in g.ancestors(i) if g.k(a) == "ForStmt"]
        out.append(dict(node=i, member=r[0], depth=r[1], elem=ty, count=ts.norm_count(g, cnt), loops=len(loops), f=g))
    return f, out


def model_terms(P):
    """`size += a*b*...` terms of estimateMemory as (Poly in bytes over {dim, nknots, order[#], ncoeffs, naux}, loop depth, node)."""
    f = [g for g in P.fns("estimateMemory") if g.unit == "driver"]
    if len(f) != 1:
        raise core.AnalysisBroken("estimateMemory: expected one instantiation")
    f = f[0]

    def atomize(ff, j):
        n = ff.nodes[j]
        if n["k"] == "UnaryExprOrTypeTraitExpr" and "cv" in n:
            return Poly.const(n["cv"])
        if n["k"] in ("DeclRefExpr",) and "cv" not in n:
            return n["decl"]["name"]
        if n["k"] == "CXXOperatorCallExpr" and n.get("opcall") == "[]":
            s = ff.render(j)
            return re.sub(r"\[[A-Za-z_]\w*\]", "[#]", s)
        return None
    terms = []
    for i in f.walk():
        if f.k(i) == "CompoundAssignOperator" and f.nodes[i]["op"] == "+=" and f.render(f.nodes[i]["ch"][0]) == "size":
            loops = [a for a in f.ancestors(i) if f.k(a) == "ForStmt"]
            p = core.poly(f, f.nodes[i]["ch"][1], atomize)
            terms.append((p, len(loops), i))
    init = None
    for i in f.walk():
        if f.k(i) == "DeclStmt":
            for d in f.nodes[i]["decls"]:
                if d.get("name") == "size" and d.get("init", -1) >= 0:
                    init = f.nodes[d["init"]].get("cv")
    return f, terms, init


def sm1(P, C):
    C.rule("SM-1", "every allocate<T>(count) of the reader has a term of estimateMemory with the same element size and the same affine count "
           "(dimension-wise terms inside the per-dimension loop), each term used once; the auxiliary entries are covered by the per-key "
           "bound under the card-length lemma", floor=12)
    rf, allocs = reader_allocs(P)
    mf, terms, init = model_terms(P)
    if len(allocs) < 13 or len(terms) < 10:
        raise core.AnalysisBroken("SM-1: %d reader allocations, %d model terms" % (len(allocs), len(terms)))
    sym = {"ndim": "dim", "nknots[#]": "nknots", "order[#]": "order[#]", "ncoeffs": "ncoeffs", "naux": "naux"}
    # capacity per (monomial, loop depth): the sum of the model's coefficients in bytes
    cap = {}
    cap_where = {}
    for k, (p, depth, node) in enumerate(terms):
        for mono, c in p.t.items():
            cap[(mono, depth)] = cap.get((mono, depth), 0) + c
            cap_where.setdefault((mono, depth), []).append(mf.loc(node))
    aux_bytes = []
    for a in allocs:
        g = a["f"]
        es = SIZEOF.get(a["elem"])
        if es is None:
            C.ob("SM-1", "read_fits_core", "alloc:%s/%d" % (a["member"], a["depth"]), False, g.loc(a["node"]), "unknown element type %s" % a["elem"])
            continue
        if a["member"] == "aux":
            aux_bytes.append((a, es))
            continue
        need = Poly()
        for mono, c in a["count"].t.items():
            need = need + Poly({tuple(sorted(sym.get(x, x) for x in mono)): c * es})
        ok = True
        consumed = []
        for mono, c in need.t.items():
            key = (mono, a["loops"])
            if cap.get(key, 0) >= c:
                cap[key] -= c
                consumed.append("%s (remaining capacity %d*%s)" % (cap_where[key][0], cap[key], "*".join(mono) or "1"))
            else:
                ok = False
        C.ob("SM-1", "read_fits_core", "alloc:%s/%d" % (a["member"], a["depth"]), ok, g.loc(a["node"]),
             "%s bytes requested for %s%s; model term(s): %s" % (need, a["member"], " (per dimension)" if a["loops"] else "", consumed or "NONE — the estimate does not cover this allocation"))
    # auxiliary keys: naux*8 (array) + per key: 2*8 (pair) + keylen + valuelen, against naux*(FLEN_KEYWORD+FLEN_VALUE)
    bound = cap.get((("naux",), 0), 0)
    per_key = [1] if bound else []
    fixed = 0
    var = 0
    for (a, es) in aux_bytes:
        cnt = a["count"]
        if cnt == Poly.atom("naux"):
            fixed += es            # one pointer per key in the aux array
        elif cnt.is_const():
            fixed += es * cnt.const_value()
        else:
            var += 1
    CARD = 82      # lemma: strlen(key)+1 + strlen(value)+1 <= 80 + 2 for anything cfitsio returns from one 80-character card
    ok = len(per_key) >= 1 and var == 2 and fixed + CARD <= bound
    C.ob("SM-1", "read_fits_core", "alloc:aux-entries", ok, rf.where(),
         "per key the reader requests %d bytes of pointers plus keylen+valuelen <= %d characters (card-length lemma); the model reserves %d per key"
         % (fixed, CARD, bound))
    C.ob("SM-1", "estimateMemory", "object-itself", init is not None and init >= 96, mf.where(), "the model starts from sizeof(splinetable) = %s" % init)
    # rounding slack is only ever added
    slack = [mf.render(n) for (p, d, n) in terms if "KB" in mf.render(n)]
    C.ob("SM-1", "estimateMemory", "slack-added", len(slack) == 1, mf.where(), "rounding up to a kilobyte plus one: %s" % slack)
    return len(allocs), len(terms)


def sm2(P, C):
    C.rule("SM-2", "the model's convolution adjustments (order += n-1, nknots *= n, naxes = nknots-order-1 in the convolved dimension) equal the "
           "shape convolve produces (UW-2), and are applied before the sizes are summed", floor=3)
    mf, terms, init = model_terms(P)
    f = mf
    cf, post, others, counter = uw.convolve_shape(P)
    # model side
    n = "n_convolution_knots"
    got = {}
    for i in f.walk():
        if f.k(i) == "CompoundAssignOperator":
            l = f.render(f.nodes[i]["ch"][0]).replace(" ", "")
            r = f.render(f.nodes[i]["ch"][1]).replace(" ", "")
            if l == "order[convolution_dimension]" and f.nodes[i]["op"] == "+=":
                got["order"] = (r == "(%s-1)" % n)
            if l == "nknots" and f.nodes[i]["op"] == "*=":
                ifs = [a for a in f.ancestors(i) if f.k(a) == "IfStmt"]
                c = f.render(f.nodes[ifs[0]]["cond"]).replace(" ", "") if ifs else ""
                rc = core.rel_canon(f, f.nodes[ifs[0]]["cond"], None) if ifs else None
                got["nknots"] = (r == n and rc is not None and rc[1] == "==0" and rc[0].atoms() == {"i", "convolution_dimension"})
        ap = ts.assign_parts(f, i)
        if ap and ap[1] is not None and f.nodes[i].get("op") == "=":
            l = f.render(ap[0]).replace(" ", "")
            if l == "naxes[i]":
                got["naxes"] = f.render(ap[1]).replace(" ", "") in ("((nknots-order[i])-1)",)
    # the adjusted quantities must be what the size terms see: every `size +=` that mentions the knot count, an order or the coefficient
    # count comes after the adjustment of that quantity (statement order inside the per-dimension loop / function body)
    pos = f.node_positions()
    def first_pos(pred):
        best = None
        for i in f.walk():
            if pred(i) and i in pos:
                best = i if best is None or f.nodes[i]["loc"] < f.nodes[best]["loc"] else best
        return best
    adj_nk = first_pos(lambda i: f.k(i) == "CompoundAssignOperator" and f.nodes[i]["op"] == "*=" and f.render(f.nodes[i]["ch"][0]) == "nknots")
    adj_ax = first_pos(lambda i: f.k(i) == "BinaryOperator" and f.nodes[i]["op"] == "=" and f.render(f.nodes[i]["ch"][0]).replace(" ", "") == "naxes[i]")
    adj_or = first_pos(lambda i: f.k(i) == "CompoundAssignOperator" and f.render(f.nodes[i]["ch"][0]).replace(" ", "") == "order[convolution_dimension]")
    late = []
    for (p, depth, node) in terms:
        t = f.render(node)
        line = f.nodes[node]["loc"]
        if "nknots" in t and adj_nk is not None and line < f.nodes[adj_nk]["loc"]:
            late.append("knot term at %s precedes `nknots *= n`" % f.loc(node))
        if "order[" in t and adj_or is not None and line < f.nodes[adj_or]["loc"]:
            late.append("term with order at %s precedes the order adjustment" % f.loc(node))
    acc = first_pos(lambda i: f.k(i) == "DeclStmt" and any(d.get("name") == "ncoeffs" for d in f.nodes[i]["decls"]))
    if acc is not None and adj_ax is not None and f.nodes[acc]["loc"] < f.nodes[adj_ax]["loc"]:
        late.append("coefficient count computed before naxes is adjusted")
    C.ob("SM-2", "estimateMemory", "adjust-before-count", not late and adj_nk is not None and adj_ax is not None and adj_or is not None, mf.where(),
         "every size term is computed from the adjusted shape: %s" % (late or "order, knot count and axis length are adjusted before the terms that use them"))
    nn = Poly.atom("$2")
    o, k = Poly.atom("order[DIM]"), Poly.atom("nknots[DIM]")
    want = {"order": o + nn - Poly.const(1), "nknots": k * nn, "naxes": k * nn - (o + nn - Poly.const(1)) - Poly.const(1)}
    for m in ("order", "nknots", "naxes"):
        ok = bool(got.get(m)) and post.get(m) == want[m]
        C.ob("SM-2", "estimateMemory", "conv:" + m, ok, mf.where(),
             "model adjusts %s as convolve does: model=%s, convolve post-state %r (required %r)" % (m, got.get(m), post.get(m), want[m]))


def sm3(P, C):
    C.rule("SM-3", "convolve releases a member's storage before allocating its replacement on every path, and uses the allocator for members only "
           "(temporaries use new), so the allocator's peak is max(before, after)", floor=3)
    f = [g for g in P.fns("convolve") if g.cls == ts.CLS and g.unit == "driver"][0]
    pos = f.node_positions()
    allocs = [(i, r) for (g, i, r, cnt, off, ty) in ts.alloc_sites(P) if g.usr == f.usr]
    all_alloc_calls = [i for i, cal in f.calls() if cal and cal["name"] == "allocate"]
    C.ob("SM-3", "convolve", "allocator-for-members-only", len(all_alloc_calls) == len(allocs) and len(allocs) >= 2, f.where(),
         "%d allocate calls, %d of them stored directly into members" % (len(all_alloc_calls), len(allocs)))
    for (i, r) in allocs:
        # on every path from entry to the allocation there is a deallocate of the same member (same depth)
        def transfer(st, e, b, j):
            if e.get("kind") != "stmt":
                return st
            for (fld, depth, how) in ts.member_writes(f, e["n"]):
                if how == "deallocate" and fld == r[0] and depth == r[1]:
                    return True
            return st
        IN, OUT = core.dataflow(f, False, transfer, lambda a, b: a and b)
        b, j = pos[i]
        ok = bool(core.state_before(f, IN, transfer, b, j))
        if not ok and r[1] >= 1:
            # element arrays: a release loop with the same header precedes (dominates) the allocation loop
            aloop = next((a for a in f.ancestors(i) if f.k(a) == "ForStmt"), None)
            dom = f.dominators()
            for x in f.walk():
                if any(how == "deallocate" and fld == r[0] and depth == r[1] for (fld, depth, how) in ts.member_writes(f, x)):
                    dloop = next((a for a in f.ancestors(x) if f.k(a) == "ForStmt"), None)
                    if aloop is None or dloop is None or aloop == dloop:
                        continue
                    hd = tuple(f.alpha(f.nodes[dloop][k])[0] for k in ("init", "cond", "inc"))
                    ha = tuple(f.alpha(f.nodes[aloop][k])[0] for k in ("init", "cond", "inc"))
                    bd = next((pos[y][0] for y in f.walk(f.nodes[dloop]["cond"]) if y in pos), None)
                    ba = next((pos[y][0] for y in f.walk(f.nodes[aloop]["cond"]) if y in pos), None)
                    # every iteration of the release loop releases (not conditional)
                    uncond = not [a for a in f.ancestors(x) if f.k(a) == "IfStmt" and dloop in set(f.ancestors(a))]
                    if hd == ha and bd is not None and ba is not None and bd in dom[ba] and bd != ba and uncond:
                        ok = True
        # for loop-carried element arrays (knots[i]) the release loop must precede the allocation loop entirely
        C.ob("SM-3", "convolve", "free-before-alloc:%s/%d" % (r[0], r[1]), ok, f.loc(i),
             "the old %s storage is released on every path before its replacement is requested" % r[0])


def ts3a(P, C):
    C.rule("TS-3a", "owned members only ever receive allocator memory (allocate<>), null, another table's pointer (move) or a local that holds "
           "allocator memory: never operator new / malloc", floor=20)
    owned = ts.owned_ptr_fields(P)
    n = 0
    for f in P.functions.values():
        if f.unit != "driver" or not ((f.cls or "").startswith("photospline::splinetable<") or f.kind == "lambda"):
            continue
        for i in f.walk():
            ap = ts.assign_parts(f, i)
            if not ap or ap[1] is None:
                continue
            r = ts.root_member(f, ap[0])
            if not r or r[0] not in owned:
                continue
            # pointer-valued stores only
            t = f.nodes[f.strip(ap[0], casts=False)].get("ct", f.nodes[f.strip(ap[0], casts=False)].get("t", ""))
            if "*" not in t:
                continue
            rhs = f.strip(ap[1])
            bad = any(f.k(x) == "CXXNewExpr" or (f.k(x) == "CallExpr" and (f.nodes[x].get("callee") or {}).get("name") in ("malloc", "calloc", "realloc"))
                      for x in f.walk(rhs))
            n += 1
            C.ob("TS-3a", ts.fshort(f), "store:%s/%d#%d" % (r[0], r[1], n), not bad, f.loc(i),
                 "pointer stored into owned member %s: %s" % (r[0], f.render(ap[1])[:70]))
    return n


# --------------------------------------------------------------------------
# SM-4: which HDU is current when the model (and the reader) look at the primary header
# --------------------------------------------------------------------------
PRIMARY_READERS = ("countAuxKeywords", "readOrder", "fits_get_hdrspace", "fits_read_keyn", "fits_read_key", "fits_get_img_dim")
HDU_MOVES = ("fits_movnam_hdu", "fits_movrel_hdu", "fits_movabs_hdu")


def hdu_states(f):
    """[(call node, name, state)] for every cfitsio/primary-header call: state in {'primary','other','?'} = which HDU is current
    there on every path (forward must-dataflow; joins of different states give '?')"""
    def nm(i):
        cal = f.nodes[i].get("callee")
        if not cal:
            return None
        return f.call_macro(i) or cal["name"]

    def transfer(st, e, b, j):
        if e.get("kind") != "stmt":
            return st
        i = e["n"]
        if f.k(i) not in ("CallExpr",):
            return st
        n = nm(i)
        if n == "fits_movabs_hdu":
            a = f.args(i)
            return "primary" if len(a) > 1 and f.nodes[f.strip(a[1])].get("cv") == 1 else "other"
        if n in ("fits_movnam_hdu", "fits_movrel_hdu"):
            return "other"
        return st

    entry = "primary" if f.name != "estimateMemory" else "?"
    IN, OUT = core.dataflow(f, entry, transfer, lambda a, b: a if a == b else "?")
    pos = f.node_positions()
    out = []
    for i, cal in f.calls():
        if not cal or i not in pos:
            continue
        n = nm(i)
        st = core.state_before(f, IN, transfer, *pos[i])
        if st is not None:
            out.append((i, n, st))
    return out


def _axis_count_check_only(f, call):
    """the out-argument of this fits_get_img_dim is a local that is only ever compared with integer constants"""
    a = f.strip(f.args(call)[1])
    if not (f.k(a) == "UnaryOperator" and f.nodes[a].get("op") == "&" and f.k(f.strip(f.nodes[a]["ch"][0])) == "DeclRefExpr"):
        return False
    vid = f.nodes[f.strip(f.nodes[a]["ch"][0])]["decl"].get("id")
    uses = [x for x in f.walk() if f.k(x) == "DeclRefExpr" and f.nodes[x]["decl"].get("id") == vid and x not in set(f.walk(call))]
    if not uses:
        return False
    for u in uses:
        p_ = f.parent[u]
        while p_ >= 0 and f.k(p_) in core.TRANSPARENT:
            p_ = f.parent[p_]
        if p_ < 0 or f.k(p_) != "BinaryOperator" or f.nodes[p_].get("op") not in ("==", "!=", "<", "<=", ">", ">="):
            return False
        other = [f.strip(y) for y in f.nodes[p_]["ch"] if u not in set(f.walk(y)) and f.strip(y) != u]
        if not other or "cv" not in f.nodes[other[0]]:
            return False
    return True


def sm4(P, C):
    C.rule("SM-4", "the size model reads what lives in the primary header — dimension count, coefficient shape, orders and above all the count "
           "of auxiliary keys — while the primary HDU is current (after fits_movabs_hdu(…,1,…) and before any move to a KNOTS extension), and "
           "reads each knot count after moving to that extension; the reader does the same", floor=8)
    for f in [P.one("estimateMemory", unit="driver"), P.one("read_fits_core", unit="driver")]:
        seen = {}
        for i, n, st in hdu_states(f):
            if n == "fits_get_img_dim" and _axis_count_check_only(f, i):
                continue        # asks how many axes the CURRENT image has, to test it against a constant (VG-2f): not a read of the table's shape
            if n in PRIMARY_READERS:
                a = seen.setdefault(n, {"n": 0, "bad": []})
                a["n"] += 1
                if st != "primary":
                    a["bad"].append(i)
        for n, a in sorted(seen.items()):
            C.ob("SM-4", f.name, n, not a["bad"], f.loc(a["bad"][0]) if a["bad"] else f.where(),
                 "%d call(s) of %s: %s" % (a["n"], n, "all made while the primary HDU is current" if not a["bad"] else
                                           "%s made while another HDU (a KNOTS extension) is or may be current, so it inspects the wrong header"
                                           % ", ".join(f.loc(i) for i in a["bad"])))
        if f.name == "estimateMemory":
            C.ob("SM-4", f.name, "aux-keys-counted", "countAuxKeywords" in seen, f.where(), "the auxiliary keys are counted at all")
            kn = [(i, st) for i, n, st in hdu_states(f) if n == "fits_get_img_size" and any(f.k(a) == "ForStmt" for a in f.ancestors(i))]
            C.ob("SM-4", f.name, "knot-count-in-extension", bool(kn) and all(st == "other" for _, st in kn), f.loc(kn[0][0]) if kn else f.where(),
                 "the knot count is read after moving to the KNOTS extension")


# --------------------------------------------------------------------------
# SM-6: a failed HDU move is not papered over
# --------------------------------------------------------------------------
def sm6(P, C, floor=2):
    from . import ed
    C.rule("SM-6", "after fits_movnam_hdu / fits_movabs_hdu / fits_movrel_hdu the status word of that call is not reset to 0 before it has been "
           "tested zero: cfitsio's inherited status turns every later call into a no-op after a failed move, and clearing it lets the next "
           "read run on whatever HDU was current before (the previous KNOTS extension)", floor=floor)
    READS = ("fits_get_img_size", "fits_read_pix", "fits_read_key", "fits_get_img_dim", "fits_get_hdrspace", "fits_read_keyn", "fits_get_img_type",
             "countAuxKeywords", "readOrder")
    for f in [g for g in P.functions.values() if g.unit == "driver" and g.name in ("read_fits_core", "estimateMemory") and "splinetable<" in g.qname]:
        def nm(i):
            cal = f.nodes[i].get("callee")
            return (f.call_macro(i) or cal["name"]) if cal else None

        def transfer(st, e, b, j):
            if e.get("kind") != "stmt":
                return st
            i = e["n"]
            n = f.nodes[i]
            if n["k"] == "CallExpr" and nm(i) in HDU_MOVES:
                sv = ed.status_arg(f, i)
                if sv is not None and not isinstance(sv, tuple):
                    return frozenset(t for t in st if t[0] != sv and t[1] != "stale") | {(sv, "pending", f.loc(i))}
                return frozenset(t for t in st if t[1] != "stale")
            ap = ts.assign_parts(f, i)
            if ap and ap[1] is not None and n.get("op") == "=":
                t_ = f.strip(ap[0])
                if f.k(t_) == "DeclRefExpr" and f.nodes[f.strip(ap[1])].get("cv") == 0:
                    vid = f.nodes[t_]["decl"]["id"]
                    return frozenset((v, "stale" if (v == vid and s_ == "pending") else s_, w) for (v, s_, w) in st)
            return st

        def edge(st, b, k, s, cond):
            if cond is None or cond < 0 or len(f.blocks[b]["succ"]) != 2:
                return st
            out = set()
            for (v, s_, w) in st:
                if s_ == "pending":
                    z = ed.is_zero_test(f, cond, v)
                    if z is not None:
                        zero_here = (z == "zero-when-true") == (k == 0)
                        if zero_here:
                            continue                     # move succeeded on this edge: nothing pending
                out.add((v, s_, w))
            return frozenset(out)
        IN, OUT = core.dataflow(f, frozenset(), transfer, lambda a, b: a | b, edge)
        moves = 0
        bad = []
        for b, blk in f.blocks.items():
            if b not in IN:
                continue
            st = IN[b]
            for j, e in enumerate(blk["elems"]):
                if e.get("kind") == "stmt":
                    i = e["n"]
                    if f.k(i) == "CallExpr":
                        if nm(i) in HDU_MOVES:
                            moves += 1
                        elif nm(i) in READS and any(s_ == "stale" for (_v, s_, _w) in st):
                            bad.append((i, nm(i), [w for (_v, s_, w) in st if s_ == "stale"][0]))
                st = transfer(st, e, b, j)
        C.ob("SM-6", f.name, "failed-move-not-cleared", not bad and moves > 0, f.loc(bad[0][0]) if bad else f.where(),
             ("%d HDU move(s); no read follows a move whose status was reset without having been tested zero" % moves) if not bad else
             "%s at %s runs after the status of the move at %s was reset to 0 without a test: if the move failed, it reads the HDU that was current before"
             % (bad[0][1], f.loc(bad[0][0]), bad[0][2]))


# --------------------------------------------------------------------------
# SM-7: axis lengths come out of the file in FITS order and are reversed before they are indexed by dimension
# --------------------------------------------------------------------------
def sm7(P, C, floor=2):
    C.rule("SM-7", "the axis lengths fits_get_img_size returns for the coefficient image are in FITS (reversed) order; both the reader and the size "
           "model reverse them before any use indexed by dimension — the reader by copying the temporary back to front into naxes, "
           "estimateMemory by std::reverse on the vector, placed before the first subscript of it", floor=floor)
    for name in ("read_fits_core", "estimateMemory"):
        f = [g for g in P.functions.values() if g.unit == "driver" and g.name == name and "splinetable<" in g.qname][0]
        # the vector handed to fits_get_img_size with a count other than the literal 1
        src = None
        at = None
        for i, cal in f.calls():
            if cal and (f.call_macro(i) or cal["name"]) in ("fits_get_img_size", "ffgisz"):
                a = f.args(i)
                if f.nodes[f.strip(a[1])].get("cv") == 1:
                    continue
                for y in f.walk(a[2]):
                    if f.k(y) == "DeclRefExpr" and "vector" in f.nodes[y]["decl"].get("type", ""):
                        src, at = f.nodes[y]["decl"]["id"], i
        if src is None:
            raise core.AnalysisBroken("SM-7: the multi-axis fits_get_img_size call of %s was not found" % name)

        def mentions(i):
            return any(f.k(y) == "DeclRefExpr" and f.nodes[y]["decl"]["id"] == src for y in f.walk(i))
        revs = [i for i, cal in f.calls() if cal and cal["name"] == "reverse" and len(f.args(i)) == 2 and mentions(f.args(i)[0]) and mentions(f.args(i)[1]) and
                "begin" in f.render(f.args(i)[0]) and "end" in f.render(f.args(i)[1])]
        rcopies = [i for i, cal in f.calls() if cal and cal["name"] == "copy" and len(f.args(i)) == 3 and mentions(f.args(i)[0]) and
                   "rbegin" in f.render(f.args(i)[0]) and "rend" in f.render(f.args(i)[1]) and ts.root_member(f, f.args(i)[2]) and ts.root_member(f, f.args(i)[2])[0] == "naxes"]
        # subscripts of the raw vector by a (dimension) variable
        subs = [y for y in f.walk() if f.k(y) in ("ArraySubscriptExpr", "CXXOperatorCallExpr") and (f.k(y) == "ArraySubscriptExpr" or f.nodes[y].get("opcall") == "[]") and
                mentions(f.nodes[y]["ch"][-2]) and f.k(f.strip(f.nodes[y]["ch"][-1])) == "DeclRefExpr"]
        pos = f.node_positions()
        dom = f.dominators()

        def at_(i):
            while i >= 0 and i not in pos:
                i = f.parent[i]
            return pos.get(i)

        def dominated_by(r, nodes):
            pr = at_(r)
            out = []
            for x in nodes:
                px = at_(x)
                if pr and px and not ((pr[0] == px[0] and pr[1] < px[1]) or (pr[0] != px[0] and pr[0] in dom.get(px[0], ()))):
                    out.append(x)
            return out
        if name == "estimateMemory":
            late = dominated_by(revs[0], subs) if revs else subs
            ok = len(revs) == 1 and not late and f.nodes[revs[0]]["loc"] > f.nodes[at]["loc"]
            det = "std::reverse on the axis vector after reading it, before all %d subscripts by dimension" % len(subs) if ok else \
                ("the axis vector is subscripted by dimension at %s without having been reversed: the convolved dimension's length overwrites the "
                 "mirror dimension's" % ", ".join(f.loc(x) for x in late[:3]) if not revs or late else "reversal misplaced")
        else:
            # the reader may look at the raw vector only for sign checks; what becomes naxes is the reversed copy
            ok = len(rcopies) == 1 and not revs
            det = "naxes = the temporary copied back to front (%d reversed copy)" % len(rcopies)
        C.ob("SM-7", name, "axes-reversed", ok, f.loc(at), det)


def vg5(P, C):
    """VG-5: estimateMemory does not index its per-dimension vectors with an unchecked argument."""
    C.rule("VG-5", "estimateMemory sizes its per-dimension vectors by the number of axes it reads from the file; a subscript of one of them by "
           "an argument (the declared convolution dimension) is dominated by a throwing guard that compares that argument with the same "
           "count — a file that is not a spline table (NAXIS = 0) or a declared dimension beyond the table's must be refused, as "
           "convolve itself refuses it", floor=1)
    fs_ = [g for g in P.fns("estimateMemory") if g.unit == "driver"]
    if not fs_:
        raise core.AnalysisBroken("VG-5: estimateMemory not found")
    f = fs_[0]
    from . import vg
    pidx = {p["id"]: p["name"] for p in f.params}
    guards = vg.guards_of(f)
    pos = f.node_positions()
    dom = f.dominators()

    def at(x):
        while x >= 0 and x not in pos:
            x = f.parent[x]
        return pos.get(x)
    n = 0
    for i in f.walk():
        n_ = f.nodes[i]
        if not ((n_["k"] == "CXXOperatorCallExpr" and n_.get("opcall") == "[]") or n_["k"] == "ArraySubscriptExpr"):
            continue
        idx = f.strip(n_["ch"][-1])
        if f.k(idx) != "DeclRefExpr" or f.nodes[idx]["decl"].get("kind") != "ParmVar" or f.nodes[idx]["decl"].get("id") not in pidx:
            continue
        pname = pidx[f.nodes[idx]["decl"]["id"]]
        ok = False
        for g in guards:
            conn, leaves = core.cond_leaves(f, f.nodes[g["node"]]["cond"])
            if conn not in ("||", "leaf"):
                continue
            for lf in leaves:
                orr = f.oriented(lf, lambda x: f.k(x) == "DeclRefExpr" and f.nodes[x]["decl"].get("id") == f.nodes[idx]["decl"]["id"])
                if orr and orr[1] in (">=", ">"):
                    pg, ph = at(f.strip(lf)), at(i)
                    if pg and ph and ((pg[0] == ph[0] and pg[1] < ph[1]) or (pg[0] != ph[0] and pg[0] in dom.get(ph[0], ()))):
                        ok = True
        n += 1
        C.ob("VG-5", "estimateMemory", "%s[%s]@%d" % (f.render(n_["ch"][-2])[:20], pname, n_["loc"][0]), ok, f.loc(i),
             "indexed by the argument %s behind a throwing guard that bounds it" % pname if ok else
             "indexed by the argument %s, which nothing compares with the number of dimensions of the file: a FITS file with NAXIS = 0, or a "
             "declared dimension beyond the table's, writes outside the vector" % pname)
    if n == 0:
        raise core.AnalysisBroken("VG-5: estimateMemory subscripts nothing by an argument")


# --------------------------------------------------------------------------
# SM-8: the size model finds each extension the way the reader finds it
# --------------------------------------------------------------------------
def sm8(P, C):
    from . import fs as _fs
    C.rule("SM-8", "estimateMemory locates every extension whose size it counts exactly as read_fits_core locates it — fits_movnam_hdu with the "
           "same HDU type and the same name pattern (KNOTS<i> with the loop variable) — and moves by position only to the primary HDU. The "
           "reader accepts the extensions in any sequence (foreign or re-packed files); a model that goes by position counts another "
           "extension's knots and the estimate falls short by whole hyperslices", floor=3)
    ef = P.one("estimateMemory", unit="driver")
    rf, R = _fs.reader_schema(P)
    rmoves = {(str(x["name"]), x["hdutype"]) for x in R if x["kind"] == "move"}
    calls, fmts = _fs.cfits_calls(ef)
    emoves = []
    bypos = []
    for (i, nm, macro) in calls:
        a = ef.args(i)
        if nm == "ffmnhd":
            emoves.append((i, str(_fs.name_of(ef, a[2], fmts)), ef.nodes[ef.strip(a[1])].get("cv")))
        elif nm == "ffmahd":
            k = ef.nodes[ef.strip(a[1])].get("cv")
            if k != 1:
                bypos.append((i, ef.render(a[1])))
        elif nm == "ffmrhd":
            bypos.append((i, "relative " + ef.render(a[1])))
    C.ob("SM-8", "estimateMemory", "no-move-by-position", not bypos, ef.loc(bypos[0][0]) if bypos else ef.where(),
         "the only move by position is to the primary HDU" if not bypos else
         "fits_mov(abs|rel)_hdu to HDU %s: the reader finds its extensions by name, wherever they are in the file" % bypos[0][1])
    kn = [m for m in emoves if "KNOTS" in m[1]]
    ok = bool(kn) and all((m[1], m[2]) in rmoves for m in emoves)
    C.ob("SM-8", "estimateMemory", "same-name-and-type-as-the-reader", ok, ef.loc(emoves[0][0]) if emoves else ef.where(),
         "moves by name: %s; the reader's: %s" % (sorted((m[1], m[2]) for m in emoves), sorted(rmoves)))
    # the index formatted into the name is the loop variable that also indexes the per-dimension count
    okv = False
    for (i, name, _t) in kn:
        L = next((x for x in ef.ancestors(i) if ef.k(x) == "ForStmt"), None)
        sizes = [j for (j, nm, _m) in calls if nm == "ffgisz" and L is not None and L in set(ef.ancestors(j))]
        okv = L is not None and bool(sizes)
    C.ob("SM-8", "estimateMemory", "knot-count-read-in-the-same-iteration", okv, ef.loc(kn[0][0]) if kn else ef.where(),
         "each KNOTS<i> move is followed in the same loop iteration by the fits_get_img_size that counts its knots")


def fs14(P, C):
    """FS-14: the reader finds its extensions by name."""
    from . import fs as _fs
    C.rule("FS-14", "read_fits_core locates every extension it reads (KNOTS<i> with the loop variable, EXTENTS) by fits_movnam_hdu with its name and "
           "the IMAGE_HDU type, and moves by position only to the primary HDU: the documented layout names the extensions, it does not order "
           "them, so a file of an independent writer that appends EXTENTS first, or the knot vectors in another sequence, is the same table. "
           "A reader that goes by position refuses such a file or — with equally shaped dimensions — exchanges the knot vectors silently", floor=3)
    rf = P.one("read_fits_core", unit="driver")
    calls, fmts = _fs.cfits_calls(rf)
    moves, bypos = [], []
    for (i, nm, macro) in calls:
        a = rf.args(i)
        if nm == "ffmnhd":
            moves.append((i, str(_fs.name_of(rf, a[2], fmts)), rf.nodes[rf.strip(a[1])].get("cv")))
        elif nm == "ffmahd":
            if rf.nodes[rf.strip(a[1])].get("cv") != 1:
                bypos.append((i, rf.render(a[1])))
        elif nm == "ffmrhd":
            bypos.append((i, "relative " + rf.render(a[1])))
    C.ob("FS-14", "read_fits_core", "no-move-by-position", not bypos, rf.loc(bypos[0][0]) if bypos else rf.where(),
         "the only move by position is to the primary HDU" if not bypos else
         "fits_mov(abs|rel)_hdu to HDU %s: the layout names the extensions, a file may hold them in any sequence" % bypos[0][1])
    kn = [m for m in moves if "KNOTS" in m[1]]
    ex = [m for m in moves if "EXTENTS" in m[1]]
    okk = len(kn) == 1 and kn[0][2] == 0
    L = next((x for x in rf.ancestors(kn[0][0]) if rf.k(x) == "ForStmt"), None) if kn else None
    reads = [j for (j, nm, _m) in calls if nm in ("ffgpxv", "ffgpxvll") and L is not None and L in set(rf.ancestors(j))]
    C.ob("FS-14", "read_fits_core", "knots-by-name", okk and L is not None and bool(reads), rf.loc(kn[0][0]) if kn else rf.where(),
         "each knot vector is read after a move by name to %s (IMAGE_HDU) in the same iteration" % (kn[0][1] if kn else "?") if okk and reads else
         "the knot vectors are not located by a move by name to KNOTS<i> in the iteration that reads them (moves by name: %s)" % [m[1] for m in moves])
    C.ob("FS-14", "read_fits_core", "extents-by-name", len(ex) == 1 and ex[0][2] == 0, rf.loc(ex[0][0]) if ex else rf.where(),
         "the extents are located by a move by name to EXTENTS (IMAGE_HDU)" if ex else "no move by name to EXTENTS")


def sm9(P, C):
    """SM-9: the helpers through which all table storage goes request exactly what they are asked for."""
    C.rule("SM-9", "`allocate<T>(n)` hands the allocator the count n itself, and `deallocate(p, n)` the same: the size model of estimateMemory adds "
           "up n*sizeof(T) per array (and three small requests per auxiliary key), so a helper that rounds every request up — to cache lines, "
           "to a minimum — makes the bytes requested exceed the estimate as soon as there are many small arrays", floor=8)
    n = 0
    for f in sorted(P.functions.values(), key=lambda g: (g.name, str(g.targs))):
        if f.unit != "driver" or f.cls != ts.CLS or f.name not in ("allocate", "deallocate"):
            continue
        cnt = f.params[0]["id"] if f.name == "allocate" else f.params[1]["id"]
        calls = [i for i, cal in f.calls() if cal and cal["name"] == f.name and "allocator_traits" in cal.get("qname", "")]
        if not calls:
            continue
        for i in calls:
            a = f.args(i)
            arg = f.strip(a[1] if f.name == "allocate" else a[2])
            ok = f.k(arg) == "DeclRefExpr" and f.nodes[arg]["decl"].get("id") == cnt
            n += 1
            C.ob("SM-9", "%s<%s>" % (f.name, ",".join(str(t) for t in f.targs)[:40]), "exact-count", ok, f.loc(i),
                 "the allocator is asked for exactly n objects" if ok else
                 "the allocator is asked for `%s` objects instead of the n the caller named: the size model counts n*sizeof(T)" % f.render(arg)[:60])
    if n == 0:
        raise core.AnalysisBroken("SM-9: the allocate / deallocate helpers were not found")


def sm10(P, C):
    """SM-10: what the reader stores for an auxiliary key comes out of a buffer of fixed size."""
    C.rule("SM-10", "the model reserves FLEN_KEYWORD + FLEN_VALUE characters per auxiliary key. That bounds what the reader requests only as long "
           "as every string it stores is copied out of a local character array of constant extent (the buffers `fits_read_keyn` fills, or "
           "one the reader fills itself from them): the source of each copy into `aux[i][k]` is such an array, directly or through a pointer "
           "local all of whose definitions are such arrays. A value assembled elsewhere (the CONTINUE convention: `fits_read_key_longstr`) "
           "has no such bound", floor=2)
    f = [g for g in P.fns("read_fits_core") if g.cls == ts.CLS][0]
    arrays = {}
    for x in f.walk():
        if f.k(x) == "DeclStmt":
            for d in f.nodes[x]["decls"]:
                m = re.match(r"^(const )?(unsigned |signed )?char ?\[(\d+)\]$", d.get("ctype", d.get("type", "")))
                if d.get("dk") == "Var" and m:
                    arrays[d["id"]] = int(m.group(3))

    def root(e, depth=0):
        """ids of the local arrays an address expression may point into, or None when something else is possible"""
        e = f.strip(e)
        n = f.nodes[e]
        if n["k"] == "BinaryOperator" and n.get("op") in ("+", "-"):
            return root(n["ch"][0], depth)
        if n["k"] == "UnaryOperator" and n.get("op") == "&":
            s = f.strip(n["ch"][0])
            if f.k(s) == "ArraySubscriptExpr":
                return root(f.nodes[s]["ch"][0], depth)
            return None
        if n["k"] == "ConditionalOperator" and len(f.ch(e)) == 3:
            a, b = root(f.ch(e)[1], depth), root(f.ch(e)[2], depth)
            return None if a is None or b is None else a | b
        if n["k"] == "DeclRefExpr" and n["decl"].get("kind") == "Var":
            vid = n["decl"].get("id")
            if vid in arrays:
                return {vid}
            if depth > 3:
                return None
            defs = [d["init"] for x in f.walk() if f.k(x) == "DeclStmt" for d in f.nodes[x]["decls"] if d.get("id") == vid and d.get("init", -1) >= 0]
            defs += [f.nodes[x]["ch"][1] for x in f.walk() if f.k(x) == "BinaryOperator" and f.nodes[x].get("op") == "=" and
                     f.k(f.strip(f.nodes[x]["ch"][0])) == "DeclRefExpr" and f.nodes[f.strip(f.nodes[x]["ch"][0])]["decl"].get("id") == vid]
            taken = [x for x in f.walk() if f.k(x) == "UnaryOperator" and f.nodes[x].get("op") == "&" and
                     f.k(f.strip(f.nodes[x]["ch"][0])) == "DeclRefExpr" and f.nodes[f.strip(f.nodes[x]["ch"][0])]["decl"].get("id") == vid]
            if not defs or taken or "*" not in n["decl"].get("type", n.get("t", "")):
                return None
            out = set()
            for d in defs:
                r = root(d, depth + 1)
                if r is None:
                    return None
                out |= r
            return out
        return None
    n_ = 0
    for i, cal in f.calls():
        if not cal or cal["name"] not in ("copy", "copy_n", "memcpy", "strcpy", "strncpy", "memmove"):
            continue
        a = f.args(i)
        dst = a[2] if cal["name"] == "copy" and len(a) == 3 else (a[2] if cal["name"] == "copy_n" and len(a) == 3 else (a[0] if a else -1))
        src = a[0] if cal["name"] in ("copy", "copy_n") else (a[1] if len(a) > 1 else -1)
        if dst < 0 or src < 0:
            continue
        r = ts.root_member(f, dst)
        if not r or r[0] != "aux":
            continue
        rs = root(src)
        n_ += 1
        C.ob("SM-10", "read_fits_core", "source-of:%s" % f.render(dst).replace("this->", ""), rs is not None, f.loc(i),
             "copied out of %s" % (", ".join("%s[%d]" % (f.var_name(v), arrays[v]) for v in sorted(rs)) if rs is not None else
                                   "%s, which is not (only) a local character array of constant extent" % f.render(src)))
    if n_ < 2:
        raise core.AnalysisBroken("SM-10: the copies of key and value into aux[i][..] were not found (%d)" % n_)
