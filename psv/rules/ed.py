"""ED — cfitsio status discipline on the write path (serves C08).

ED-1 no status dropped, ED-2 checked close on the success path, ED-3 create
status checked before the handle is used.
"""
from .. import core

WRITERS = ("write_fits", "write_fits_mem", "write_fits_core")
CLOSE = "ffclos"            # fits_close_file
DELETE = "ffdelt"           # fits_delete_file: closes the handle and removes the file
RELEASE = (CLOSE, DELETE)
CREATE = ("ffinit", "ffimem")  # fits_create_file, fits_create_memfile
REPORT_ONLY = ("ffrprt",)    # fits_report_error: printing is not checking
THROWN = (frozenset(), True, frozenset())


def status_arg(f, call):
    """if `call` is a cfitsio-style call (extern C, last argument &local int) return the local's decl id."""
    n = f.nodes[call]
    cal = n.get("callee")
    if not cal or not cal.get("externC") or cal.get("hasBody"):
        return None
    args = f.args(call)
    if not args:
        return None
    a = f.strip(args[-1])
    an = f.nodes[a]
    if an["k"] == "UnaryOperator" and an["op"] == "&":
        t = f.strip(f.ch(a)[0])
        tn = f.nodes[t]
        if tn["k"] == "DeclRefExpr" and tn["decl"]["type"] == "int" and tn["decl"]["kind"] in ("Var", "ParmVar"):
            return tn["decl"]["id"]
    if an["k"] == "DeclRefExpr" and an["decl"]["type"] == "int *":
        return ("ptr", an["decl"]["id"])
    return None


def cfits_name(f, call):
    m = f.call_macro(call)
    return m or f.nodes[call]["callee"]["name"]


def is_zero_test(f, cond, var):
    """cond (leaf) compares `var` with 0: returns 'nonzero-when-true', 'zero-when-true' or None."""
    c, neg = core.cond_polarity(f, cond)
    n = f.nodes[c]
    res = None
    if n["k"] == "DeclRefExpr" and n["decl"]["id"] == var:
        res = True
    elif n["k"] == "BinaryOperator" and n["op"] in ("!=", "==", ">", "<"):
        a, b = (f.strip(x) for x in n["ch"])
        an, bn = f.nodes[a], f.nodes[b]
        if bn["k"] == "DeclRefExpr" and bn["decl"]["id"] == var and an.get("cv") == 0:
            a, b, an, bn = b, a, bn, an
        if an["k"] == "DeclRefExpr" and an["decl"]["id"] == var and bn.get("cv") == 0:
            res = n["op"] != "=="
    if res is None:
        return None
    if neg:
        res = not res
    return "nonzero-when-true" if res else "zero-when-true"


def block_throws(f, b, depth=4):
    """every path from block b ends in a throw within a few blocks (the arm of `if (error) throw`)."""
    blk = f.blocks[b]
    for e in blk["elems"]:
        if e.get("kind") == "stmt" and f.k(e["n"]) == "CXXThrowExpr":
            return True
    if depth == 0:
        return False
    ss = f.succs(b)
    if not ss or ss == [f.cfg["exit"]]:
        return False
    return all(block_throws(f, s, depth - 1) for s in ss)


def ends_in_throw(f, b):
    es = [e for e in f.blocks[b]["elems"] if e.get("kind") == "stmt"]
    return any(f.k(e["n"]) == "CXXThrowExpr" for e in es)


def guard_classes(P, f):
    """local classes of f with a destructor that closes a FITS file: class qname -> (dtor Function, field name)."""
    out = {}
    # classes of f's locals (a guard shared by several writers lives at namespace scope)
    local_types = set()
    for i in f.walk():
        if f.k(i) == "DeclStmt":
            for d in f.nodes[i]["decls"]:
                if d.get("dk") == "Var":
                    t = d.get("ctype", d.get("type", "")).replace("struct ", "").replace("class ", "").replace("const ", "").strip()
                    local_types.add(t.split("::")[-1])
    own = set()
    for g in P.functions.values():
        if g.kind == "dtor" and g.d.get("localClassOf") == f.usr:
            own.add(g.cls.split("::")[-1])
    for g in P.functions.values():
        if g.kind != "dtor":
            continue
        shared = g.cls and not g.d.get("localClassOf") and g.cls.split("::")[-1] in local_types - own and g.unit == f.unit
        if g.d.get("localClassOf") == f.usr or shared:
            closes = [i for i, cal in g.calls() if cal and cal["name"] in RELEASE]
            if closes:
                out[g.cls] = g
    return out


def dtor_close_is_conditional(g):
    """in guard destructor g: is every close call control-dependent on the guard's own handle field being non-null?
    returns the field name or None."""
    for i, cal in g.calls():
        if not cal or cal["name"] not in RELEASE:
            continue
        fld = None
        for a in g.ancestors(i):
            if g.k(a) == "IfStmt":
                c, neg = core.cond_polarity(g, g.nodes[a]["cond"])
                cn = g.nodes[c]
                inthen = g.nodes[a]["then"] in ([i] + list(g.ancestors(i)))
                if cn["k"] == "MemberExpr" and not neg and inthen:
                    fld = cn["member"]
                elif cn["k"] == "BinaryOperator" and cn["op"] == "!=" and inthen:
                    l = g.strip(cn["ch"][0])
                    if g.nodes[l]["k"] == "MemberExpr":
                        fld = g.nodes[l]["member"]
        if fld is None:
            return None
        return fld
    return None


def analyse_function(P, C, f, label, require_close):
    """ED-1/2/3 on one writer body."""
    guards = guard_classes(P, f)
    exitb = f.cfg["exit"]
    # abstract state: (frozenset of pending (var, callname, loc), closed_checked: bool, pending_close: bool, frozenset armed guards)
    calls = {}
    for i, cal in f.calls():
        v = status_arg(f, i)
        if v is not None and not isinstance(v, tuple):
            calls[i] = v
    handle_vars = set()
    for i in calls:
        if f.nodes[i]["callee"]["name"] in CREATE:
            a = f.strip(f.args(i)[0])
            if f.nodes[a]["k"] == "UnaryOperator" and f.nodes[a]["op"] == "&":
                t = f.strip(f.ch(a)[0])
                if f.nodes[t]["k"] == "DeclRefExpr":
                    handle_vars.add(f.nodes[t]["decl"]["id"])
    ed3_viol = {}
    close_while_armed = {}

    def transfer(st, e, b, j):
        pend, closed, armed = st
        kind = e.get("kind")
        if kind == "autoDtor":
            return st
        if kind != "stmt":
            return st
        i = e["n"]
        n = f.nodes[i]
        if n["k"] == "CXXThrowExpr":
            return THROWN     # exceptional exit: identity of the join at the exit block
        if i in calls:
            nm = n["callee"]["name"]
            if nm == CLOSE and armed:
                # cfitsio releases the handle in fits_close_file even when the close reports an error: if the guard is still armed here,
                # the exception thrown for a failed close unwinds through the guard, which closes the released handle a second time
                close_while_armed[f.loc(i)] = True
            pend = pend | {(calls[i], cfits_name(f, i), f.loc(i), nm)}
            return (pend, closed, armed)
        # use of the handle while its creation status is pending (ED-3)
        if n["k"] == "DeclRefExpr" and n["decl"]["id"] in handle_vars:
            par = f.parent[i]
            # the &fits argument of the create call itself is not a use
            isaddr = par >= 0 and f.k(par) == "UnaryOperator" and f.nodes[par]["op"] == "&"
            if not isaddr:
                for (v, cname, loc, nm) in pend:
                    if nm in CREATE:
                        ed3_viol[(cname, loc)] = f.loc(i)
        # guard construction arms it; store of null into guard field disarms
        if n["k"] == "DeclStmt":
            for d in n["decls"]:
                if d.get("dk") == "Var":
                    ty = d.get("ctype", d.get("type", "")).replace("struct ", "").replace("class ", "").split("::")[-1]
                    for gq in guards:
                        if gq.split("::")[-1] == ty:
                            armed = armed | {d["id"]}
        if n["k"] == "BinaryOperator" and n["op"] == "=":
            l = f.strip(n["ch"][0])
            ln = f.nodes[l]
            if ln["k"] == "MemberExpr":
                base = f.strip(f.ch(l)[0]) if f.ch(l) else -1
                if base >= 0 and f.nodes[base]["k"] == "DeclRefExpr" and f.nodes[base]["decl"]["id"] in armed:
                    r = f.strip(n["ch"][1])
                    rn = f.nodes[r]
                    if rn["k"] in ("GNUNullExpr", "CXXNullPtrLiteralExpr") or rn.get("cv") == 0:
                        armed = armed - {f.nodes[base]["decl"]["id"]}
            # re-initialising a pending status variable drops it
        return (pend, closed, armed)

    def edge(st, b, k, s, cond):
        pend, closed, armed = st
        if cond is None or cond < 0 or not pend:
            return st
        for v in set(p[0] for p in pend):
            z = is_zero_test(f, cond, v)
            if z is None:
                continue
            succ = f.blocks[b]["succ"]
            nz_succ = succ[0] if z == "nonzero-when-true" else succ[1]
            if nz_succ >= 0 and block_throws(f, nz_succ):
                cleared = set(p for p in pend if p[0] == v)
                if any(p[3] == CLOSE for p in cleared):
                    closed = True
                pend = frozenset(pend - cleared)
        return (pend, closed, armed)

    def join(a, b):
        return (a[0] | b[0], a[1] and b[1], a[2] | b[2])

    IN, OUT = core.dataflow(f, (frozenset(), False, frozenset()), transfer, join, edge)
    # state at the exit block = join over all normal exits (throwing paths contribute the identity)
    dropped = {}
    n_exits = sum(1 for b in f.blocks if exitb in f.blocks[b]["succ"] and b in OUT and not ends_in_throw(f, b))
    pend, closed_all, armed_at_exit = IN.get(exitb, THROWN)
    for p in pend:
        dropped[(p[1], p[2])] = p
    for i in sorted(calls):
        nm = cfits_name(f, i)
        key = (nm, f.loc(i))
        sym = "%s@%s" % (nm, _ordinal(f, i, calls))
        if f.nodes[i]["callee"]["name"] in REPORT_ONLY:
            continue
        C.ob("ED-1", label, sym, key not in dropped, f.loc(i),
             "status of %s reaches a normal exit of %s without a branch that throws on non-zero (printing it is not checking it)" % (nm, label)
             if key in dropped else "status checked (non-zero arm throws) before every normal exit")
        if f.nodes[i]["callee"]["name"] in CREATE:
            C.ob("ED-3", label, sym, key not in ed3_viol, f.loc(i),
                 ("the new handle is used at %s before the creation status is checked" % ed3_viol[key]) if key in ed3_viol
                 else "creation status checked before the handle is used")
    if require_close:
        C.ob("ED-2", label, "checked-close", closed_all and n_exits > 0, f.where(),
             "every normal exit must be preceded by a fits_close_file whose status is checked (data reach the file when cfitsio flushes at close)"
             if not closed_all else "close executed and checked on every path to the normal exit")
        C.ob("ED-2", label, "guard-disarmed-before-the-close", not close_while_armed, sorted(close_while_armed)[0] if close_while_armed else f.where(),
             "the explicit fits_close_file runs with the closing guard already disarmed" if not close_while_armed else
             "fits_close_file is called while the closing guard still holds the handle: cfitsio releases the handle even when the close fails, so "
             "the exception for a failed close unwinds through the guard and closes the released handle again (use after free / double free inside cfitsio)")
        # armed guard at normal exit: its destructor closes and can only drop the status
        for gq, g in guards.items():
            fld = dtor_close_is_conditional(g)
            still = bool(armed_at_exit)
            ok = (fld is not None) and not still
            C.ob("ED-2", label, "guard-disarmed", ok, g.where(),
                 "the scope guard's destructor closes the file and discards the status; on the success path the guard must be disarmed "
                 "(handle field nulled, destructor's close conditional on it) so that the checked close is the one that runs. "
                 "close conditional on field: %s; guard still armed at a normal exit: %s" % (fld, still))
    return len(calls)


def _ordinal(f, i, calls):
    nm = cfits_name(f, i)
    same = sorted(j for j in calls if cfits_name(f, j) == nm)
    return same.index(i)


def run(P, C):
    C.rule("ED-1", "every cfitsio call on the write path: on every CFG path from the call to a normal exit of its function there is a branch "
           "on the status variable whose non-zero arm throws", floor=16)
    C.rule("ED-2", "write_fits / write_fits_mem reach their normal exit only through a fits_close_file whose status is checked, with the "
           "scope guard disarmed", floor=2)
    C.rule("ED-3", "fits_create_file / fits_create_memfile status is checked before the handle is used or handed to a guard", floor=2)
    total = 0
    for name in WRITERS:
        fs = [f for f in P.fns(name) if f.cls and "splinetable" in f.cls and f.unit == "driver"]
        if len(fs) != 1:
            raise core.AnalysisBroken("anchor %s: expected one instantiation in the driver unit, found %d" % (name, len(fs)))
        f = fs[0]
        total += analyse_function(P, C, f, name, require_close=(name != "write_fits_core"))
        # guard destructors of this writer: their own cfitsio calls
        for gq, g in guard_classes(P, f).items():
            fld = dtor_close_is_conditional(g)
            for i, cal in g.calls():
                if status_arg(g, i) is None or cal["name"] in REPORT_ONLY:
                    continue
                # inside the destructor the status can only be dropped; accepted iff the destructor's close is conditional
                # on the guard being armed (ED-2 checks that the success path disarms it): then it runs only during unwinding,
                # where a failure is already being reported.
                C.ob("ED-1", name, "%s@guard-dtor" % cfits_name(g, i), fld is not None, g.loc(i),
                     "close in the scope guard's destructor: status only printed. Accepted only if conditional on the guard being armed "
                     "(then it runs during unwinding only); conditional on: %s" % fld)
                total += 1
    return total


# --------------------------------------------------------------------------
# RH-1: an opened FITS handle is never abandoned (readers and the size model; the writers are covered by ED-2/ED-3)
# --------------------------------------------------------------------------
OPENERS = ("fits_open_file", "fits_open_diskfile", "fits_open_memfile", "fits_open_data", "fits_open_image", "fits_create_file", "fits_create_memfile")


def handle_states(P, f):
    """forward may-dataflow: set of states of the function's FITS handle
    none -> (open call) unchecked -> (status tested zero) open -> (guard constructed) guarded / (fits_close_file) closed;
    returns (number of open calls, [(node, what)] raising elements and returns reached with the handle open and nobody to close it)"""
    mt = P.maythrow()
    guards = guard_classes(P, f)
    opens = []
    status = {}

    def transfer(st, e, b, j):
        if e.get("kind") != "stmt":
            return st
        i = e["n"]
        n = f.nodes[i]
        cal = n.get("callee")
        if cal and cfits_name(f, i) in OPENERS:
            if i not in opens:
                opens.append(i)
            sv = status_arg(f, i)
            if sv is not None:
                status[i] = sv
            return frozenset({("unchecked", sv)})
        if cal and cfits_name(f, i) == CLOSE:
            return frozenset({("closed", None)})
        if n["k"] == "DeclStmt":
            for d in n["decls"]:
                t = d.get("type", "") or d.get("ctype", "")
                if any(t.endswith(g.split("::")[-1]) or g.split("::")[-1] in t for g in guards):
                    return frozenset({("guarded", None)})
        return st

    def edge(st, b, k, s, cond):
        if cond is None or cond < 0 or len(f.blocks[b]["succ"]) != 2:
            return st
        out = set()
        for (state, sv) in st:
            if state == "unchecked" and sv is not None and not isinstance(sv, tuple):
                z = is_zero_test(f, cond, sv)
                if z is not None:
                    nonzero_here = (z == "nonzero-when-true") == (k == 0)
                    out.add(("none", None) if nonzero_here else ("open", sv))
                    continue
            out.add((state, sv))
        return frozenset(out)

    IN, OUT = core.dataflow(f, frozenset({("none", None)}), transfer, lambda a, b: a | b, edge)
    bad = []
    for b, blk in f.blocks.items():
        if b not in IN:
            continue
        st = IN[b]
        for j, e in enumerate(blk["elems"]):
            if e.get("kind") == "stmt":
                i = e["n"]
                states = {s for s, _ in st}
                if "open" in states:
                    if f.k(i) == "ReturnStmt":
                        bad.append((i, "returns"))
                    elif P.node_may_throw(f, i, mt) and not P.contained(f, i, mt):
                        bad.append((i, "may raise (%s)" % f.k(i)))
            st = transfer(st, e, b, j)
    seen, res = set(), []
    for i, w in bad:
        key = str(f.nodes[i]["loc"])
        if key not in seen:
            seen.add(key)
            res.append((i, w))
    return len(opens), res


def rh1(P, C, floor=3):
    C.rule("RH-1", "from the moment a FITS handle is known to be open (open call's status tested zero) until a closing guard is constructed or "
           "fits_close_file is called, nothing may raise or return: otherwise the handle (and one of cfitsio's file slots) is leaked on that "
           "path; a failed open (status non-zero) leaves nothing to close", floor=floor)
    n = 0
    for f in sorted(P.functions.values(), key=lambda g: (g.file, g.line)):
        if f.unit not in ("driver", "core/fitsio", "tools/eval") and not f.unit.startswith("core/"):
            continue
        if not any(cal and cfits_name(f, i) in OPENERS for i, cal in f.calls()):
            continue
        no, bad = handle_states(P, f)
        n += 1
        from . import ts
        C.ob("RH-1", ts.fshort(f) if f.cls else f.name, "handle-not-abandoned", not bad, f.loc(bad[0][0]) if bad else f.where(),
             "%d open call(s); %s" % (no, "no raising element or return between a successful open and the construction of the closing guard / the close"
                                      if not bad else "%s at %s while the handle is open and nothing owns it" % (bad[0][1], ", ".join(f.loc(i) for i, _ in bad[:4]))))
    return n


# --------------------------------------------------------------------------
# ED-4: the status returned by the fitter's own routines is not dropped
# --------------------------------------------------------------------------
def status_functions(P):
    """functions of the C fitter whose int result is an error indicator: every return value is an integer constant, 0 on the normal
    path and non-zero somewhere (derived from the bodies, not listed by hand)"""
    out = {}
    for f in P.functions.values():
        if not f.unit.startswith("fitter/") or f.d.get("rtype") != "int":
            continue
        vals = []
        for r in f.walk():
            if f.k(r) == "ReturnStmt" and f.nodes[r].get("value", -1) >= 0:
                vals.append(f.nodes[f.strip(f.nodes[r]["value"])].get("cv"))
        if vals and all(v is not None for v in vals) and 0 in vals and any(v != 0 for v in vals):
            out[f.name] = sorted(set(vals))
    return out


def ed4(P, C, floor=4):
    C.rule("ED-4", "the int status returned by the fitter's own routines (those whose every return is an integer constant, 0 on success) is "
           "examined at every call site: the call is the operand of a comparison or its value is stored in a variable that a branch tests "
           "before the function's normal exit; a bare call statement drops the failure", floor=floor)
    sf = status_functions(P)
    if not sf:
        raise core.AnalysisBroken("ED-4: no status-returning fitter routine found")
    n = 0
    seen = set()
    for f in sorted(P.functions.values(), key=lambda g: (g.file, g.line)):
        if f.unit.startswith("selftest"):
            continue
        for i, cal in f.calls():
            if not cal or cal["name"] not in sf:
                continue
            key = (f.file, str(f.nodes[i]["loc"]), f.qname if f.unit != "driver-noevaltmpl" else "")
            if (f.file, str(f.nodes[i]["loc"]), f.name, f.unit) in seen:
                continue
            seen.add((f.file, str(f.nodes[i]["loc"]), f.name, f.unit))
            p = f.parent[i]
            while p >= 0 and f.k(p) in ("ImplicitCastExpr", "ParenExpr", "ExprWithCleanups"):
                p = f.parent[p]
            how = "dropped (bare call statement)"
            ok = False
            pk = f.k(p) if p >= 0 else None
            var = None
            if pk == "BinaryOperator" and f.nodes[p]["op"] in ("!=", "==", "<", ">"):
                ok, how = True, "compared directly"
            elif pk in ("IfStmt", "WhileStmt", "ConditionalOperator", "UnaryOperator"):
                ok, how = True, "tested directly"
            elif pk == "BinaryOperator" and f.nodes[p]["op"] == "=":
                t = f.strip(f.nodes[p]["ch"][0])
                var = f.nodes[t]["decl"]["id"] if f.k(t) == "DeclRefExpr" else None
            elif pk == "DeclStmt" or pk == "VarDecl":
                for d in f.nodes[p].get("decls", []):
                    if d.get("init", -1) >= 0 and i in set(f.walk(d["init"])):
                        var = d["id"]
            elif pk == "ReturnStmt":
                ok, how = True, "returned to the caller"
            if var is not None:
                tests = [x for x in f.walk() if f.k(x) in ("IfStmt", "WhileStmt") and
                         any(f.k(y) == "DeclRefExpr" and f.nodes[y]["decl"]["id"] == var for y in f.walk(f.nodes[x]["cond"])) and
                         f.nodes[x]["loc"] >= f.nodes[i]["loc"]]
                ok = bool(tests)
                how = "stored in %s and tested at %s" % (f.var_name(var), f.loc(tests[0])) if ok else "stored in %s, which no branch tests afterwards" % f.var_name(var)
            n += 1
            from . import ts
            C.ob("ED-4", ts.fshort(f) if f.cls else f.name, "%s#%d" % (cal["name"], len([k for k in seen if k[2] == f.name and k[3] == f.unit])), ok, f.loc(i),
                 "status of %s (returns %s) is %s" % (cal["name"], sf[cal["name"]], how))
    return n


def ed5(P, C, floor=1):
    C.rule("ED-5", "no catch handler on the write path absorbs a failure: every handler in write_fits, write_fits_mem and write_fits_core ends by "
           "re-raising (or raising) on every path, so a failure inside the writer core cannot turn into a normal return", floor=floor)
    mt = P.maythrow()
    n = 0
    for name in ("write_fits", "write_fits_mem", "write_fits_core"):
        fs_ = [g for g in P.fns(name) if g.unit == "driver" and "splinetable<" in g.qname]
        if not fs_:
            raise core.AnalysisBroken("ED-5: %s not found" % name)
        f = fs_[0]
        handlers = [i for i in f.walk() if f.k(i) == "CXXCatchStmt"]
        bad = [h for h in handlers if P.handler_swallows(f, h, mt)]
        n += len(handlers)
        C.ob("ED-5", name, "handlers-reraise", not bad, f.loc(bad[0]) if bad else f.where(),
             ("%d catch handler(s), each re-raises" % len(handlers)) if not bad else
             "the handler at %s can complete normally: a failure of the writer is absorbed and the function goes on to report success" % f.loc(bad[0]))
    if n < floor:
        raise core.AnalysisBroken("ED-5: no catch handler at all on the write path (expected the buffer-releasing handler of write_fits_mem)")


# --------------------------------------------------------------------------
# ENV-1: the library never changes the floating-point environment
# --------------------------------------------------------------------------
FPENV_CALLS = ("_mm_setcsr", "__builtin_ia32_ldmxcsr", "fesetenv", "fesetround", "feholdexcept", "feupdateenv", "fesetexceptflag",
               "_controlfp", "__control87_2", "_MM_SET_FLUSH_ZERO_MODE", "_MM_SET_DENORMALS_ZERO_MODE", "_MM_SET_ROUNDING_MODE")


def env1(P, C):
    C.rule("ENV-1", "no function of the library writes the floating-point control state (MXCSR flush-to-zero / denormals-are-zero bits, rounding "
           "mode, fenv): every comparison and every evaluation later on the same thread would silently change meaning (lookup of denormal "
           "coordinates, bit-identity between paths)", floor=1)
    hits = []
    nfun = 0
    for f in P.functions.values():
        if f.unit.startswith("selftest"):
            continue
        nfun += 1
        for i, cal in f.calls():
            if cal and (cal["name"] in FPENV_CALLS or (f.call_macro(i) or "") in FPENV_CALLS):
                hits.append((f, i, f.call_macro(i) or cal["name"]))
        for i in f.walk():
            if f.k(i) == "GCCAsmStmt" and any(s_ in f.render(i).lower() for s_ in ("ldmxcsr", "fldcw")):
                hits.append((f, i, "inline asm"))
    C.ob("ENV-1", "library", "fp-environment-untouched", not hits, hits[0][0].loc(hits[0][1]) if hits else "include/photospline",
         ("%d functions analysed, none writes the floating-point control state" % nfun) if not hits else
         "%s in %s changes the floating-point control state and nothing restores it" % (hits[0][2], hits[0][0].name))


def rh2(P, C):
    """RH-2: no failure is raised while fit holds a CHOLMOD workspace and the penalty matrix."""
    C.rule("RH-2", "fit starts a CHOLMOD workspace (cholmod_l_start), builds the penalty matrix in it and releases both (cholmod_l_free_sparse, "
           "cholmod_l_finish) before it reports the fitter's failure; in between there is no `throw` and no call to a function of the library "
           "that throws — every rejection of an argument happens before the workspace exists, otherwise the workspace and the matrix built "
           "so far are leaked each time the C wrapper returns non-zero", floor=2)
    from . import ts
    fs_ = [f for f in P.fns("fit") if f.cls == ts.CLS and f.unit == "driver"]
    if len(fs_) != 2:
        raise core.AnalysisBroken("RH-2: expected two instantiations of fit")
    mt = P.maythrow()
    for f in fs_:
        pos = f.node_positions()
        st = [i for i, cal in f.calls() if cal and cal["name"] == "cholmod_l_start" and i in pos]
        fi = [i for i, cal in f.calls() if cal and cal["name"] == "cholmod_l_finish" and i in pos]
        if len(st) != 1 or len(fi) != 1:
            C.ob("RH-2", ts.fshort(f), "workspace-bracket", False, f.where(), "expected one cholmod_l_start and one cholmod_l_finish, found %d / %d" % (len(st), len(fi)))
            continue
        ps, pe = pos[st[0]], pos[fi[0]]
        after_s = f.reachable_blocks(ps[0])
        after_e = f.reachable_blocks_from_succs(pe[0]) | {pe[0]}

        def inside(x):
            p = pos.get(x)
            while p is None and x >= 0:
                x = f.parent[x]
                p = pos.get(x)
            if p is None:
                return False
            if p[0] == ps[0] and p[1] <= ps[1]:
                return False
            if p[0] == pe[0]:
                return p[1] < pe[1]
            return p[0] in after_s and p[0] not in after_e
        bad = []
        for x in f.walk():
            n = f.nodes[x]
            if n["k"] == "CXXThrowExpr" and inside(x):
                bad.append((x, "throw"))
            cal = n.get("callee")
            if cal and cal.get("inRoots") and cal.get("usr") in mt and inside(x) and cal["name"] not in ("allocate",):
                g = P.functions.get(cal["usr"])
                if g is not None and any(g.k(y) == "CXXThrowExpr" for y in g.walk()):
                    bad.append((x, "call of %s, which throws" % cal["name"]))
        C.ob("RH-2", ts.fshort(f), "no-raise-inside-the-workspace", not bad, f.loc(bad[0][0]) if bad else f.loc(st[0]),
             "nothing is thrown between cholmod_l_start and cholmod_l_finish" if not bad else
             "%s at %s while the CHOLMOD workspace (and the penalty built so far) is held: they are never released on that path" % (bad[0][1], f.loc(bad[0][0])))


def ed6(P, C):
    """ED-6: no result of a C library I/O call on the write path is dropped."""
    C.rule("ED-6", "the writers examine the result of every C library call that moves, removes or flushes a file (rename, remove, unlink, fclose, "
           "fflush, fsync, link, truncate, ftruncate): a call whose value is discarded can fail — the file is then not where, or what, the "
           "caller was told — while the writer still reports success", floor=3)
    IO = ("rename", "remove", "unlink", "fclose", "fflush", "fsync", "fdatasync", "link", "symlink", "truncate", "ftruncate", "renameat", "close")
    fns = [g for g in P.functions.values() if g.name in ("write_fits", "write_fits_mem", "write_fits_core") and g.unit == "driver"]
    if len(fns) < 3:
        raise core.AnalysisBroken("ED-6: writers not found (%d)" % len(fns))
    for f in sorted(fns, key=lambda g: g.name):
        bad = []
        for i, cal in f.calls():
            if cal and cal["name"] in IO and cal.get("externC"):
                if f._value_unused(i):
                    bad.append(i)
                else:
                    # (void)rename(...) or a value stored and never looked at is not examined either; a value that reaches a branch is
                    p = f.parent[i]
                    while p >= 0 and f.k(p) in core.TRANSPARENT:
                        if f.k(p) == "CStyleCastExpr" and "void" in f.nodes[p].get("t", ""):
                            bad.append(i)
                        p = f.parent[p]
        C.ob("ED-6", f.name, "no-dropped-io-result", not bad, f.loc(bad[0]) if bad else f.where(),
             "no C library file operation with a discarded result" if not bad else
             "%s(...) at %s: its result is discarded; when it fails the writer still reports success although the file is not in place" % (f.nodes[bad[0]]["callee"]["name"], f.loc(bad[0])))


def ed7(P, C):
    """ED-7: a reported failure of the disk writer leaves no partial file behind."""
    C.rule("ED-7", "write_fits (disk) leaves no file behind when it reports a failure: the guard that releases the handle during unwinding does "
           "so with fits_delete_file (close AND remove), and the branch that reports a failed final close removes the file it created before "
           "it throws. A partial file can otherwise be structurally complete (one transient write error while cfitsio flushes shifts the later "
           "blocks) and load as a different table", floor=2)
    fs_ = [f for f in P.fns("write_fits") if f.cls and "splinetable" in f.cls and f.unit == "driver"]
    if len(fs_) != 1:
        raise core.AnalysisBroken("ED-7: write_fits not found")
    f = fs_[0]
    guards = guard_classes(P, f)
    if not guards:
        C.ob("ED-7", "write_fits", "guard-deletes", False, f.where(), "no closing guard at all")
    for gq, g in sorted(guards.items()):
        rel = [(i, cal["name"]) for i, cal in g.calls() if cal and cal["name"] in RELEASE]
        ok = bool(rel) and all(nm == DELETE for _, nm in rel)
        C.ob("ED-7", "write_fits", "guard-deletes", ok, g.loc(rel[0][0]) if rel else g.where(),
             "the unwinding guard releases the handle with fits_delete_file: the partial file goes with it" if ok else
             "the unwinding guard only closes the file (fits_close_file): what was written so far stays on disk under the caller's name after a reported failure")
    # the create call's path argument: the variables it is built from
    creates = [i for i, cal in f.calls() if cal and cal["name"] in CREATE]
    closes = [i for i, cal in f.calls() if cal and cal["name"] == CLOSE]
    if len(creates) != 1 or not closes:
        raise core.AnalysisBroken("ED-7: write_fits: create/close calls not found (%d/%d)" % (len(creates), len(closes)))
    pathvars = set(f.nodes[x]["decl"]["id"] for a in f.args(creates[0])[1:2] for x in f.walk(a) if f.k(x) == "DeclRefExpr" and f.nodes[x]["decl"].get("kind") in ("Var", "ParmVar"))
    RM = ("remove", "unlink", "unlinkat")

    def transfer(st, e, b, j):
        if e.get("kind") != "stmt":
            return st
        i = e["n"]
        n = f.nodes[i]
        cal = n.get("callee")
        if cal and cal["name"] == CLOSE:
            return frozenset({"closed"})
        if cal and cal["name"] in RM and "closed" in st:
            refs = set(f.nodes[x]["decl"]["id"] for a in f.args(i) for x in f.walk(a) if f.k(x) == "DeclRefExpr")
            if refs & pathvars:
                return frozenset(x for x in st if x != "closed") | {"removed"}
        return st
    IN, OUT = core.dataflow(f, frozenset({"pre"}), transfer, lambda a, b: a | b)
    bad = []
    for b, blk in f.blocks.items():
        if b not in IN:
            continue
        st = IN[b]
        for j, e in enumerate(blk["elems"]):
            if e.get("kind") == "stmt" and f.k(e["n"]) == "CXXThrowExpr" and "closed" in st:
                bad.append(e["n"])
            st = transfer(st, e, b, j)
    C.ob("ED-7", "write_fits", "failed-close-removes-the-file", not bad, f.loc(bad[0]) if bad else f.loc(closes[0]),
         "every throw after the explicit close is preceded by remove/unlink of the path handed to fits_create_file" if not bad else
         "the throw at %s reports a failed close (the handle is gone, the guard disarmed) and leaves the incomplete file on disk under the caller's name" % f.loc(bad[0]))


def ed8(P, C):
    """ED-8: the writer core produces the file front to back."""
    C.rule("ED-8", "write_fits_core writes the file front to back: the data unit of every image is written (fits_write_pix) before the next HDU is "
           "created or the function returns, and the writer never moves between HDUs (fits_movabs_hdu / movrel / movnam / delete_hdu). A data "
           "unit written after a later HDU exists lands in a region cfitsio has already extended and zero-filled: a crash in between leaves a "
           "structurally complete file whose coefficients (or knots) are zeros, which loads as a different table", floor=4)
    fs_ = [f for f in P.fns("write_fits_core") if f.cls and "splinetable" in f.cls and f.unit == "driver"]
    if len(fs_) != 1:
        raise core.AnalysisBroken("ED-8: write_fits_core not found")
    f = fs_[0]
    NAV = {"ffmahd": "fits_movabs_hdu", "ffmrhd": "fits_movrel_hdu", "ffmnhd": "fits_movnam_hdu", "ffdhdu": "fits_delete_hdu", "ffcrhd": "fits_create_hdu",
           "ffiimg": "fits_insert_img", "ffrsim": "fits_resize_img"}
    nav = [(i, cal["name"]) for i, cal in f.calls() if cal and cal["name"] in NAV]
    C.ob("ED-8", "write_fits_core", "no-hdu-navigation", not nav, f.loc(nav[0][0]) if nav else f.where(),
         "the writer only ever appends" if not nav else
         "%s at %s: the writer goes back to (or reshapes) an HDU it left; what it writes there lands before data that are already in the file" % (NAV[nav[0][1]], f.loc(nav[0][0])))
    creates = [i for i, cal in f.calls() if cal and cal["name"] == "ffcrim"]
    if len(creates) < 3:
        raise core.AnalysisBroken("ED-8: expected the three fits_create_img calls of the writer, found %d" % len(creates))

    def transfer(st, e, b, j):
        if e.get("kind") != "stmt":
            return st
        i = e["n"]
        cal = f.nodes[i].get("callee")
        if cal and cal["name"] == "ffcrim":
            return frozenset({i})
        if cal and cal["name"] == "ffppx":
            return frozenset()
        if f.k(i) == "CXXThrowExpr":
            return frozenset()
        return st
    IN, OUT = core.dataflow(f, frozenset(), transfer, lambda a, b: a | b)
    late = {}
    for b, blk in f.blocks.items():
        if b not in IN:
            continue
        st = IN[b]
        for j, e in enumerate(blk["elems"]):
            if e.get("kind") == "stmt":
                cal = f.nodes[e["n"]].get("callee")
                if cal and cal["name"] == "ffcrim":
                    for c in st:
                        late.setdefault(c, e["n"])
            st = transfer(st, e, b, j)
    for c in IN.get(f.cfg["exit"], frozenset()):
        late.setdefault(c, -1)
    for k, c in enumerate(sorted(creates, key=f.seq)):
        ok = c not in late
        C.ob("ED-8", "write_fits_core", "data-before-next-hdu:image#%d" % k, ok, f.loc(c),
             "fits_write_pix follows on every path before the next fits_create_img / the return" if ok else
             "the image created at %s has no data written when %s: its data unit is filled in later (or never), behind HDUs that already follow it" %
             (f.loc(c), ("the next HDU is created at " + f.loc(late[c])) if late[c] >= 0 else "the writer returns"))
