"""FS — FITS writer/reader schema and type-code agreement (serves C06).

FS-1 schema agreement (names, HDU kinds, axis reversal) between write_fits_core, read_fits_core/readOrder/estimateMemory and the documented layout
FS-2 cfitsio datatype code vs buffer element type, writer vs reader, BITPIX vs element type
FS-3 no null substitution on reading
"""
import re

from .. import core
from . import ts

TYPECODES = {16: ("TSTRING", "char", 1, "s"), 30: ("TUINT", "unsigned int", 4, "u"), 31: ("TINT", "int", 4, "i"),
             42: ("TFLOAT", "float", 4, "f"), 82: ("TDOUBLE", "double", 8, "f"), 41: ("TLONG", "long", 8, "i")}
BITPIX = {-32: ("FLOAT_IMG", "float"), -64: ("DOUBLE_IMG", "double")}
IMAGE_HDU = 0

# the documented layout (the oracle): what an independent reader/writer expects
DOC = {
    "primary": ("FLOAT_IMG", "coefficients, axes reversed"),
    "keys": {"ORDER%d": "i/u", "PERIOD%d": "f", "TYPE": "s"},
    "extensions": {"KNOTS%d": "DOUBLE_IMG", "EXTENTS": "DOUBLE_IMG"},
}


def elem_type(f, i):
    """pointee type of a buffer argument"""
    i = f.strip(i, casts=False)
    n = f.nodes[i]
    # explicit casts to void* hide the type: look through
    j = f.strip(i)
    t = f.nodes[j].get("ct", f.nodes[j].get("t", ""))
    if f.k(j) == "UnaryOperator" and f.nodes[j]["op"] == "&":
        inner = f.strip(f.ch(j)[0])
        t = f.nodes[inner].get("ct", f.nodes[inner].get("t", "")) + " *"
    t = t.replace("const ", "").strip()
    if t.endswith("*"):
        t = t[:-1].strip()
    m = re.match(r"(.+)\[\d+\]$", t)
    if m:
        t = m.group(1).strip()
    return t


def name_of(f, i, fmts):
    """keyword / extension name passed to cfitsio: literal, or the format of the nearest preceding snprintf / ostringstream pattern."""
    j = f.strip(i)
    n = f.nodes[j]
    if n["k"] == "StringLiteral":
        return n["v"]
    if n["k"] == "DeclRefExpr":
        vid = n["decl"]["id"]
        if vid in fmts:
            cands = [(k, fm) for (k, fm) in fmts[vid] if f.seq(k) < f.seq(i)]
            if cands:
                return cands[-1][1]
        # const char name[] = "EXTENTS"
        for d in f.walk():
            if f.k(d) == "DeclStmt":
                for dd in f.nodes[d]["decls"]:
                    if dd.get("id") == vid and dd.get("init", -1) >= 0 and f.k(f.strip(dd["init"])) == "StringLiteral":
                        return f.nodes[f.strip(dd["init"])]["v"]
    # (void*)&typeString / &extName
    for x in f.walk(j):
        if f.k(x) == "DeclRefExpr":
            r = name_of(f, x, fmts) if x != j else None
            if r:
                return r
    # ss.str().c_str() with ss << "ORDER" << i
    for x in f.walk(j):
        if f.k(x) == "DeclRefExpr" and "ostringstream" in f.nodes[x]["decl"]["type"]:
            vid = f.nodes[x]["decl"]["id"]
            if vid in fmts:
                return fmts[vid][-1][1]
    return None


def stream_formats(f):
    """ostringstream variables: `ss << "ORDER" << i` -> "ORDER%d"; snprintf(buf, n, "ORDER%d", i)."""
    fmts = {}
    for i, cal in f.calls():
        if cal and cal["name"] == "snprintf":
            a = f.args(i)
            dst = f.strip(a[0])
            fmt, _rest = core.printf_format(f, i)
            if fmt is not None and f.k(dst) == "DeclRefExpr":
                fmts.setdefault(f.nodes[dst]["decl"]["id"], []).append((i, fmt))
    for i in f.walk():
        n = f.nodes[i]
        if n["k"] == "CXXOperatorCallExpr" and n.get("opcall") == "<<":
            par = f.parent[i]
            while par >= 0 and f.k(par) in core.IMPLICIT_ONLY:
                par = f.parent[par]
            if par >= 0 and f.k(par) == "CXXOperatorCallExpr" and f.nodes[par].get("opcall") == "<<":
                continue    # not the outermost <<
            parts = []
            x = i
            base = None
            while f.k(x) == "CXXOperatorCallExpr" and f.nodes[x].get("opcall") == "<<":
                parts.insert(0, f.nodes[x]["ch"][2])
                x = f.strip(f.nodes[x]["ch"][1])
            if f.k(x) == "DeclRefExpr" and "ostringstream" in f.nodes[x]["decl"]["type"]:
                s = ""
                for p in parts:
                    p = f.strip(p)
                    s += f.nodes[p]["v"] if f.k(p) == "StringLiteral" else "%d"
                fmts.setdefault(f.nodes[x]["decl"]["id"], []).append((i, s))
    return fmts


def cfits_calls(f):
    out = []
    fmts = stream_formats(f)
    for i, cal in f.calls():
        if not cal or not cal.get("externC") or cal.get("inRoots") or not cal["name"].startswith("ff"):
            continue
        out.append((i, cal["name"], f.call_macro(i) or cal["name"]))
    return out, fmts


def writer_schema(P):
    f = [g for g in P.fns("write_fits_core") if g.unit == "driver"][0]
    calls, fmts = cfits_calls(f)
    items = []
    cur_hdu = None
    for (i, nm, macro) in calls:
        a = f.args(i)
        if nm == "ffcrim":      # fits_create_img(fits, bitpix, naxis, naxes, status)
            cur_hdu = dict(kind="image", bitpix=f.nodes[f.strip(a[1])].get("cv"), naxis=f.render(a[2]).replace("this->", ""), node=i, name=None, pix=None)
            items.append(cur_hdu)
        elif nm == "ffmahd":    # fits_movabs_hdu(fits, hdunum, exttype, status): data may be written after going back to an HDU created earlier
            k = f.nodes[f.strip(a[1])].get("cv")
            hd = [x for x in items if x["kind"] == "image"]
            if k is None or not (1 <= k <= len(hd)):
                raise core.AnalysisBroken("writer schema: fits_movabs_hdu to an HDU that cannot be resolved (%s)" % f.render(a[1]))
            cur_hdu = hd[k - 1]
        elif nm == "ffppx":     # fits_write_pix(fits, datatype, firstpix, nelem, array, status)
            cur_hdu["pix"] = dict(code=f.nodes[f.strip(a[1])].get("cv"), elem=elem_type(f, a[4]), buf=f.render(a[4]).replace("this->", ""), node=i)
        elif nm in ("ffpky", "ffuky"):   # fits_write_key / fits_update_key (fits, datatype, keyname, value, comm, status)
            key = name_of(f, a[2], fmts)
            code = f.nodes[f.strip(a[1])].get("cv")
            if key == "EXTNAME":
                cur_hdu["name"] = name_of(f, a[3], fmts)
            else:
                items.append(dict(kind="key", key=key, code=code, elem=elem_type(f, a[3]), node=i,
                                  aux="aux[" in f.render(a[2])))
    return f, items


def reader_schema(P):
    f = [g for g in P.fns("read_fits_core") if g.unit == "driver"][0]
    calls, fmts = cfits_calls(f)
    items = []
    cur = "primary"
    for (i, nm, macro) in calls:
        a = f.args(i)
        if nm == "ffmnhd":      # fits_movnam_hdu(fits, hdutype, extname, extver, status)
            cur = name_of(f, a[2], fmts)
            items.append(dict(kind="move", hdutype=f.nodes[f.strip(a[1])].get("cv"), name=cur, node=i))
        elif nm == "ffgpxv":    # fits_read_pix(fits, datatype, firstpix, nelem, nulval, array, anynul, status)
            items.append(dict(kind="pix", hdu=cur, code=f.nodes[f.strip(a[1])].get("cv"), elem=elem_type(f, a[5]),
                              nulval=ts.is_null(f, a[4]), anynul=ts.is_null(f, a[6]), node=i, buf=f.render(a[5]).replace("this->", "")))
        elif nm == "ffgky":     # fits_read_key(fits, datatype, keyname, value, comm, status)
            items.append(dict(kind="key", key=name_of(f, a[2], fmts), code=f.nodes[f.strip(a[1])].get("cv"), elem=elem_type(f, a[3]), node=i))
    return f, items


def run(P, C):
    C.rule("FS-1", "writer, reader and the documented layout agree as schemas: primary FLOAT image with reversed axes, TYPE/ORDERn/PERIODn keys, one "
           "DOUBLE image extension KNOTSn per dimension, one DOUBLE image extension EXTENTS of 2*ndim; every item the reader looks up is written "
           "under the same name pattern and HDU kind; axis reversal on both sides", floor=10)
    C.rule("FS-2", "for every cfitsio transfer the datatype code matches the buffer's element type (size and integer/float class), writer and reader "
           "use codes of the same size and class for the same item, and each image's BITPIX matches the element type written", floor=10)
    C.rule("FS-3", "every fits_read_pix passes null nulval and anynul (no value substitution: NaN and infinities come back as stored)", floor=3)
    wf, W = writer_schema(P)
    rf, R = reader_schema(P)
    imgs = [x for x in W if x["kind"] == "image"]
    keys = [x for x in W if x["kind"] == "key" and not x["aux"]]
    if len(imgs) != 3 or len(keys) < 3:
        raise core.AnalysisBroken("writer schema: %d images, %d keys" % (len(imgs), len(keys)))
    # ---- FS-1 writer vs documented layout
    prim = imgs[0]
    C.ob("FS-1", "write_fits_core", "primary-image", prim["bitpix"] == -32 and prim["naxis"] == "ndim" and prim["name"] is None, wf.loc(prim["node"]),
         "primary HDU is a FLOAT_IMG with ndim axes: bitpix=%s naxis=%s" % (prim["bitpix"], prim["naxis"]))
    # axis reversal in the writer: local naxes[i] = this->naxes[ndim - i - 1]
    rev = [wf.render(i).replace("this->", "").replace(" ", "") for i in wf.walk() if ts.assign_parts(wf, i) and wf.render(ts.assign_parts(wf, i)[0]).startswith("naxes[")]
    okr = any(re.fullmatch(r"\(naxes\[(\w+)\]=naxes\[\(\(ndim-\1\)-1\)\]\)", t) for t in rev)
    C.ob("FS-1", "write_fits_core", "axis-reversal", okr, wf.where(), "image axes are written in reverse order: %s" % rev)
    for pat, cls in DOC["keys"].items():
        k = next((x for x in keys if x["key"] == pat), None)
        C.ob("FS-1", "write_fits_core", "key:" + pat, k is not None and TYPECODES.get(k["code"], (0, 0, 0, "?"))[3] in cls.split("/"), wf.loc(k["node"]) if k else wf.where(),
             "key %s written with datatype %s" % (pat, TYPECODES.get(k["code"], ("?",))[0] if k else None))
    for pat, bp in DOC["extensions"].items():
        e = next((x for x in imgs[1:] if x["name"] == pat), None)
        ok = e is not None and BITPIX.get(e["bitpix"], ("?",))[0] == bp
        if ok and pat == "EXTENTS":
            axis = [wf.render(d["init"]).replace("this->", "").replace(" ", "") for x in wf.walk() if wf.k(x) == "DeclStmt" for d in wf.nodes[x]["decls"]
                    if d.get("name") == "axis" and d.get("init", -1) >= 0]
            ok = "(ndim*2)" in axis or "(2*ndim)" in axis
        C.ob("FS-1", "write_fits_core", "extension:" + pat, ok, wf.loc(e["node"]) if e else wf.where(),
             "extension %s is a %s named through EXTNAME" % (pat, BITPIX.get(e["bitpix"], ("?",))[0] if e else None))
    # ---- FS-1 reader vs writer
    for m in [x for x in R if x["kind"] == "move"]:
        e = next((x for x in imgs[1:] if x["name"] == m["name"]), None)
        C.ob("FS-1", "read_fits_core", "lookup:" + str(m["name"]), e is not None and m["hdutype"] == IMAGE_HDU, rf.loc(m["node"]),
             "reader moves to IMAGE extension %s; the writer %s" % (m["name"], "creates it" if e else "never writes an extension of that name"))
    for k in [x for x in R if x["kind"] == "key"]:
        w = next((x for x in keys if x["key"] == k["key"]), None)
        legacy = k["key"] == "ORDER"
        C.ob("FS-1", "read_fits_core", "key:" + str(k["key"]), w is not None or legacy, rf.loc(k["node"]),
             "reader looks up key %s; %s" % (k["key"], "legacy single-order files only (the writer always writes ORDERn)" if legacy and w is None else
                                              ("written by the writer" if w else "never written by the writer")))
    rrev = [rf.render(i).replace("this->", "").replace(" ", "") for i, cal in rf.calls() if cal and cal["name"] == "copy" and "rbegin" in rf.render(i)]
    C.ob("FS-1", "read_fits_core", "axis-reversal", rrev == ["copy(naxes_temp.rbegin(),naxes_temp.rend(),naxes)"], rf.where(),
         "image axes are reversed back on reading: %s" % rrev)
    # readOrder and estimateMemory use the same names
    for fn in ("readOrder", "estimateMemory"):
        g = [x for x in P.fns(fn) if x.unit in ("driver", "core/fitsio")]
        if not g:
            raise core.AnalysisBroken("%s not found" % fn)
        g = g[0]
        calls, fmts = cfits_calls(g)
        names = set()
        for (i, nm, macro) in calls:
            a = g.args(i)
            if nm == "ffgky":
                names.add(name_of(g, a[2], fmts))
            if nm == "ffmnhd":
                names.add(name_of(g, a[2], fmts))
        known = set(x["key"] for x in keys) | set(x["name"] for x in imgs[1:]) | {"ORDER"}
        C.ob("FS-1", fn, "names", bool(names) and names <= known, g.where(), "%s looks up %s; the writer provides %s" % (fn, sorted(names), sorted(known)))
    # ---- FS-2
    def code_ok(code, elem):
        tc = TYPECODES.get(code)
        if not tc:
            return False, "unknown datatype code %s" % code
        size = {"float": 4, "double": 8, "int": 4, "unsigned int": 4, "uint32_t": 4, "char": 1, "char *": 1, "long": 8}.get(elem)
        cls = {"float": "f", "double": "f", "int": "i", "unsigned int": "u", "uint32_t": "u", "char": "s", "long": "i"}.get(elem)
        if tc[3] == "s":
            return elem in ("char", "char *"), "%s with %s" % (tc[0], elem)
        intclass = cls in ("i", "u") and tc[3] in ("i", "u")
        return size == tc[2] and (cls == tc[3] or intclass), "%s (%d bytes) with %s (%s bytes)" % (tc[0], tc[2], elem, size)
    for e in imgs:
        p = e["pix"]
        ok, det = code_ok(p["code"], p["elem"]) if p else (False, "image without data")
        okb = p is not None and BITPIX.get(e["bitpix"], (0, None))[1] == p["elem"]
        C.ob("FS-2", "write_fits_core", "pix:" + str(e["name"] or "primary"), ok and okb, wf.loc(e["node"]),
             "image %s: BITPIX %s, written as %s from %s" % (e["name"] or "primary", BITPIX.get(e["bitpix"], ("?",))[0], det, p["buf"] if p else None))
    for k in keys + [x for x in W if x["kind"] == "key" and x["aux"]]:
        ok, det = code_ok(k["code"], k["elem"])
        C.ob("FS-2", "write_fits_core", "key:" + str(k["key"] if not k["aux"] else "aux"), ok, wf.loc(k["node"]), "key written as %s" % det)
    for r in [x for x in R if x["kind"] == "pix"]:
        ok, det = code_ok(r["code"], r["elem"])
        w = next((e for e in imgs if (e["name"] or "primary") == r["hdu"]), None)
        same = w is not None and w["pix"] and TYPECODES.get(w["pix"]["code"], (0, 0, 0))[2] == TYPECODES.get(r["code"], (0, 0, 1))[2] and w["pix"]["elem"] == r["elem"]
        C.ob("FS-2", "read_fits_core", "pix:" + str(r["hdu"]), ok and same, rf.loc(r["node"]),
             "HDU %s read as %s into %s; written as %s" % (r["hdu"], det, r["buf"], TYPECODES.get(w["pix"]["code"], ("?",))[0] if w and w["pix"] else None))
    for k in [x for x in R if x["kind"] == "key"]:
        ok, det = code_ok(k["code"], k["elem"])
        w = next((x for x in keys if x["key"] == k["key"]), None)
        same = w is None or (TYPECODES[w["code"]][2] == TYPECODES.get(k["code"], (0, 0, 0))[2] and (TYPECODES[w["code"]][3] in "iu") == (TYPECODES.get(k["code"], (0, 0, 0, "?"))[3] in "iu"))
        C.ob("FS-2", "read_fits_core", "key:" + str(k["key"]), ok and same, rf.loc(k["node"]), "key read as %s; written as %s" % (det, TYPECODES[w["code"]][0] if w else "(legacy)"))
    # ---- FS-3
    for r in [x for x in R if x["kind"] == "pix"]:
        C.ob("FS-3", "read_fits_core", "nulls:" + str(r["hdu"]), r["nulval"] and r["anynul"], rf.loc(r["node"]),
             "fits_read_pix for %s passes nulval=%s anynul=%s (must both be NULL, otherwise cfitsio substitutes special values)" % (r["hdu"], "NULL" if r["nulval"] else "non-null", "NULL" if r["anynul"] else "non-null"))
    # equality operator covers what evaluation depends on
    eq = [g for g in P.fns("operator==") if g.cls == ts.CLS and g.unit == "driver"]
    if eq:
        g = eq[0]
        cmp_members = set()
        for i in g.walk():
            if g.k(i) == "MemberExpr" and g.nodes[i].get("fieldOf", "").startswith("photospline::splinetable<"):
                cmp_members.add(g.nodes[i]["member"])
        need = {"ndim", "order", "naxes", "nknots", "knots", "coefficients"}
        C.ob("FS-1", "operator==", "compares", need <= cmp_members, g.where(), "equality compares %s (required %s)" % (sorted(cmp_members), sorted(need)))


def fs6(P, C):
    C.rule("FS-6", "the disk and the memory back ends share one writer core and one reader core (write_fits / write_fits_mem both call "
           "write_fits_core exactly once, read_fits / read_fits_mem both call read_fits_core exactly once, and nothing else in them touches the table)", floor=4)
    for outer, corefn in (("write_fits", "write_fits_core"), ("write_fits_mem", "write_fits_core"), ("read_fits", "read_fits_core"), ("read_fits_mem", "read_fits_core")):
        fs_ = [g for g in P.fns(outer) if g.cls == ts.CLS and g.unit == "driver"]
        if len(fs_) != 1:
            raise core.AnalysisBroken("%s: expected one instantiation" % outer)
        g = fs_[0]
        calls = [i for i, cal in g.calls() if cal and cal["name"] == corefn]
        other = [cal["name"] for i, cal in g.calls() if cal and cal.get("cls", "").startswith("photospline::splinetable<") and cal["name"] not in (corefn, "clear")]
        writes = [x for x in g.walk() if ts.member_writes(g, x)]
        C.ob("FS-6", outer, "shares-core", len(calls) == 1 and not other and not writes, g.where(),
             "%s calls %s %d time(s); other table members called: %s; direct member writes: %d" % (outer, corefn, len(calls), other, len(writes)))


def fs7(P, C):
    C.rule("FS-7", "element counts of every pixel transfer equal the size of the array transferred: product of the axes for the coefficients, "
           "nknots[i] for knot vector i (the same variable sizes the image), 2*ndim for the extents; the reader sizes its arrays from the image "
           "sizes it read and insists on 2*ndim extents", floor=6)
    wf = [g for g in P.fns("write_fits_core") if g.unit == "driver"][0]
    rf = [g for g in P.fns("read_fits_core") if g.unit == "driver"][0]

    def norm(f, i):
        return re.sub(r"\[[A-Za-z_]\w*\]", "[#]", f.render(i).replace("this->", "").replace(" ", ""))

    def defs_of(f, vid):
        """all defining expressions of local `vid` (initialiser and assignments), rendered with locals alpha-renamed"""
        out = []
        for i in f.walk():
            if f.k(i) == "DeclStmt":
                for dd in f.nodes[i]["decls"]:
                    if dd.get("id") == vid and dd.get("init", -1) >= 0:
                        out.append(("init", dd["init"]))
            ap = ts.assign_parts(f, i)
            if ap and ap[1] is not None and f.k(f.strip(ap[0])) == "DeclRefExpr" and f.nodes[f.strip(ap[0])]["decl"].get("id") == vid:
                out.append((f.nodes[i].get("op", "="), ap[1]))
        return out

    def var_id(f, i):
        j = f.strip(i)
        if f.k(j) == "UnaryOperator" and f.nodes[j]["op"] == "&":
            j = f.strip(f.ch(j)[0])
        return f.nodes[j]["decl"]["id"] if f.k(j) == "DeclRefExpr" and f.nodes[j]["decl"]["kind"] == "Var" else None

    wcalls, _ = cfits_calls(wf)
    imgs = []
    for (i, nm, macro) in wcalls:
        a = wf.args(i)
        if nm == "ffcrim":
            imgs.append(dict(axes=a[3], naxis=norm(wf, a[2]), pix=None, node=i))
            cur = imgs[-1]
        elif nm == "ffmahd":
            k = wf.nodes[wf.strip(a[1])].get("cv")
            if k is None or not (1 <= k <= len(imgs)):
                raise core.AnalysisBroken("FS-7: fits_movabs_hdu to an HDU that cannot be resolved (%s)" % wf.render(a[1]))
            cur = imgs[k - 1]
        elif nm == "ffppx":
            cur["pix"] = (a[3], norm(wf, a[4]), i)
    if len(imgs) != 3 or any(im["pix"] is None for im in imgs):
        raise core.AnalysisBroken("FS-7: writer images %d" % len(imgs))

    def coeff_ok(im):
        vid = var_id(wf, im["pix"][0])
        ds = defs_of(wf, vid) if vid is not None else []
        has_one = any(k == "init" and wf.nodes[wf.strip(e)].get("cv") == 1 for k, e in ds)
        prod = False
        for k, e in ds:
            if k == "*=":
                # multiplied by each entry of the local axis list, which is filled from the member naxes
                b = wf.strip(e)
                arr = None
                if wf.k(b) == "CXXOperatorCallExpr" and wf.nodes[b].get("opcall") == "[]":
                    arr = var_id(wf, wf.nodes[b]["ch"][1])
                src = [x for x in wf.walk() if ts.assign_parts(wf, x) and ts.assign_parts(wf, x)[1] is not None and
                       wf.k(wf.strip(ts.assign_parts(wf, x)[0])) == "CXXOperatorCallExpr" and var_id(wf, wf.nodes[wf.strip(ts.assign_parts(wf, x)[0])]["ch"][1]) == arr
                       and ts.root_member(wf, ts.assign_parts(wf, x)[1]) and ts.root_member(wf, ts.assign_parts(wf, x)[1])[0] == "naxes"]
                prod = arr is not None and bool(src) and arr == var_id_of_get(wf, im["axes"])
        return im["naxis"] == "ndim" and has_one and prod

    def var_id_of_get(f, i):
        for x in f.walk(i):
            if f.k(x) == "DeclRefExpr" and f.nodes[x]["decl"]["kind"] == "Var":
                return f.nodes[x]["decl"]["id"]
        return None

    def vec_ok(im, member, count_defs):
        vid = var_id(wf, im["pix"][0])
        same = vid is not None and vid == var_id(wf, im["axes"])
        ds = [norm(wf, e) for k, e in defs_of(wf, vid)] if vid is not None else []
        return im["naxis"] == "1" and same and im["pix"][1] == member and any(d in count_defs for d in ds)
    C.ob("FS-7", "write_fits_core", "count:coefficients", coeff_ok(imgs[0]), wf.loc(imgs[0]["node"]),
         "the coefficient image has ndim axes taken from naxes and the number of values written is their product")
    C.ob("FS-7", "write_fits_core", "count:knots", vec_ok(imgs[1], "knots[#]", ("nknots[#]",)), wf.loc(imgs[1]["node"]),
         "knot image i has one axis of nknots[i] and exactly that many values are written from knots[i]")
    C.ob("FS-7", "write_fits_core", "count:extents", vec_ok(imgs[2], "extents[0]", ("(ndim*2)", "(2*ndim)")), wf.loc(imgs[2]["node"]),
         "the extents image has one axis of 2*ndim and exactly that many values are written from extents[0]")
    rcalls, _ = cfits_calls(rf)
    reads = [(i, rf.args(i)[3], norm(rf, rf.args(i)[5])) for (i, nm, m) in rcalls if nm == "ffgpxv"]
    if len(reads) != 3:
        raise core.AnalysisBroken("FS-7: reader pixel reads %d" % len(reads))
    # coefficients
    i, cnt, buf = reads[0]
    vid = var_id(rf, cnt)
    ds = [norm(rf, e) for k, e in defs_of(rf, vid)] if vid is not None else []
    alloc = [norm(rf, x) for x in rf.walk() if ts.assign_parts(rf, x) and norm(rf, ts.assign_parts(rf, x)[0]) == "coefficients"]
    C.ob("FS-7", "read_fits_core", "count:coefficients", ds == ["(strides[0]*naxes[0])"] and buf == "(&coefficients[0])" and bool(alloc) and
         var_id_of_get(rf, rf.args(rf.strip(ts.assign_parts(rf, [x for x in rf.walk() if ts.assign_parts(rf, x) and norm(rf, ts.assign_parts(rf, x)[0]) == "coefficients"][0])[1]))[0]) == vid,
         rf.loc(i), "the number of coefficients read equals the number allocated, strides[0]*naxes[0]: %s" % ds)
    i, cnt, buf = reads[1]
    sized = [norm(rf, x) for x in rf.walk() if ts.assign_parts(rf, x) and norm(rf, ts.assign_parts(rf, x)[0]) == "nknots[#]"]
    src = None
    for x in rf.walk():
        ap = ts.assign_parts(rf, x)
        if ap and ap[1] is not None and norm(rf, ap[0]) == "nknots[#]":
            src = var_id(rf, ap[1])
    szcall = [j for (j, nm, m) in rcalls if nm == "ffgisz" and src is not None and var_id(rf, rf.args(j)[2]) == src]
    C.ob("FS-7", "read_fits_core", "count:knots", norm(rf, cnt) == "nknots[#]" and buf == "(&knots[#][0])" and bool(szcall), rf.loc(i),
         "nknots[i] is the size of the image just located (fits_get_img_size) and that many knots are read into knots[i]")
    i, cnt, buf = reads[2]
    vid = var_id(rf, cnt)
    guard = False
    for x in rf.walk():
        if rf.k(x) == "IfStmt":
            # the size test may share its `if` with other reasons to fall back to the defaults (a disjunction)
            conn, leaves = core.cond_leaves(rf, rf.nodes[x]["cond"])
            if conn not in ("||", "leaf"):
                continue
            for lf in leaves:
                rc = core.rel_canon(rf, lf, None)
                if rc and rc[1] == "!=0" and vid is not None:
                    nm_ = rf.var_name(vid)
                    if rc[0] == core.eq_norm(core.Poly.atom(nm_) - core.Poly({("ndim",): 2})) or rc[0] == core.eq_norm(core.Poly.atom(nm_) - core.Poly({("this->ndim",): 2})):
                        guard = True
    szcall = [j for (j, nm, m) in rcalls if nm == "ffgisz" and vid is not None and var_id(rf, rf.args(j)[2]) == vid]
    C.ob("FS-7", "read_fits_core", "count:extents", guard and bool(szcall) and buf == "(&extents[0][0])", rf.loc(i),
         "the extents are read only when the image holds exactly 2*ndim values (size from fits_get_img_size; otherwise defaults are made up)")


# --------------------------------------------------------------------------
# FS-8: a name formatted with an index and the data moved under that name use the same index
# --------------------------------------------------------------------------
def _format_index_vars(f):
    """stream / buffer variable -> [(position node, decl id of the variable formatted into the name)]"""
    out = {}
    for i, cal in f.calls():
        if cal and cal["name"] == "snprintf":
            a = f.args(i)
            dst = f.strip(a[0])
            _fmt, rest = core.printf_format(f, i)
            if f.k(dst) == "DeclRefExpr" and len(rest) == 1:
                v = f.strip(rest[0])
                if f.k(v) == "DeclRefExpr":
                    out.setdefault(f.nodes[dst]["decl"]["id"], []).append((i, f.nodes[v]["decl"]["id"]))
    for i in f.walk():
        n = f.nodes[i]
        if n["k"] == "CXXOperatorCallExpr" and n.get("opcall") == "<<":
            par = f.parent[i]
            while par >= 0 and f.k(par) in core.IMPLICIT_ONLY:
                par = f.parent[par]
            if par >= 0 and f.k(par) == "CXXOperatorCallExpr" and f.nodes[par].get("opcall") == "<<":
                continue
            parts, x = [], i
            while f.k(x) == "CXXOperatorCallExpr" and f.nodes[x].get("opcall") == "<<":
                parts.insert(0, f.nodes[x]["ch"][2])
                x = f.strip(f.nodes[x]["ch"][1])
            if f.k(x) == "DeclRefExpr" and "ostringstream" in f.nodes[x]["decl"]["type"]:
                vs = [f.nodes[f.strip(p)]["decl"]["id"] for p in parts if f.k(f.strip(p)) == "DeclRefExpr"]
                if len(vs) == 1:
                    out.setdefault(f.nodes[x]["decl"]["id"], []).append((i, vs[0]))
    return out


def _name_index(f, arg, fiv):
    """decl id of the variable formatted into the name passed as `arg` (nearest preceding format of the stream / buffer it mentions)"""
    for x in f.walk(arg):
        if f.k(x) == "DeclRefExpr" and f.nodes[x]["decl"]["id"] in fiv:
            c = sorted(((k, v) for (k, v) in fiv[f.nodes[x]["decl"]["id"]] if f.seq(k) < f.seq(arg)), key=lambda kv: f.seq(kv[0]))
            if c:
                return c[-1][1]
    return None


def _data_index(f, arg):
    """decl id of the subscript variable of the data argument: &order[i], knots[i], &periods[i]"""
    x = f.strip(arg)
    if f.k(x) == "UnaryOperator" and f.nodes[x]["op"] == "&":
        x = f.strip(f.nodes[x]["ch"][0])
    while f.k(x) in ("ArraySubscriptExpr", "CXXOperatorCallExpr"):
        ch = f.nodes[x]["ch"]
        idx = f.strip(ch[-1])
        base = f.strip(ch[-2])
        if f.k(idx) == "DeclRefExpr":
            return f.nodes[idx]["decl"]["id"], f.render(x).replace("this->", "")
        if f.nodes[idx].get("cv") is not None:
            x = base
            continue
        return ("expr", f.render(idx)), f.render(x).replace("this->", "")
    return None, f.render(x)


def fs8(P, C, floor=7):
    C.rule("FS-8", "wherever a keyword or extension name is formatted with an index (ORDERn, PERIODn, KNOTSn) the value moved under that name is "
           "the element with the same index: in the writer, the reader, readOrder and estimateMemory the variable formatted into the name is the "
           "variable that subscripts the data argument (or, for an HDU move, the data accesses up to the next move)", floor=floor)
    fns = [("write_fits_core", [g for g in P.fns("write_fits_core") if g.unit == "driver"]),
           ("read_fits_core", [g for g in P.fns("read_fits_core") if g.unit == "driver"]),
           ("readOrder", [g for g in P.fns("readOrder") if g.file.endswith("fitsio.cpp")]),
           ("estimateMemory", [g for g in P.fns("estimateMemory") if g.unit == "driver"])]
    for label, gs in fns:
        if not gs:
            raise core.AnalysisBroken("FS-8: %s not found" % label)
        f = gs[0]
        fiv = _format_index_vars(f)
        calls, fmts = cfits_calls(f)
        # data argument position per cfitsio routine
        DATA = {"ffgky": 3, "ffpky": 3, "ffuky": 3, "ffgpxv": 5, "ffppx": 4, "ffgisz": 3}
        cur = None          # index variable of the current indexed HDU (after fits_movnam_hdu / EXTNAME)
        for (i, nm, macro) in sorted(calls, key=lambda c: f.seq(c[0])):
            a = f.args(i)
            if nm == "ffmnhd":
                cur = _name_index(f, a[2], fiv)
                continue
            if nm == "ffcrim":
                cur = None
                continue
            if nm in ("ffpky", "ffuky") and name_of(f, a[2], fmts) == "EXTNAME":
                cur = _name_index(f, a[3], fiv)
                # the pixel data of this HDU was written just before the name in this writer: checked below through `pending`
                continue
            if nm not in DATA or len(a) <= DATA[nm]:
                continue
            key_idx = _name_index(f, a[2], fiv) if nm in ("ffgky", "ffpky", "ffuky") else None
            want = key_idx if key_idx is not None else (cur if nm in ("ffgpxv", "ffgisz") else None)
            if want is None:
                continue
            got, txt = _data_index(f, a[DATA[nm]])
            if got is None and nm == "ffgisz":
                continue            # size read into a scalar (estimateMemory): nothing indexed
            ok = got == want
            C.ob("FS-8", label, "%s:%s" % (macro, txt.replace(" ", "")), ok, f.loc(i),
                 "name formatted with %s, data %s indexed by %s" % (f.var_name(want), txt, f.var_name(got) if isinstance(got, int) else got))
        # writer: pixel writes of the per-dimension HDUs precede their EXTNAME; check the pairing inside each loop body
        if label == "write_fits_core":
            for (i, nm, macro) in calls:
                if nm == "ffppx":
                    loop = next((x for x in f.ancestors(i) if f.k(x) == "ForStmt"), None)
                    if loop is None:
                        continue
                    names = [(j, _name_index(f, f.args(j)[3], fiv)) for (j, n2, _m) in calls if n2 in ("ffpky", "ffuky") and loop in set(f.ancestors(j))
                             and name_of(f, f.args(j)[2], fmts) == "EXTNAME"]
                    got, txt = _data_index(f, f.args(i)[4])
                    ok = len(names) == 1 and names[0][1] is not None and got == names[0][1]
                    C.ob("FS-8", label, "fits_write_pix:%s" % txt.replace(" ", ""), ok, f.loc(i),
                         "extension named with %s holds %s" % (f.var_name(names[0][1]) if names and names[0][1] is not None else "?", txt))


def fs9(P, C):
    """FS-9: cards whose name comes from data are appended, never written through cfitsio's search-and-replace."""
    C.rule("FS-9", "the writer appends every card whose keyword is not a literal of its own (auxiliary keys, names formatted with an index) with "
           "fits_write_key; fits_update_key — which first searches the header with cfitsio's own name matching (case folding, the HIERARCH "
           "prefix stripped or matched as a family, wildcard characters) and overwrites what it finds — is used only with literal keyword "
           "names: an auxiliary key must never replace another card", floor=2)
    gs = [g for g in P.fns("write_fits_core") if g.unit == "driver"]
    if not gs:
        raise core.AnalysisBroken("FS-9: write_fits_core not found")
    f = gs[0]
    n = 0
    for i, cal in f.calls():
        if not cal:
            continue
        m = f.call_macro(i) or cal["name"]
        if m not in ("fits_update_key", "fits_update_key_str", "fits_update_key_longstr", "fits_modify_key_str", "ffuky", "ffukys", "ffukls", "ffmkys",
                     "fits_write_key", "fits_write_key_str", "fits_write_key_longstr", "ffpky", "ffpkys", "ffpkls"):
            continue
        a = f.args(i)
        name_arg = next((x for x in a if "char" in f.nodes[x].get("t", "") and f.nodes[x].get("t", "").count("*") >= 1), None)
        # (fitsfile*, int datatype, const char* keyname, ...) / the _str forms (fitsfile*, const char* keyname, ...)
        name_arg = a[2] if m in ("fits_update_key", "fits_write_key", "ffuky", "ffpky") else a[1]
        s_ = f.strip(name_arg)
        literal = f.k(s_) == "StringLiteral"
        if f.k(s_) == "DeclRefExpr":
            # a local const char array initialised with a literal
            vid = f.nodes[s_]["decl"].get("id")
            for x in f.walk():
                if f.k(x) == "DeclStmt":
                    for d in f.nodes[x]["decls"]:
                        if d.get("id") == vid and d.get("init", -1) >= 0 and f.k(f.strip(d["init"])) == "StringLiteral" and d.get("type", "").startswith("const char"):
                            literal = True
        if f.k(s_) == "UnaryOperator" and f.nodes[s_].get("op") == "&":
            t = f.strip(f.nodes[s_]["ch"][0])
            if f.k(t) == "DeclRefExpr":
                vid = f.nodes[t]["decl"].get("id")
                for x in f.walk():
                    if f.k(x) == "DeclStmt":
                        for d in f.nodes[x]["decls"]:
                            if d.get("id") == vid and d.get("init", -1) >= 0 and f.k(f.strip(d["init"])) == "StringLiteral" and d.get("type", "").startswith("const char"):
                                literal = True
        updates = m in ("fits_update_key", "fits_update_key_str", "fits_update_key_longstr", "fits_modify_key_str", "ffuky", "ffukys", "ffukls", "ffmkys")
        n += 1
        ok = literal or not updates
        C.ob("FS-9", "write_fits_core", "%s(%s)@%d" % (m, f.render(name_arg)[:30], f.nodes[i]["loc"][0]), ok, f.loc(i),
             ("%s with %s" % (m, "a literal keyword" if literal else "a keyword taken from data: appended")) if ok else
             "%s searches the header for a card matching %s by cfitsio's rules and overwrites it: a key such as HIERARCH, or one that differs from an "
             "earlier key only in what cfitsio ignores, replaces that card and the earlier entry is lost on serialisation" % (m, f.render(name_arg)[:40]))
    if n == 0:
        raise core.AnalysisBroken("FS-9: write_fits_core writes no keyword")


# --------------------------------------------------------------------------
# FS-10: the reader defines every entry of a per-dimension array before it reads one
# --------------------------------------------------------------------------
def fs10(P, C, members=("order",)):
    """must-defined dataflow over read_fits_core for raw arrays obtained from allocate<T>(ndim) (uninitialised storage)"""
    from . import uw
    C.rule("FS-10", "read_fits_core never reads an entry of the orders array that no statement has written: storage comes uninitialised from "
           "allocate<>(ndim); entry 0 is defined by the legacy single-ORDER read (destination &order[0]) and the rest by std::fill from it, or "
           "every entry by the per-dimension ORDERn loop over [0, ndim). A read on a path where the entry is not yet defined hands heap "
           "garbage to the validations and to the table (legacy files with one ORDER key decode to nonsense)", floor=2)
    rf = [g for g in P.fns("read_fits_core") if g.unit == "driver"][0]
    f = rf
    n_obl = 0
    for mem in members:
        def rooted(i):
            r = ts.root_member(f, i)
            return r is not None and r[0] == mem and r[2] == "this"

        def elem_index(i):
            """i is `mem[e]` (ArraySubscriptExpr on the member): return e else None"""
            j = f.strip(i)
            if f.k(j) == "ArraySubscriptExpr":
                b = f.strip(f.nodes[j]["ch"][0])
                if f.k(b) == "MemberExpr" and f.nodes[b].get("member") == mem and rooted(b):
                    return f.nodes[j]["ch"][1]
            return None
        # canonical loops over [0, ndim) whose body writes mem[loopvar] unconditionally
        loops = {}
        writes = {}      # node of the writing statement/call -> index expression | ("bulk", rendered destination)
        dest = {}        # ... -> the destination operand (its sub-expressions are not reads)
        reads = []
        for i, cal in f.calls():
            if not cal:
                continue
            args = f.args(i)
            if cal.get("externC") and cal["name"].startswith("ff"):
                for a in args:
                    s_ = f.strip(a)
                    if f.k(s_) == "UnaryOperator" and f.nodes[s_]["op"] == "&":
                        e = elem_index(f.nodes[s_]["ch"][0])
                        if e is not None:
                            writes[i] = e
                            dest[i] = a
            elif cal["name"] in ("fill", "fill_n", "copy", "copy_n") and cal.get("qname", "").startswith("std::"):
                dst = args[0] if cal["name"].startswith("fill") else args[2]
                if rooted(dst):
                    r = ts.root_member(f, dst)
                    if r[1] == 0:
                        off = f.render(dst).replace("this->", "").replace(" ", "")
                        writes[i] = ("bulk", off)
                        dest[i] = dst
        for i in f.walk():
            ap = ts.assign_parts(f, i)
            if ap and ap[1] is not None:
                e = elem_index(ap[0])
                if e is not None:
                    writes[i] = e
                    dest[i] = ap[0]
        write_sub = set()
        for w in writes:
            for x in f.walk(dest[w]):
                write_sub.add(x)
        pos = f.node_positions()
        facts_at = {}

        def index_kind(e):
            s_ = f.strip(e)
            if f.nodes[s_].get("cv") == 0:
                return ("zero", None)
            if f.k(s_) == "DeclRefExpr":
                for a in f.ancestors(s_):
                    if f.k(a) == "ForStmt":
                        cl = uw.canonical_loop(f, a)
                        if cl and cl[0] == f.nodes[s_]["decl"]["id"] and cl[1] in ("ndim",):
                            return ("loop", a)
                        break
            return ("other", None)
        loop_writes = {}
        for w, e in writes.items():
            if isinstance(e, tuple):
                continue
            kind, L = index_kind(e)
            if kind == "loop":
                # unconditional in the body
                cond = False
                for a in f.ancestors(w):
                    if a == L:
                        break
                    if f.k(a) in ("IfStmt", "ConditionalOperator", "SwitchStmt", "ForStmt", "WhileStmt", "DoStmt"):
                        cond = True
                if not cond:
                    loop_writes[f.strip(f.nodes[L]["cond"])] = L

        def transfer(st, el, b, j):
            if el.get("kind") != "stmt":
                return st
            i = el["n"]
            if i in writes:
                e = writes[i]
                if isinstance(e, tuple):
                    if e[1] == mem:
                        return st | {"zero", "all"}
                    if e[1] in ("(%s+1)" % mem, "%s+1" % mem) and "zero" in st:
                        return st | {"all"}
                    return st
                kind, _L = index_kind(e)
                if kind == "zero":
                    return st | {"zero"}
            ap = ts.assign_parts(f, i)
            if ap and ap[1] is not None and f.k(f.strip(ap[0])) == "MemberExpr" and f.nodes[f.strip(ap[0])].get("member") == mem and rooted(f.strip(ap[0])):
                return frozenset()       # the array itself is (re)allocated
            return st

        def edge(st, b, k, s, cond):
            if cond is not None and cond >= 0 and f.strip(cond) in loop_writes and k == 1:
                return st | {"zero", "all"}
            return st
        IN, OUT = core.dataflow(f, frozenset(), transfer, lambda a, b: a & b, edge)
        bad = []
        nreads = 0
        for b, blk in f.blocks.items():
            if b not in IN:
                continue
            st = IN[b]
            for j, el in enumerate(blk["elems"]):
                if el.get("kind") == "stmt":
                    i = el["n"]
                    e = elem_index(i) if f.k(i) == "ArraySubscriptExpr" else None
                    if e is not None and i not in write_sub:
                        nreads += 1
                        kind, _L = index_kind(e)
                        need = "zero" if kind == "zero" else "all"
                        if need not in st:
                            bad.append((i, need))
                st = transfer(st, el, b, j)
        bad.sort(key=lambda t: f.seq(t[0]))
        if not writes or nreads == 0:
            raise core.AnalysisBroken("FS-10: no writes (%d) or reads (%d) of %s found in read_fits_core" % (len(writes), nreads, mem))
        n_obl += 1
        C.ob("FS-10", "read_fits_core", "defined-before-read:%s" % mem, not bad, f.loc(bad[0][0]) if bad else f.where(),
             "%d write site(s), %d read(s) of %s[..], each reached only with the entry defined" % (len(writes), nreads, mem) if not bad else
             "%s at %s is read on a path where %s written: the storage from allocate<>() is uninitialised" %
             (f.render(bad[0][0]).replace("this->", ""), f.loc(bad[0][0]), "entry 0 has not been" if bad[0][1] == "zero" else "not every entry has been"))
        C.ob("FS-10", "read_fits_core", "write-sites:%s" % mem, len(writes) >= 2, f.where(), "%d statements define entries of %s" % (len(writes), mem))
    return n_obl


# --------------------------------------------------------------------------
# FS-12: equality is reflexive on what a file can hold
# --------------------------------------------------------------------------
def fs12(P, C):
    C.rule("FS-12", "operator== compares the coefficient arrays with a relation under which a NaN equals a NaN in the same place: a table may "
           "hold NaN coefficients, the file preserves them bit for bit, and the table read back has to compare equal to the original "
           "(and to itself). Accepted: a bytewise comparison (memcmp), or std::equal with a predicate whose body has the value comparison "
           "a == b in disjunction with a test that both are NaN (a != a && b != b, or isnan on both). Plain std::equal on floats is not "
           "reflexive", floor=1)
    eq = [g for g in P.fns("operator==") if g.cls == ts.CLS and g.unit == "driver"]
    if not eq:
        raise core.AnalysisBroken("FS-12: operator== of the table not found")
    f = eq[0]
    sites = []
    for i, cal in f.calls():
        if not cal or cal["name"] not in ("equal", "memcmp", "mismatch"):
            continue
        a = f.args(i)
        r = ts.root_member(f, a[0]) if a else None
        if r and r[0] == "coefficients" and r[2] == "this":
            sites.append(i)
    if not sites:
        raise core.AnalysisBroken("FS-12: operator== does not compare the coefficients with std::equal / memcmp (see FS-1)")
    for i in sites:
        cal = f.nodes[i]["callee"]
        a = f.args(i)
        ok, det = False, ""
        if cal["name"] == "memcmp":
            ok, det = True, "bytewise comparison"
        elif len(a) >= 4:
            lam = next((x for x in f.walk(a[3]) if f.k(x) == "LambdaExpr"), None)
            g = P.functions.get(f.nodes[lam].get("lambdaUsr")) if lam is not None else None
            if g is None:
                det = "the predicate handed to std::%s is not a lambda that can be inspected" % cal["name"]
            else:
                pa = [p_["id"] for p_ in g.params]
                txt = ""
                value_eq = nan_both = False
                for x in g.walk():
                    n = g.nodes[x]
                    if n["k"] == "BinaryOperator" and n.get("op") == "==":
                        ids = [g.nodes[g.strip(c)]["decl"].get("id") for c in n["ch"] if g.k(g.strip(c)) == "DeclRefExpr"]
                        if len(pa) == 2 and sorted(ids) == sorted(pa):
                            value_eq = True
                nan_tests = set()
                for x in g.walk():
                    n = g.nodes[x]
                    if n["k"] == "BinaryOperator" and n.get("op") == "!=":
                        ids = [g.nodes[g.strip(c)]["decl"].get("id") for c in n["ch"] if g.k(g.strip(c)) == "DeclRefExpr"]
                        if len(ids) == 2 and ids[0] == ids[1] and ids[0] in pa:
                            nan_tests.add(ids[0])
                    cc = n.get("callee")
                    if cc and cc["name"] in ("isnan", "__builtin_isnan", "__isnanf", "__isnan"):
                        for aa in g.args(x):
                            for y in g.walk(aa):
                                if g.k(y) == "DeclRefExpr" and g.nodes[y]["decl"].get("id") in pa:
                                    nan_tests.add(g.nodes[y]["decl"]["id"])
                nan_both = len(pa) == 2 and nan_tests == set(pa)
                ok = value_eq and nan_both
                det = "predicate %s: value comparison %s, both-NaN test %s" % (g.render(g.body)[:80], value_eq, nan_both)
        else:
            det = "std::%s(first, last, other) compares floats with ==: NaN != NaN, so a table with a NaN coefficient is unequal to its exact copy and to itself" % cal["name"]
        C.ob("FS-12", "operator==", "nan-reflexive:coefficients", ok, f.loc(i), det)


def fs13(P, C):
    """FS-13: what a pixel read stored is what the table holds."""
    from . import ts
    C.rule("FS-13", "in the reader no element of an array that fits_read_pix has filled (coefficients, knots[i][..], extents[i][..]) is stored "
           "again on a path that follows the read, neither by an assignment nor by a mutating algorithm: a value that is adjusted after it was "
           "read (clamped, rounded, normalised) is not the value the file holds, and the table no longer equals the one that was written", floor=3)
    fs_ = [f for f in P.fns("read_fits_core") if f.cls == ts.CLS and f.unit == "driver"]
    if not fs_:
        raise core.AnalysisBroken("FS-13: read_fits_core not found")
    f = fs_[0]
    pos = f.node_positions()
    reads = []
    for i, cal in f.calls():
        if cal and (f.call_macro(i) == "fits_read_pix" or cal["name"] in ("ffgpxv", "ffgpxvll")) and i in pos:
            a = f.args(i)
            r = ts.root_member(f, a[5]) if len(a) > 5 else None
            if r is None:
                C.ob("FS-13", "read_fits_core", "destination@%s" % f.loc(i), False, f.loc(i), "fits_read_pix stores into %s, which is not an array of the table" %
                     (f.render(a[5]) if len(a) > 5 else "?"))
                continue
            reads.append((i, r[0], r[1] + 1))           # &A[..][0] has depth one less than the elements it covers
    if len(reads) < 3:
        raise core.AnalysisBroken("FS-13: expected pixel reads for coefficients, knots and extents, found %d" % len(reads))
    stores = []
    for b, blk in f.blocks.items():
        for j, e in enumerate(blk["elems"]):
            if e.get("kind") != "stmt":
                continue
            for (field, depth, how) in ts.member_writes(f, e["n"]):
                stores.append((e["n"], b, j, field, depth, how))
    for (ri, field, edepth) in reads:
        rb, rj = pos[ri]
        after = f.reachable_blocks_from_succs(rb)
        bad = [(n_, how) for (n_, b, j, fld, depth, how) in stores if fld == field and depth >= edepth and n_ != ri and
               (b in after or (b == rb and j > rj)) and not (how.startswith("extern") and n_ in set(f.walk(ri)) | {ri})]
        bad = [(n_, how) for n_, how in bad if not ((f.nodes[n_].get("callee") or {}).get("name") in ("ffgpxv", "ffgpxvll"))]
        C.ob("FS-13", "read_fits_core", "read-is-final:%s" % field, not bad, f.loc(bad[0][0]) if bad else f.loc(ri),
             "nothing stores into the elements of %s after they were read from the file" % field if not bad else
             "%s (%s) changes elements of %s after fits_read_pix filled them at %s: the table differs from the file it was read from" %
             (f.render(bad[0][0])[:90], bad[0][1], field, f.loc(ri)))


def fs15(P, C):
    """FS-15: a table read from a file without PERIODn keys has period 0 in every dimension."""
    from . import ts
    C.rule("FS-15", "the reader obtains `periods` uninitialised from the allocator and reads PERIOD<i> into entry i; where the key is missing (every "
           "legacy file) the failure branch stores 0 into that entry before it clears the status — otherwise get_period, the writer and "
           "permuteDimensions carry whatever the allocation held", floor=1)
    f = [g for g in P.fns("read_fits_core") if g.unit == "driver" and g.cls == ts.CLS][0]
    reads = [i for i, cal in f.calls() if cal and (f.call_macro(i) or cal["name"]) in ("fits_read_key", "ffgky") and
             any(ts.root_member(f, a) and ts.root_member(f, a)[0] == "periods" for a in f.args(i))]
    if not reads:
        raise core.AnalysisBroken("FS-15: the read of PERIODn into periods[i] was not found")
    r = reads[0]
    L = next((a for a in f.ancestors(r) if f.k(a) == "ForStmt"), None)
    ok = False
    det = "no failure branch after the read of PERIODn"
    if L is not None:
        for x in f.walk(f.nodes[L]["body"]):
            if f.k(x) == "IfStmt" and f.seq(x) > f.seq(r):
                t = f.render(f.nodes[x]["cond"]).replace(" ", "")
                if re.match(r"^\(?\w+!=0\)?$", t):
                    st_ = [f.render(y).replace("this->", "").replace(" ", "") for y in f.walk(f.nodes[x]["then"]) if ts.assign_parts(f, y)]
                    zero = any(re.match(r"^\(periods\[\w+\]=0(\.0*)?\)$", s_) for s_ in st_)
                    ok = zero
                    det = "the failure branch of the PERIODn read stores %s" % st_
    C.ob("FS-15", "read_fits_core", "missing-period-is-zero", ok, f.loc(r), det if not ok else "a missing PERIODn key leaves periods[i] = 0")
