"""SG — sign provenance of the NNLS solution and prefix-sum structure (serves C10, C11).

SG-1 solver selection, SG-2 sign provenance of every store into the solution vector,
SG-3 prefix sum back to B-spline coefficients, SG-4 T-spline change of basis applied to basis and penalty.
"""
import re

from .. import core
from . import ts


def dense_store(f, i):
    """`((double*)(V->x))[idx] = rhs` -> (V decl id / text, idx node, rhs node) for stores into a cholmod_dense payload."""
    ap = ts.assign_parts(f, i)
    if not ap or ap[1] is None:
        return None
    l = f.strip(ap[0])
    if f.k(l) != "ArraySubscriptExpr":
        # *xptr = ...
        if f.k(l) == "UnaryOperator" and f.nodes[l]["op"] == "*":
            p = f.strip(f.ch(l)[0])
            if f.k(p) == "DeclRefExpr":
                return ("ptr", f.nodes[p]["decl"]["id"], None, ap[1])
        return None
    base = f.strip(f.nodes[l]["ch"][0])
    if f.k(base) == "MemberExpr" and f.nodes[base]["member"] == "x" and "cholmod_dense" in f.nodes[base].get("fieldOf", ""):
        obj = f.strip(f.ch(base)[0])
        return ("dense", f.render(obj), f.nodes[l]["ch"][1], ap[1])
    return None


def dense_load(f, i):
    i = f.strip(i)
    if f.k(i) != "ArraySubscriptExpr":
        return None
    base = f.strip(f.nodes[i]["ch"][0])
    if f.k(base) == "MemberExpr" and f.nodes[base]["member"] == "x" and "cholmod_dense" in f.nodes[base].get("fieldOf", ""):
        return (f.render(f.strip(f.ch(base)[0])), f.nodes[i]["ch"][1])
    return None


def is_neg_test(f, cond, vec, idxname=None):
    """cond is `vec[idx] < 0` on a cholmod_dense payload"""
    c, neg = core.cond_polarity(f, cond)
    n = f.nodes[c]
    if neg or n["k"] != "BinaryOperator" or n["op"] != "<":
        return False
    ld = dense_load(f, n["ch"][0])
    z = f.nodes[f.strip(n["ch"][1])]
    return bool(ld) and ld[0] == vec and (z.get("cv") == 0 or z.get("v") == 0) and (idxname is None or f.render(ld[1]) == idxname)


def var_id(f, i):
    """declaration id if node i is (casts of) a plain variable reference"""
    i = f.strip(i)
    return f.nodes[i]["decl"]["id"] if f.k(i) == "DeclRefExpr" else None


def dense_obj(f, i):
    """`((double*)(V->x))[idx]` -> (decl id of V, idx node) when V is a plain variable"""
    i = f.strip(i)
    if f.k(i) != "ArraySubscriptExpr":
        return None
    base = f.strip(f.nodes[i]["ch"][0])
    if f.k(base) == "MemberExpr" and f.nodes[base]["member"] == "x" and "cholmod_dense" in f.nodes[base].get("fieldOf", ""):
        v = var_id(f, f.ch(base)[0])
        if v is not None:
            return v, f.nodes[i]["ch"][1]
    return None


def neg_test_of(f, cond):
    """cond is `V[idx] < 0` on a cholmod_dense payload: (decl id of V, decl id of idx) else None"""
    c, neg = core.cond_polarity(f, cond)
    n = f.nodes[c]
    if neg or n["k"] != "BinaryOperator" or n["op"] != "<":
        return None
    ld = dense_obj(f, n["ch"][0])
    z = f.nodes[f.strip(n["ch"][1])]
    if ld and (z.get("cv") == 0 or z.get("v") == 0) and var_id(f, ld[1]) is not None:
        return ld[0], var_id(f, ld[1])
    return None


NO_MONODIM = 4294967295


def is_monodim_test(f, cond):
    rc = core.rel_canon(f, cond, None)
    from . import vg
    return rc is not None and rc[1] == "!=0" and rc[0] == core.eq_norm(vg.P_("monodim - %d" % NO_MONODIM))


def run_sign(P, C):
    C.rule("SG-2", "every store into the vector returned by nnls_normal_block3 (and into it through walk_descents) is literal 0, a load of the "
           "unconstrained solution x_F guarded by `no component of x_F is negative` (counter incremented exactly under x_F[i] < 0 over the same "
           "index range), or a load of a trial vector whose every store is clamped at 0 before the iteration ends; the vector is created zeroed", floor=6)
    N = P.one("nnls_normal_block3", file_endswith="nnls.c")
    W = P.one("walk_descents", file_endswith="cholesky_solve.c")
    E = P.one("evaluate_descent", file_endswith="cholesky_solve.c")
    # the returned vector (by declaration, not by name)
    rets = [i for i in N.walk() if N.k(i) == "ReturnStmt"]
    rids = set(var_id(N, N.nodes[r]["value"]) for r in rets)
    if len(rids) != 1 or None in rids:
        raise core.AnalysisBroken("nnls_normal_block3 does not return one local variable on every exit")
    X = rids.pop()
    xname = N.var_name(X)
    created = [i for i in N.walk() if ts.assign_parts(N, i) and var_id(N, ts.assign_parts(N, i)[0]) == X]
    for i in N.walk():
        if N.k(i) == "DeclStmt":
            for d in N.nodes[i]["decls"]:
                if d.get("id") == X and d.get("init", -1) >= 0:
                    created.append(d["init"])
    def zeros(i):
        r = ts.assign_parts(N, i)
        r = N.strip(r[1]) if r else N.strip(i)
        return (N.nodes[r].get("callee") or {}).get("name") == "cholmod_l_zeros"
    C.ob("SG-2", "nnls_normal_block3", "created-zeroed", len(created) == 1 and zeros(created[0]), N.where(),
         "the solution vector (%s) is created by cholmod_l_zeros and never re-pointed: %s" % (xname, [N.render(c)[:60] for c in created]))

    def loop_sig(L):
        """(decl id of the loop variable, alpha-rendered bound) of a counting loop"""
        from . import gw
        return gw._c_canonical_loop(N, L)
    # counters of negative components: counter id -> [(vector id, index var id, loop signature, directly under the test?)]
    neg_counters = {}
    for i in N.walk():
        if N.k(i) == "UnaryOperator" and N.nodes[i]["op"] == "++":
            v = var_id(N, N.ch(i)[0])
            if v is None:
                continue
            ifs = [a_ for a_ in N.ancestors(i) if N.k(a_) == "IfStmt"]
            loops = [a_ for a_ in N.ancestors(i) if N.k(a_) == "ForStmt"]
            if not loops:
                continue
            if loop_sig(loops[0]) and loop_sig(loops[0])[0] == v:
                continue                                   # the loop's own counter
            direct = [a_ for a_ in ifs if loops[0] in set(N.ancestors(a_))]
            nt = neg_test_of(N, N.nodes[direct[-1]]["cond"]) if direct else None
            neg_counters.setdefault(v, []).append((nt, loop_sig(loops[0]), len(direct)))
    n_ob = 0
    for i in N.walk():
        ap = ts.assign_parts(N, i)
        if not ap or ap[1] is None:
            continue
        tgt = dense_obj(N, ap[0])
        if not tgt or tgt[0] != X:
            continue
        n_ob += 1
        rhs = N.strip(ap[1])
        ok = False
        why = "unclassified store %s" % N.render(i)
        if N.nodes[i].get("op") == "=" and (N.nodes[rhs].get("cv") == 0 or N.nodes[rhs].get("v") == 0):
            ok, why = True, "literal 0"
        elif N.nodes[i].get("op") == "=":
            ld = dense_obj(N, rhs)
            if ld:
                V, iv = ld[0], var_id(N, ld[1])
                ifs = [a_ for a_ in N.ancestors(i) if N.k(a_) == "IfStmt"]
                guard = None
                for a_ in ifs:
                    cnd = N.strip(N.nodes[a_]["cond"])
                    inthen = N.nodes[a_]["then"] in [i] + list(N.ancestors(i))
                    if inthen and N.k(cnd) == "BinaryOperator" and N.nodes[cnd]["op"] == "==" and N.nodes[N.strip(N.nodes[cnd]["ch"][1])].get("cv") == 0:
                        guard = var_id(N, N.nodes[cnd]["ch"][0])
                loop = next((a_ for a_ in N.ancestors(i) if N.k(a_) == "ForStmt"), None)
                ls = loop_sig(loop) if loop is not None else None
                cnt = neg_counters.get(guard, [])
                # the counter counts V[j] < 0 over the same range (same bound expression), directly under that test, and nowhere else
                good = bool(cnt) and ls is not None and iv == ls[0] and \
                    any(c[0] is not None and c[0][0] == V and c[1] is not None and c[0][1] == c[1][0] and c[1][1] == ls[1] and c[2] == 1 for c in cnt)
                only = all(c[0] is not None and c[0][0] == V for c in cnt)
                # the index of the store is the loop variable, directly or through an index array
                ti = N.strip(tgt[1])
                idx_ok = var_id(N, ti) == iv or (N.k(ti) == "ArraySubscriptExpr" and var_id(N, N.nodes[ti]["ch"][1]) == iv)
                ok = guard is not None and good and only and idx_ok
                why = "%s[%s] copied under %s == 0, where %s counts %s[.] < 0 over the same range" % (
                    N.var_name(V), N.var_name(iv) if iv else "?", N.var_name(guard) if guard else "?", N.var_name(guard) if guard else "?", N.var_name(V))
        C.ob("SG-2", "nnls_normal_block3", "store#%d" % n_ob, ok, N.loc(i), why)
    # the solution vector handed to other functions: only walk_descents may write it
    for i, cal in N.calls():
        if cal and any(var_id(N, a_) == X for a_ in N.args(i)):
            ok = cal["name"] in ("walk_descents",)
            C.ob("SG-2", "nnls_normal_block3", "passed-to:" + cal["name"], ok, N.loc(i),
                 "the solution vector is passed to %s (%s)" % (cal["name"], "its stores are classified below" if ok else "unknown effect on the sign"))
    # walk_descents: stores into parameter x
    xparam = W.params[2]["name"]
    for i in W.walk():
        ds = dense_store(W, i)
        if not ds or ds[0] != "dense" or ds[1] != xparam:
            continue
        ld = dense_load(W, ds[3])
        ok = False
        why = "unclassified store"
        if ld and ld[0].endswith(".x_c") and ld[0].startswith("descent_trials["):
            ok, why = True, "load of a worker's trial vector x_c (clamped in evaluate_descent)"
        C.ob("SG-2", "walk_descents", "store-x", ok, W.loc(i), why)
    # evaluate_descent: every store to x_c is clamped before the iteration ends
    ptr_defs = {}
    for i in E.walk():
        ap = ts.assign_parts(E, i)
        if ap and ap[1] is not None and E.k(E.strip(ap[0])) == "DeclRefExpr" and "x_c->x" in E.render(ap[1]).replace(" ", ""):
            ptr_defs[E.nodes[E.strip(ap[0])]["decl"]["id"]] = E.render(ap[1])
    stores = [(i, dense_store(E, i)) for i in E.walk()]
    stores = [(i, d) for i, d in stores if d and ((d[0] == "ptr" and d[1] in ptr_defs) or (d[0] == "dense" and d[1].endswith("x_c")))]
    clamped = 0
    for (i, d) in stores:
        rhs = E.strip(d[3])
        if E.nodes[rhs].get("v") == 0 or E.nodes[rhs].get("cv") == 0:
            continue   # the clamp itself
        comp = next((a for a in E.ancestors(i) if E.k(a) == "CompoundStmt"), None)
        kids = E.ch(comp)
        top = i
        for a in E.ancestors(i):
            if a == comp:
                break
            top = a
        after = kids[kids.index(top) + 1:]
        ok = False
        for s in after:
            if E.k(s) == "IfStmt":
                c = E.render(E.nodes[s]["cond"]).replace(" ", "")
                then = E.render(E.nodes[s]["then"]).replace(" ", "")
                nm = E.var_name(d[1]) if d[0] == "ptr" else None
                if nm and c in ("((*%s)<0.0)" % nm, "((*%s)<0)" % nm) and ("((*%s)=0.0)" % nm in then or "((*%s)=0)" % nm in then):
                    ok = True
        clamped += 1
        C.ob("SG-2", "evaluate_descent", "clamped-store", ok, E.loc(i),
             "the trial value is clamped at 0 (`if (*p < 0.0) *p = 0.0`) before the iteration ends" if ok else
             "a value is stored into the trial vector without the clamp at 0: negative components can reach the solution")
    if clamped == 0:
        raise core.AnalysisBroken("evaluate_descent: no store into the trial vector found")


def run_mono(P, C):
    C.rule("SG-1", "with a monotonic dimension glamfit_complex solves with nnls_normal_block3, and that result is the only source of the output coefficients", floor=2)
    C.rule("SG-3", "after the copy-out the monotonic branch accumulates out[a + j*s + k] += out[a + (j-1)*s + k] for j = 1..naxes[monodim]-1 with "
           "s the product of the later axes and a = i*s*naxes[monodim] (row-major, the evaluator's layout); nothing else writes the output afterwards", floor=3)
    C.rule("SG-4", "the lower-triangular change of basis is applied to the basis of the monotonic dimension and to the penalty of the same dimension", floor=3)
    G = P.one("glamfit_complex", file_endswith="glam.c")
    pidx = {p["name"]: k for k, p in enumerate(G.params)}
    # SG-1
    sel = [i for i in G.walk() if G.k(i) == "IfStmt" and any(cal and cal["name"] == "nnls_normal_block3" for _x, cal in G.calls(G.nodes[i]["then"]))]
    ok = False
    det = "no branch calling nnls_normal_block3"
    if sel:
        c = G.render(G.nodes[sel[0]]["cond"]).replace(" ", "")
        then = G.render(G.nodes[sel[0]]["then"]).replace(" ", "")
        els = G.render(G.nodes[sel[0]]["else"]).replace(" ", "") if G.nodes[sel[0]]["else"] >= 0 else ""
        ok = is_monodim_test(G, G.nodes[sel[0]]["cond"]) and "(coefficients=nnls_normal_block3(fitmat,Rdens,verbose,c))" in then and "nnls_normal_block3" not in els
        det = "if %s: %s" % (c, then[:80])
    C.ob("SG-1", "glamfit_complex", "solver-selection", ok, G.loc(sel[0]) if sel else G.where(), det)
    outs = [i for i in G.walk() if ts.assign_parts(G, i) and G.render(ts.assign_parts(G, i)[0]).startswith("out_coefficients[")]
    plain = [i for i in outs if G.nodes[i]["op"] == "="]
    acc = [i for i in outs if G.nodes[i]["op"] == "+="]
    okc = len(plain) == 1 and dense_load(G, ts.assign_parts(G, plain[0])[1]) is not None and \
        dense_load(G, ts.assign_parts(G, plain[0])[1])[0] == "coefficients" and \
        G.render(dense_load(G, ts.assign_parts(G, plain[0])[1])[1]) == G.render(G.nodes[G.strip(ts.assign_parts(G, plain[0])[0])]["ch"][1])
    C.ob("SG-1", "glamfit_complex", "copy-out", okc, G.loc(plain[0]) if plain else G.where(),
         "the output is filled from the solver's result and from nothing else: %s" % [G.render(x) for x in plain])
    # SG-3
    ok3 = False
    det3 = "no accumulation statement"
    if len(acc) == 1:
        a = acc[0]
        txt = G.render(a).replace(" ", "")
        want = "(out_coefficients[((((i*stride2)*naxes[monodim])+(j*stride2))+k)]+=out_coefficients[((((i*stride2)*naxes[monodim])+((j-1)*stride2))+k)])"
        loops = [x for x in G.ancestors(a) if G.k(x) == "ForStmt"]
        hdr = ["%s;%s;%s" % tuple(G.render(G.nodes[L][x]).replace(" ", "") for x in ("init", "cond", "inc")) for L in loops]
        want_hdr = ["(k=0);(k<stride2);(k++)", "(j=1);(j<naxes[monodim]);(j++)", "(i=0);(i<stride1);(i++)"]
        guard = [x for x in G.ancestors(a) if G.k(x) == "IfStmt"]
        gc = bool(guard) and is_monodim_test(G, G.nodes[guard[0]]["cond"])
        ok3 = txt == want and hdr == want_hdr and gc
        det3 = "accumulate %s under loops %s, guard %s" % ("matches" if txt == want else txt, hdr, gc)
        # after the copy-out in the function body
        body = G.ch(G.body)
        top_a = next(x for x in [a] + list(G.ancestors(a)) if x in body)
        top_p = next(x for x in [plain[0]] + list(G.ancestors(plain[0])) if x in body) if plain else None
        ok3 = ok3 and top_p is not None and body.index(top_p) < body.index(top_a)
    C.ob("SG-3", "glamfit_complex", "prefix-sum", ok3, G.loc(acc[0]) if acc else G.where(), det3)
    strides = {}
    for i in G.walk():
        if G.k(i) == "CompoundAssignOperator" and G.nodes[i]["op"] == "*=" and G.render(G.nodes[i]["ch"][0]) in ("stride1", "stride2"):
            ifs = [x for x in G.ancestors(i) if G.k(x) == "IfStmt"]
            cond = G.render(G.nodes[ifs[0]]["cond"]).replace(" ", "") if ifs else None
            strides[G.render(G.nodes[i]["ch"][0])] = (G.render(i).replace(" ", ""), cond)
    ok = strides.get("stride1") == ("(stride1*=naxes[i])", "(i<monodim)") and strides.get("stride2") == ("(stride2*=naxes[i])", "(i>monodim)")
    C.ob("SG-3", "glamfit_complex", "strides", ok, G.where(), "stride1 = product of earlier axes, stride2 = product of later axes: %s" % strides)
    last_writer = [i for i in outs]
    C.ob("SG-3", "glamfit_complex", "no-later-writer", len(outs) == 2, G.where(), "out_coefficients is written by the copy-out and the prefix sum only (%d writers)" % len(outs))
    # SG-4
    tr = [i for i, cal in G.calls() if cal and cal["name"] == "cholmod_tril"]
    okb = False
    if tr:
        ifs = [x for x in G.ancestors(tr[0]) if G.k(x) == "IfStmt"]
        cond = G.render(G.nodes[ifs[0]]["cond"]).replace(" ", "") if ifs else None
        mult = [G.render(i).replace(" ", "") for i in G.walk(G.nodes[ifs[0]]["then"]) if ts.assign_parts(G, i) and "ssmult" in G.render(i)] if ifs else []
        okb = cond in ("(monodim==i)", "(i==monodim)") and mult == ["(bases[i]=cholmod_l_ssmult(oldbasis,tril,0,1,0,c))"] and \
            G.render(G.args(tr[0])[0]).replace(" ", "") == "nsplines[i]"
    C.ob("SG-4", "glamfit_complex", "basis-tril", okb, G.loc(tr[0]) if tr else G.where(), "basis of the monotonic dimension is multiplied by the lower-triangular ones matrix of its size")
    Pn = P.one("calc_penalty", file_endswith="glam.c")
    tr = [i for i, cal in Pn.calls() if cal and cal["name"] == "cholmod_tril"]
    okp = False
    if tr:
        ifs = [x for x in Pn.ancestors(tr[0]) if Pn.k(x) == "IfStmt"]
        cond = Pn.render(Pn.nodes[ifs[0]]["cond"]).replace(" ", "") if ifs else None
        mult = [Pn.render(i).replace(" ", "") for i in Pn.walk(Pn.nodes[ifs[0]]["then"]) if ts.assign_parts(Pn, i) and "ssmult" in Pn.render(i)] if ifs else []
        okp = cond == "mono" and mult == ["(finitediff=cholmod_l_ssmult(old,tril,0,1,0,c))"] and Pn.render(Pn.args(tr[0])[0]).replace(" ", "") == "nsplines[dim]"
    C.ob("SG-4", "calc_penalty", "penalty-tril", okp, Pn.loc(tr[0]) if tr else Pn.where(), "the difference matrix of the monotonic dimension is multiplied by the same lower-triangular matrix")
    A = P.one("add_penalty_term", file_endswith="glam.c")
    fw = [A.render(i).replace(" ", "") for i, cal in A.calls() if cal and cal["name"] == "calc_penalty"]
    okf = fw == ["calc_penalty(nsplines,knots,ndim,dim,order,porder,mono,c)"]
    fits = [f for f in P.fns("fit") if f.cls == ts.CLS and f.unit == "driver"]
    passed = []
    for f in fits:
        for i, cal in f.calls():
            if cal and cal["name"] == "add_penalty_term":
                a = f.args(i)
                passed.append((f.render(a[3]).replace(" ", ""), f.render(a[7]).replace(" ", "")))
    okm = bool(passed) and all(p == ("i", "(i==monodim)") for p in passed)
    C.ob("SG-4", "fit", "mono-flag", okf and okm, A.where(),
         "fit passes (dimension i, i == monodim) to add_penalty_term, which forwards the flag unchanged to calc_penalty: %s %s" % (passed[:1], fw))
