"""SG — sign provenance of the NNLS solution and prefix-sum structure (serves C10, C11).

SG-1 solver selection, SG-2 sign provenance of every store into the solution vector,
SG-3 prefix sum back to B-spline coefficients, SG-4 T-spline change of basis applied to basis and penalty.
"""
import re

from .. import core
from . import ts


def dense_store(f, i):
    """`((double*)(V->x))[idx] = rhs` -> (V decl id / text, idx node, rhs node) for stores into a cholmod_dense payload."""
    ap = ts.assign_parts(f, i)
    if not ap or ap[1] is None:
        return None
    l = f.strip(ap[0])
    if f.k(l) != "ArraySubscriptExpr":
        # *xptr = ...
        if f.k(l) == "UnaryOperator" and f.nodes[l]["op"] == "*":
            p = f.strip(f.ch(l)[0])
            if f.k(p) == "DeclRefExpr":
                return ("ptr", f.nodes[p]["decl"]["id"], None, ap[1])
        return None
    base = f.strip(f.nodes[l]["ch"][0])
    if f.k(base) == "MemberExpr" and f.nodes[base]["member"] == "x" and "cholmod_dense" in f.nodes[base].get("fieldOf", ""):
        obj = f.strip(f.ch(base)[0])
        return ("dense", f.render(obj), f.nodes[l]["ch"][1], ap[1])
    return None


def dense_load(f, i):
    i = f.strip(i)
    if f.k(i) != "ArraySubscriptExpr":
        return None
    base = f.strip(f.nodes[i]["ch"][0])
    if f.k(base) == "MemberExpr" and f.nodes[base]["member"] == "x" and "cholmod_dense" in f.nodes[base].get("fieldOf", ""):
        return (f.render(f.strip(f.ch(base)[0])), f.nodes[i]["ch"][1])
    return None


def is_neg_test(f, cond, vec, idxname=None):
    """cond is `vec[idx] < 0` on a cholmod_dense payload"""
    c, neg = core.cond_polarity(f, cond)
    n = f.nodes[c]
    if neg or n["k"] != "BinaryOperator" or n["op"] != "<":
        return False
    ld = dense_load(f, n["ch"][0])
    z = f.nodes[f.strip(n["ch"][1])]
    return bool(ld) and ld[0] == vec and (z.get("cv") == 0 or z.get("v") == 0) and (idxname is None or f.render(ld[1]) == idxname)


def var_id(f, i):
    """declaration id if node i is (casts of) a plain variable reference"""
    i = f.strip(i)
    return f.nodes[i]["decl"]["id"] if f.k(i) == "DeclRefExpr" else None


def dense_obj(f, i):
    """`((double*)(V->x))[idx]` -> (decl id of V, idx node) when V is a plain variable"""
    i = f.strip(i)
    if f.k(i) != "ArraySubscriptExpr":
        return None
    base = f.strip(f.nodes[i]["ch"][0])
    if f.k(base) == "MemberExpr" and f.nodes[base]["member"] == "x" and "cholmod_dense" in f.nodes[base].get("fieldOf", ""):
        v = var_id(f, f.ch(base)[0])
        if v is not None:
            return v, f.nodes[i]["ch"][1]
    return None


def neg_test_of(f, cond):
    """cond is `V[idx] < 0` on a cholmod_dense payload: (decl id of V, decl id of idx) else None"""
    c, neg = core.cond_polarity(f, cond)
    n = f.nodes[c]
    if neg or n["k"] != "BinaryOperator" or n["op"] != "<":
        return None
    ld = dense_obj(f, n["ch"][0])
    z = f.nodes[f.strip(n["ch"][1])]
    if ld and (z.get("cv") == 0 or z.get("v") == 0) and var_id(f, ld[1]) is not None:
        return ld[0], var_id(f, ld[1])
    return None


NO_MONODIM = 4294967295


def run_sign(P, C):
    C.rule("SG-2", "every store into the vector returned by nnls_normal_block3 (and into it through walk_descents) is literal 0, a load of the "
           "unconstrained solution x_F guarded by `no component of x_F is negative` (counter incremented exactly under x_F[i] < 0 over the same "
           "index range), or a load of a trial vector whose every store is clamped at 0 before the iteration ends; the vector is created zeroed", floor=6)
    N = P.one("nnls_normal_block3", file_endswith="nnls.c")
    W = P.one("walk_descents", file_endswith="cholesky_solve.c")
    E = P.one("evaluate_descent", file_endswith="cholesky_solve.c")
    # the returned vector (by declaration, not by name)
    rets = [i for i in N.walk() if N.k(i) == "ReturnStmt"]
    rids = set(var_id(N, N.nodes[r]["value"]) for r in rets)
    if len(rids) != 1 or None in rids:
        raise core.AnalysisBroken("nnls_normal_block3 does not return one local variable on every exit")
    X = rids.pop()
    xname = N.var_name(X)
    created = [i for i in N.walk() if ts.assign_parts(N, i) and var_id(N, ts.assign_parts(N, i)[0]) == X]
    for i in N.walk():
        if N.k(i) == "DeclStmt":
            for d in N.nodes[i]["decls"]:
                if d.get("id") == X and d.get("init", -1) >= 0:
                    created.append(d["init"])
    def zeros(i):
        r = ts.assign_parts(N, i)
        r = N.strip(r[1]) if r else N.strip(i)
        return (N.nodes[r].get("callee") or {}).get("name") == "cholmod_l_zeros"
    C.ob("SG-2", "nnls_normal_block3", "created-zeroed", len(created) == 1 and zeros(created[0]), N.where(),
         "the solution vector (%s) is created by cholmod_l_zeros and never re-pointed: %s" % (xname, [N.render(c)[:60] for c in created]))

    def loop_sig(L):
        """(decl id of the loop variable, alpha-rendered bound) of a counting loop"""
        from . import gw
        return gw._c_canonical_loop(N, L)
    # counters of negative components: counter id -> [(vector id, index var id, loop signature, directly under the test?)]
    neg_counters = {}
    for i in N.walk():
        if N.k(i) == "UnaryOperator" and N.nodes[i]["op"] == "++":
            v = var_id(N, N.ch(i)[0])
            if v is None:
                continue
            ifs = [a_ for a_ in N.ancestors(i) if N.k(a_) == "IfStmt"]
            loops = [a_ for a_ in N.ancestors(i) if N.k(a_) == "ForStmt"]
            if not loops:
                continue
            if loop_sig(loops[0]) and loop_sig(loops[0])[0] == v:
                continue                                   # the loop's own counter
            direct = [a_ for a_ in ifs if loops[0] in set(N.ancestors(a_))]
            nt = neg_test_of(N, N.nodes[direct[-1]]["cond"]) if direct else None
            neg_counters.setdefault(v, []).append((nt, loop_sig(loops[0]), len(direct)))
    n_ob = 0
    for i in N.walk():
        ap = ts.assign_parts(N, i)
        if not ap or ap[1] is None:
            continue
        tgt = dense_obj(N, ap[0])
        if not tgt or tgt[0] != X:
            continue
        n_ob += 1
        rhs = N.strip(ap[1])
        ok = False
        why = "unclassified store %s" % N.render(i)
        if N.nodes[i].get("op") == "=" and (N.nodes[rhs].get("cv") == 0 or N.nodes[rhs].get("v") == 0):
            ok, why = True, "literal 0"
        elif N.nodes[i].get("op") == "=":
            ld = dense_obj(N, rhs)
            if ld:
                V, iv = ld[0], var_id(N, ld[1])
                ifs = [a_ for a_ in N.ancestors(i) if N.k(a_) == "IfStmt"]
                guard = None
                for a_ in ifs:
                    cnd = N.strip(N.nodes[a_]["cond"])
                    inthen = N.nodes[a_]["then"] in [i] + list(N.ancestors(i))
                    if inthen and N.k(cnd) == "BinaryOperator" and N.nodes[cnd]["op"] == "==" and N.nodes[N.strip(N.nodes[cnd]["ch"][1])].get("cv") == 0:
                        guard = var_id(N, N.nodes[cnd]["ch"][0])
                loop = next((a_ for a_ in N.ancestors(i) if N.k(a_) == "ForStmt"), None)
                ls = loop_sig(loop) if loop is not None else None
                cnt = neg_counters.get(guard, [])
                # the counter counts V[j] < 0 over the same range (same bound expression), directly under that test, and nowhere else
                good = bool(cnt) and ls is not None and iv == ls[0] and \
                    any(c[0] is not None and c[0][0] == V and c[1] is not None and c[0][1] == c[1][0] and c[1][1] == ls[1] and c[2] == 1 for c in cnt)
                only = all(c[0] is not None and c[0][0] == V for c in cnt)
                # the index of the store is the loop variable, directly or through an index array
                ti = N.strip(tgt[1])
                idx_ok = var_id(N, ti) == iv or (N.k(ti) == "ArraySubscriptExpr" and var_id(N, N.nodes[ti]["ch"][1]) == iv)
                ok = guard is not None and good and only and idx_ok
                why = "%s[%s] copied under %s == 0, where %s counts %s[.] < 0 over the same range" % (
                    N.var_name(V), N.var_name(iv) if iv else "?", N.var_name(guard) if guard else "?", N.var_name(guard) if guard else "?", N.var_name(V))
        C.ob("SG-2", "nnls_normal_block3", "store#%d" % n_ob, ok, N.loc(i), why)
    # the solution vector handed to other functions: only walk_descents may write it
    for i, cal in N.calls():
        if cal and any(var_id(N, a_) == X for a_ in N.args(i)):
            ok = cal["name"] in ("walk_descents",)
            C.ob("SG-2", "nnls_normal_block3", "passed-to:" + cal["name"], ok, N.loc(i),
                 "the solution vector is passed to %s (%s)" % (cal["name"], "its stores are classified below" if ok else "unknown effect on the sign"))
    # walk_descents: stores into parameter x
    xparam = W.params[2]["name"]
    for i in W.walk():
        ds = dense_store(W, i)
        if not ds or ds[0] != "dense" or ds[1] != xparam:
            continue
        ld = dense_load(W, ds[3])
        ok = False
        why = "unclassified store"
        if ld and ld[0].endswith(".x_c") and ld[0].startswith("descent_trials["):
            ok, why = True, "load of a worker's trial vector x_c (clamped in evaluate_descent)"
        C.ob("SG-2", "walk_descents", "store-x", ok, W.loc(i), why)
    # evaluate_descent: every store to x_c is clamped before the iteration ends
    ptr_defs = {}
    for i in E.walk():
        ap = ts.assign_parts(E, i)
        if ap and ap[1] is not None and E.k(E.strip(ap[0])) == "DeclRefExpr" and "x_c->x" in E.render(ap[1]).replace(" ", ""):
            ptr_defs[E.nodes[E.strip(ap[0])]["decl"]["id"]] = E.render(ap[1])
    stores = [(i, dense_store(E, i)) for i in E.walk()]
    stores = [(i, d) for i, d in stores if d and ((d[0] == "ptr" and d[1] in ptr_defs) or (d[0] == "dense" and d[1].endswith("x_c")))]
    clamped = 0
    for (i, d) in stores:
        rhs = E.strip(d[3])
        if E.nodes[rhs].get("v") == 0 or E.nodes[rhs].get("cv") == 0:
            continue   # the clamp itself
        comp = next((a for a in E.ancestors(i) if E.k(a) == "CompoundStmt"), None)
        kids = E.ch(comp)
        top = i
        for a in E.ancestors(i):
            if a == comp:
                break
            top = a
        after = kids[kids.index(top) + 1:]
        ok = False
        for s in after:
            if E.k(s) == "IfStmt":
                c = E.render(E.nodes[s]["cond"]).replace(" ", "")
                then = E.render(E.nodes[s]["then"]).replace(" ", "")
                nm = E.var_name(d[1]) if d[0] == "ptr" else None
                if nm and c in ("((*%s)<0.0)" % nm, "((*%s)<0)" % nm) and ("((*%s)=0.0)" % nm in then or "((*%s)=0)" % nm in then):
                    ok = True
        clamped += 1
        C.ob("SG-2", "evaluate_descent", "clamped-store", ok, E.loc(i),
             "the trial value is clamped at 0 (`if (*p < 0.0) *p = 0.0`) before the iteration ends" if ok else
             "a value is stored into the trial vector without the clamp at 0: negative components can reach the solution")
    if clamped == 0:
        raise core.AnalysisBroken("evaluate_descent: no store into the trial vector found")


def is_monodim_test(f, cond):
    """cond is `monodim != NO_MONODIM` with monodim identified as the parameter compared against the all-ones constant"""
    c, neg = core.cond_polarity(f, cond)
    n = f.nodes[c]
    if n["k"] != "BinaryOperator" or n["op"] not in ("!=", "=="):
        return False
    l, r = f.strip(n["ch"][0]), f.strip(n["ch"][1])
    if f.nodes[r].get("cv") is None:
        l, r = r, l
    if f.nodes[r].get("cv") not in (NO_MONODIM, -1) or f.k(l) != "DeclRefExpr" or f.nodes[l]["decl"]["kind"] != "ParmVar":
        return False
    return (n["op"] == "!=") != neg


def run_mono(P, C):
    from . import gw
    C.rule("SG-1", "with a monotonic dimension glamfit_complex solves with nnls_normal_block3, and that result is the only source of the output coefficients", floor=2)
    C.rule("SG-3", "after the copy-out the monotonic branch accumulates out[a + j*s + k] += out[a + (j-1)*s + k] for j = 1..naxes[monodim]-1 with "
           "s the product of the later axes and a = i*s*naxes[monodim] (row-major, the evaluator's layout); nothing else writes the output afterwards", floor=3)
    C.rule("SG-4", "the lower-triangular change of basis is applied to the basis of the monotonic dimension and to the penalty of the same dimension", floor=3)
    G = P.one("glamfit_complex", file_endswith="glam.c")
    # parameters by position: 6 naxes, 7 out_coefficients, 10 monodim, 11 verbose, 12 c (the C interface of the fitter)
    # SG-1: variables by declaration
    nn = gw.calls(G, "nnls_normal_block3")
    ad = gw.calls(G, "cholmod_l_add")
    sd = gw.calls(G, "cholmod_l_sparse_to_dense")
    cs = gw.calls(G, "cholesky_solve")
    ok = False
    det = "no call of nnls_normal_block3"
    coef = None
    if len(nn) == 1 and len(ad) == 1 and len(sd) == 1:
        i, t, txt, order = nn[0]
        sel = [a_ for a_ in G.ancestors(t) if G.k(a_) == "IfStmt"]
        inthen = bool(sel) and t in set(G.walk(G.nodes[sel[0]]["then"]))
        ok = txt == "(v0=nnls_normal_block3(v1,v2,$11,$12))" and order[1] == ad[0][3][0] and order[2] == sd[0][3][0] and len(sel) == 1 and inthen and \
            is_monodim_test(G, G.nodes[sel[0]]["cond"]) and (not cs or cs[0][3][0] == order[0])
        coef = order[0]
        det = "if (monodim requested) %s with the system matrix and right-hand side of the unconstrained branch: %s" % (txt, ok)
    C.ob("SG-1", "glamfit_complex", "solver-selection", ok, G.loc(nn[0][0]) if nn else G.where(), det)
    out_id = G.params[7]["id"]

    def out_store(i):
        ap = ts.assign_parts(G, i)
        if not ap:
            return False
        l = G.strip(ap[0])
        return G.k(l) == "ArraySubscriptExpr" and var_id(G, G.nodes[l]["ch"][0]) == out_id
    outs = [i for i in G.walk() if out_store(i)]
    plain = [i for i in outs if G.nodes[i]["op"] == "="]
    acc = [i for i in outs if G.nodes[i]["op"] == "+="]
    okc = False
    if len(plain) == 1:
        txt, order = G.alpha(plain[0])
        okc = txt.replace(" ", "") == "($7[v0]=(double*)v1->x[v0])" and order[1] == coef
    C.ob("SG-1", "glamfit_complex", "copy-out", okc, G.loc(plain[0]) if plain else G.where(),
         "the output is filled from the solver's result and from nothing else (%d plain store(s))" % len(plain))
    # SG-3
    ok3 = False
    det3 = "no accumulation statement"
    s1 = s2 = None
    if len(acc) == 1:
        a = acc[0]
        txt, order = G.alpha(a)
        txt = txt.replace(" ", "")
        want = "($7[((((v0*v1)*$6[$10])+(v2*v1))+v3)]+=$7[((((v0*v1)*$6[$10])+((v2-1)*v1))+v3)])"
        loops = [x for x in G.ancestors(a) if G.k(x) == "ForStmt"]
        hdr_ok = False
        if txt == want and len(loops) == 3 and len(order) == 4:
            iv, s2, jv, kv = order
            lk, lj, li = loops
            ck, cj, ci = gw._c_canonical_loop(G, lk), None, gw._c_canonical_loop(G, li)
            # j starts at 1
            ini = G.alpha(G.nodes[lj]["init"])
            cnd = G.alpha(G.nodes[lj]["cond"])
            inc = G.alpha(G.nodes[lj]["inc"])
            j_ok = ini[0].replace(" ", "") == "(v0=1)" and ini[1] == [jv] and cnd[0].replace(" ", "") == "(v0<$6[$10])" and cnd[1] == [jv] and \
                inc[0].replace(" ", "") in ("(v0++)", "(++v0)") and inc[1] == [jv]
            k_ok = ck is not None and ck[0] == kv and G.alpha(G.nodes[G.strip(G.nodes[lk]["cond"])]["ch"][1])[1] == [s2]
            i_ok = ci is not None and ci[0] == iv
            s1 = G.alpha(G.nodes[G.strip(G.nodes[li]["cond"])]["ch"][1])[1][0] if i_ok and G.alpha(G.nodes[G.strip(G.nodes[li]["cond"])]["ch"][1])[1] else None
            hdr_ok = j_ok and k_ok and i_ok and s1 is not None and s1 != s2
        guard = [x for x in G.ancestors(a) if G.k(x) == "IfStmt"]
        gc = bool(guard) and is_monodim_test(G, G.nodes[guard[0]]["cond"])
        ok3 = txt == want and hdr_ok and gc
        det3 = "accumulate %s; loops (i over the earlier axes, j from 1 over the monotonic axis, k over the later axes) %s, guard %s" % (
            "matches" if txt == want else txt, hdr_ok, gc)
        body = G.ch(G.body)
        top_a = next(x for x in [a] + list(G.ancestors(a)) if x in body)
        top_p = next(x for x in [plain[0]] + list(G.ancestors(plain[0])) if x in body) if plain else None
        ok3 = ok3 and top_p is not None and body.index(top_p) < body.index(top_a)
    C.ob("SG-3", "glamfit_complex", "prefix-sum", ok3, G.loc(acc[0]) if acc else G.where(), det3)
    strides = {}
    for i in G.walk():
        if G.k(i) == "CompoundAssignOperator" and G.nodes[i]["op"] == "*=":
            txt, order = G.alpha(i)
            if txt.replace(" ", "") != "(v0*=$6[v1])" or order[0] not in (s1, s2):
                continue
            ifs = [x for x in G.ancestors(i) if G.k(x) == "IfStmt"]
            ct, co = G.alpha(G.nodes[ifs[0]]["cond"]) if ifs else ("", [])
            top = ifs[0] if ifs else -1
            while top >= 0 and G.k(G.parent[top]) == "IfStmt" and G.nodes[G.parent[top]].get("else", -1) == top:
                top = G.parent[top]                      # `else if` chain: the range test applies to the chain's head
            strides[order[0]] = (ct.replace(" ", ""), co == [order[1]], gw.full_range(G, top, order[1], "$3") if ifs else False)
    inits = [i for i in G.walk() if ts.assign_parts(G, i) and G.alpha(i)[0].replace(" ", "") == "(v0=(v1=1))" and set(G.alpha(i)[1]) == {s1, s2}]
    ok = s1 is not None and strides.get(s1) == ("(v0<$10)", True, True) and strides.get(s2) == ("($10<v0)", True, True) and len(inits) == 1
    C.ob("SG-3", "glamfit_complex", "strides", ok, G.where(),
         "both strides start at 1; the outer one is the product of the axes before the monotonic one, the inner one of those after it, over all dimensions: %s" % ok)
    C.ob("SG-3", "glamfit_complex", "no-later-writer", len(outs) == 2, G.where(), "out_coefficients is written by the copy-out and the prefix sum only (%d writers)" % len(outs))
    # SG-4
    bb = gw.calls(G, "bsplinebasis")
    tr = gw.calls(G, "cholmod_tril")
    mm = [c for c in gw.calls(G, "cholmod_l_ssmult")]
    okb = False
    if len(tr) == 1 and len(mm) == 1 and len(bb) == 1:
        ifs = [x for x in G.ancestors(tr[0][1]) if G.k(x) == "IfStmt"]
        bases, iv = bb[0][3][0], bb[0][3][1]
        ct, co = G.alpha(G.nodes[ifs[0]]["cond"]) if ifs else ("", [])
        olds = [x for x in G.walk(G.nodes[ifs[0]]["then"]) if ts.assign_parts(G, x) and G.alpha(x)[0].replace(" ", "") == "(v0=v1[v2])"] if ifs else []
        okb = bool(ifs) and ct.replace(" ", "") in ("($10==v0)", "(v0==$10)") and co == [iv] and \
            mm[0][2] == "(v0[v1]=cholmod_l_ssmult(v2,v3,0,1,0,$12))" and mm[0][3][0] == bases and mm[0][3][1] == iv and mm[0][3][3] == tr[0][3][0] and \
            tr[0][2] == "(v0=cholmod_tril(v1[v2],$12))" and tr[0][3][2] == iv and len(olds) == 1 and G.alpha(olds[0])[1] == [mm[0][3][2], bases, iv] and \
            mm[0][1] in set(G.walk(G.nodes[ifs[0]]["then"]))
        # the counts array given to tril is the one holding nknots-order-1
        cnt = [x for x in G.walk() if ts.assign_parts(G, x) and G.alpha(x)[0].replace(" ", "") == "(v0[v1]=(($4[v1]-$8[v1])-1))"]
        okb = okb and len(cnt) == 1 and G.alpha(cnt[0])[1][0] == tr[0][3][1]
    C.ob("SG-4", "glamfit_complex", "basis-tril", okb, G.loc(tr[0][0]) if tr else G.where(), "basis of the monotonic dimension is multiplied by the lower-triangular ones matrix of its size")
    Pn = P.one("calc_penalty", file_endswith="glam.c")
    trs = gw.calls(Pn, "cholmod_tril")
    t2s = gw.calls(Pn, "cholmod_l_triplet_to_sparse")
    okp = False
    own = None          # the condition under which the function's own dimension is the monotonic one
    if trs and len(t2s) == 1:
        fd = t2s[0][3][0]
        for tr in trs:
            ifs = [x for x in Pn.ancestors(tr[1]) if Pn.k(x) == "IfStmt"]
            if not ifs or tr[2] != "(v0=cholmod_tril($0[$3],$7))":
                continue
            mm = [c for c in gw.calls(Pn, "cholmod_l_ssmult") if c[2] == "(v0=cholmod_l_ssmult(v1,v2,0,1,0,$7))" and c[1] in set(Pn.walk(Pn.nodes[ifs[0]]["then"]))]
            olds = [x for x in Pn.walk(Pn.nodes[ifs[0]]["then"]) if ts.assign_parts(Pn, x) and Pn.alpha(x)[0].replace(" ", "") == "(v0=v1)"]
            ct = Pn.alpha(Pn.nodes[ifs[0]]["cond"])[0].replace(" ", "")
            # accepted ways of saying "dim is the monotonic dimension": a flag parameter, or an index parameter compared with dim
            if ct in ("$6", "((0<=$6)&&((uint32_t)$6==$3))", "((0<=$6)&&($3==(uint32_t)$6))", "($3==$6)", "($6==$3)") and len(mm) == 1 and \
                    mm[0][3][0] == fd and mm[0][3][2] == tr[3][0] and len(olds) == 1 and Pn.alpha(olds[0])[1] == [mm[0][3][1], fd]:
                okp = True
                own = ct
    C.ob("SG-4", "calc_penalty", "penalty-tril", okp, Pn.loc(trs[0][0]) if trs else Pn.where(), "the difference matrix of the monotonic dimension is multiplied by the same lower-triangular matrix")
    A = P.one("add_penalty_term", file_endswith="glam.c")
    fw = gw.calls(A, "calc_penalty")
    okf = len(fw) == 1 and fw[0][2] == "(v0=calc_penalty($0,$1,$2,$3,$4,$5,$7,$9))"
    fits = [f for f in P.fns("fit") if f.cls == ts.CLS and f.unit == "driver"]
    passed = []
    for f in fits:
        for i, cal in f.calls():
            if cal and cal["name"] == "add_penalty_term":
                a = f.args(i)
                d3, d7 = f.alpha(a[3]), f.alpha(a[7])
                passed.append((d3[0].replace(" ", ""), d7[0].replace(" ", ""), d3[1] == d7[1] or not d7[1]))
    as_flag = own == "$6"
    okm = bool(passed) and all(p == (("v0", "(v0==$7)", True) if as_flag else ("v0", "(($7==no_monodim)?(-1):(int)$7)", True)) for p in passed)
    C.ob("SG-4", "fit", "mono-flag", okf and okm, A.where(),
         "fit tells add_penalty_term which dimension is the monotonic one (%s), and add_penalty_term forwards that unchanged to calc_penalty: %s %s"
         % ("as the flag i == monodim" if as_flag else "as its index, -1 for none", passed[:1], fw[0][2] if fw else None))
    # SG-6: every term of the objective is written in the T-spline coefficients
    C.rule("SG-6", "in a monotonic fit the unknowns are T-spline coefficients t (c = T t along the monotonic dimension, SG-4) in EVERY term of the "
           "objective: the penalty of a dimension other than the monotonic one must carry T'T, not the identity, in the monotonic slot of its "
           "Kronecker product — and since kronecker_product multiplies stored entries, no factor may then be stored as one triangle", floor=2)
    kr = gw.calls(Pn, "kronecker_product")
    tt = None
    det6 = "calc_penalty has no Kronecker factor built from cholmod_tril: for dim != monodim the monotonic slot gets the identity, so the smoothing " \
           "of the other dimensions acts on the increments t instead of the coefficients T t (an inactive constraint then changes the fit)"
    loop = next((a for a in Pn.ancestors(kr[0][1]) if Pn.k(a) == "ForStmt"), None) if len(kr) == 1 else None
    cl = gw._c_canonical_loop(Pn, loop) if loop is not None else None
    if cl is not None:
        iv, tmp2 = cl[0], kr[0][3][2]
        for tr in trs:
            if tr[1] not in set(Pn.walk(loop)):
                continue
            # T = cholmod_tril(nsplines[i]); Tt = transpose(T); factor = ssmult(Tt, T, 0, ...)
            if tr[2] != "(v0=cholmod_tril($0[v1],$7))" or tr[3][1] != iv:
                det6 = "the triangular matrix in the Kronecker loop is not of size nsplines[i]: %s" % tr[2]
                continue
            T = tr[3][0]
            tps = [t for t in gw.calls(Pn, "cholmod_l_transpose") if t[2] == "(v0=cholmod_l_transpose(v1,1,$7))" and t[3][1] == T]
            mm = [c for c in gw.calls(Pn, "cholmod_l_ssmult") if c[2] == "(v0=cholmod_l_ssmult(v1,v2,0,1,0,$7))" and c[3][0] == tmp2 and
                  tps and c[3][1] == tps[0][3][0] and c[3][2] == T]
            if len(tps) == 1 and len(mm) == 1:
                tt = mm[0]
            else:
                det6 = "the factor built from cholmod_tril in the Kronecker loop is not transpose(T) * T stored in full"
    ok6 = False
    flag = None
    if tt is not None:
        g = [a for a in Pn.ancestors(tt[1]) if Pn.k(a) == "IfStmt" and a in set(Pn.walk(loop))]
        inner = g[0] if g else None
        conn, leaves = core.cond_leaves(Pn, Pn.nodes[inner]["cond"]) if inner is not None else ("", [])
        lt = [Pn.alpha(x) for x in leaves]
        # i == monodim, and (directly or through a flag computed before the loop) monodim != dim
        is_slot = any(t[0].replace(" ", "") in ("(v0==$6)", "($6==v0)") and t[1] == [iv] for t in lt)
        flags = [Pn.strip(x) for x in leaves if Pn.k(Pn.strip(x)) == "DeclRefExpr" and Pn.nodes[Pn.strip(x)]["decl"].get("kind") == "Var"]
        other = any(t[0].replace(" ", "") in ("($3!=(uint32_t)$6)", "((uint32_t)$6!=$3)", "($6!=$3)", "($3!=$6)") for t in lt)
        if flags and not other:
            flag = Pn.nodes[flags[0]]["decl"]["id"]
            fdef = [x for x in Pn.walk() if ts.assign_parts(Pn, x) and Pn.nodes[x].get("op") == "=" and Pn.k(Pn.strip(ts.assign_parts(Pn, x)[0])) == "DeclRefExpr" and
                    Pn.nodes[Pn.strip(ts.assign_parts(Pn, x)[0])]["decl"].get("id") == flag]
            if len(fdef) == 1:
                c2, l2 = core.cond_leaves(Pn, ts.assign_parts(Pn, fdef[0])[1])
                l2t = [Pn.alpha(x)[0].replace(" ", "") for x in l2]
                other = c2 == "&&" and any(t in ("((uint32_t)$6!=$3)", "($3!=(uint32_t)$6)") for t in l2t) and any(t == "(0<=$6)" for t in l2t)
        ok6 = conn in ("&&", "leaf") and is_slot and other and inner is not None and \
            (Pn.nodes[inner].get("then") == tt[1] or tt[1] in set(Pn.walk(Pn.nodes[inner]["then"])))
        det6 = "factor_i = transpose(T) * T with T = tril(nsplines[i]) exactly when i is the monotonic dimension and it is not the penalised one: %s" % ok6
    C.ob("SG-6", "calc_penalty", "t-basis-in-every-penalty-term", ok6, Pn.loc(tt[0]) if tt else Pn.where(), det6)
    # storage: under the same condition every factor has both triangles
    ok7 = False
    det7 = "not applicable: no T'T factor"
    if ok6:
        st1 = [x for x in Pn.walk(loop) if ts.assign_parts(Pn, x) and Pn.alpha(x)[0].replace(" ", "") == "(v0->stype=1)"]
        guarded = True
        for x in st1:
            g = [a for a in Pn.ancestors(x) if Pn.k(a) == "IfStmt" and a in set(Pn.walk(loop))]
            ct = Pn.alpha(Pn.nodes[g[0]]["cond"]) if g else ("", [])
            guarded = guarded and bool(g) and flag is not None and ct[0].replace(" ", "") == "(!v0)" and ct[1] == [flag] and \
                (Pn.nodes[g[0]].get("then") == x or x in set(Pn.walk(Pn.nodes[g[0]]["then"])))
        cps = [c for c in gw.calls(Pn, "cholmod_l_copy") if c[2] == "(v0=cholmod_l_copy(v1,0,1,$7))"]
        blk = False
        for c in cps:
            g = [a for a in Pn.ancestors(c[1]) if Pn.k(a) == "IfStmt"]
            ct = Pn.alpha(Pn.nodes[g[0]]["cond"]) if g else ("", [])
            if g and flag is not None and ct[0].replace(" ", "") == "v0" and ct[1] == [flag]:
                blk = True
        ok7 = guarded and blk and flag is not None
        det7 = "symmetric one-triangle storage (stype = 1) is set only when there is no T'T factor: %s; the block D'D is expanded to both triangles when there is one: %s" % (guarded, blk)
    C.ob("SG-6", "calc_penalty", "full-storage-with-two-dense-factors", ok7, Pn.where(), det7)


def sg5(P, C):
    """SG-5: the convergence exit of the block-pivoting loop is taken only at an exact minimiser over the free set with nothing pending."""
    from . import gw
    C.rule("SG-5", "nnls_normal_block3 declares convergence (the break of its outer loop) only when (a) every change set handed to modify_factor is "
           "empty — both counters are tested zero in the exit condition — and (b) the current point is the exact solve over the free set: a flag "
           "tested in the same condition that is set where the full solution is accepted (and before the loop, where x = 0 over the empty free "
           "set) and cleared after every line search (walk_descents), whose result is only a point part way along the descent", floor=3)
    N = P.one("nnls_normal_block3", file_endswith="nnls.c")
    # change-set counters: variables passed by address to modify_factor at the positions of the H1/H2 counts (7 and 9)
    mf = [i for i, cal in N.calls() if cal and cal["name"] == "modify_factor"]
    if len(mf) != 1:
        raise core.AnalysisBroken("SG-5: expected one modify_factor call in nnls_normal_block3, found %d" % len(mf))
    def addr_var(a):
        a = N.strip(a)
        if N.k(a) == "UnaryOperator" and N.nodes[a]["op"] == "&":
            return var_id(N, N.nodes[a]["ch"][0])
        return None
    args = N.args(mf[0])
    counters = [addr_var(args[k]) for k in (7, 9)]
    outer = [a for a in N.ancestors(mf[0]) if N.k(a) == "ForStmt"]
    if not outer or None in counters:
        raise core.AnalysisBroken("SG-5: outer iteration loop or change-set counters not identified")
    outer = outer[-1]
    # the convergence exit: a break directly in the outer loop's body (not inside the inner loops), under an if
    exits = []
    for b in N.walk(N.nodes[outer]["body"]):
        if N.k(b) != "BreakStmt":
            continue
        anc = list(N.ancestors(b))
        inner = [a for a in anc[:anc.index(outer)] if N.k(a) in ("ForStmt", "WhileStmt", "DoStmt", "SwitchStmt")]
        if inner:
            continue
        ifs = [a for a in anc[:anc.index(outer)] if N.k(a) == "IfStmt"]
        if ifs:
            exits.append((b, ifs[0]))
    if len(exits) != 1:
        raise core.AnalysisBroken("SG-5: expected one convergence exit in the outer loop, found %d" % len(exits))
    brk, iff = exits[0]
    conn, leaves = core.cond_leaves(N, N.nodes[iff]["cond"])
    zero_tested, flags = set(), []
    for lf in leaves:
        c = N.nodes[N.strip(lf)]
        if c["k"] == "BinaryOperator" and c["op"] == "==" and N.nodes[N.strip(c["ch"][1])].get("cv") == 0 and var_id(N, c["ch"][0]) is not None:
            zero_tested.add(var_id(N, c["ch"][0]))
        elif c["k"] == "DeclRefExpr":
            flags.append(c["decl"]["id"])
    conj = conn in ("&&", "leaf")
    missing = [N.var_name(v) for v in counters if v not in zero_tested]
    C.ob("SG-5", "nnls_normal_block3", "nothing-pending", conj and not missing, N.loc(iff),
         "the exit condition tests every change-set counter of modify_factor for zero" if conj and not missing else
         "the convergence exit does not require %s == 0: constraints found by the last line search are dropped and x is returned although it is not "
         "a minimum over the remaining free set" % ", ".join(missing))
    okf = False
    det = "the exit condition tests no exactness flag: after a line search x is only a point part way along the descent"
    if conj and len(flags) == 1:
        E = flags[0]
        sets = [(i, N.nodes[N.strip(ts.assign_parts(N, i)[1])].get("cv")) for i in N.walk() if ts.assign_parts(N, i) and N.nodes[i].get("op") == "=" and
                var_id(N, ts.assign_parts(N, i)[0]) == E]
        trues = [i for i, v in sets if v == 1]
        falses = [i for i, v in sets if v == 0]
        other = [i for i, v in sets if v not in (0, 1)]
        loop_nodes = set(N.walk(outer))
        # where the full solution is accepted: the then-branch holding the guarded copy of the solve into the result (SG-2's store)
        accept = None
        for i in N.walk():
            ap = ts.assign_parts(N, i)
            if ap and dense_obj(N, ap[0]) and dense_obj(N, ap[1]):
                g = [a for a in N.ancestors(i) if N.k(a) == "IfStmt"]
                for a in g:
                    cnd = N.strip(N.nodes[a]["cond"])
                    if N.k(cnd) == "BinaryOperator" and N.nodes[cnd]["op"] == "==" and N.nodes[N.strip(N.nodes[cnd]["ch"][1])].get("cv") == 0 and \
                            i in set(N.walk(N.nodes[a]["then"])):
                        accept = N.nodes[a]["then"]
        in_accept = [i for i in trues if i in loop_nodes and accept is not None and i in set(N.walk(accept))]
        before_loop = [i for i in trues if i not in loop_nodes and N.nodes[i]["loc"] < N.nodes[outer]["loc"]]
        stray = [i for i in trues if i not in in_accept and i not in before_loop]
        wd = [i for i, cal in N.calls() if cal and cal["name"] == "walk_descents"]
        cleared = []
        for w in wd:
            comp = next((a for a in N.ancestors(w) if N.k(a) == "CompoundStmt"), None)
            kids = N.ch(comp) if comp is not None else []
            top = next((x for x in [w] + list(N.ancestors(w)) if x in kids), None)
            after = kids[kids.index(top) + 1:] if top in kids else []
            cleared.append(any(x in falses or any(y in falses for y in N.walk(x)) for x in after[:2]))
        okf = bool(in_accept) and bool(before_loop) and not stray and not other and bool(wd) and all(cleared)
        det = "flag %s: set before the loop (%d) and where the full solution is accepted (%d), nowhere else (%d stray); cleared right after each of the %d line searches: %s" % (
            N.var_name(E), len(before_loop), len(in_accept), len(stray) + len(other), len(wd), all(cleared))
    C.ob("SG-5", "nnls_normal_block3", "exact-solve", okf, N.loc(iff), det)
    # the exit is the only way out of the loop besides the iteration cap
    rets = [i for i in N.walk(N.nodes[outer]["body"]) if N.k(i) in ("ReturnStmt", "GotoStmt")]
    C.ob("SG-5", "nnls_normal_block3", "single-exit", not rets, N.loc(rets[0]) if rets else N.loc(outer),
         "the outer loop is left only through the convergence exit or the iteration cap")


def ls1(P, C):
    """LS-1: the line search only tries step lengths strictly inside (0, 1), besides the reference 0 and the full step 1."""
    C.rule("LS-1", "walk_descents builds its list of trial step lengths as [0 (reference), 1 (full step), candidates...]; a candidate — the "
           "fraction of the step at which a coordinate reaches 0 — is admitted only when it is strictly inside (0, 1): the counter of the list "
           "advances only under `candidate < 1 && candidate > 0`.  The last element of the list is accepted without comparison, so a "
           "candidate 0 (a coordinate already at 0 that wants to go negative) would make the line search return the point it started from "
           "and the outer loop repeat the same solve forever", floor=2)
    W = P.one("walk_descents", file_endswith="cholesky_solve.c")
    # the list: a local pointer A with A[0] = 0 and A[1] = 1
    lit = {}
    for x in W.walk():
        ap = ts.assign_parts(W, x)
        if ap and ap[1] is not None and W.nodes[x].get("op") == "=" and W.k(W.strip(ap[0])) == "ArraySubscriptExpr":
            sub = W.nodes[W.strip(ap[0])]
            b, idx = W.strip(sub["ch"][0]), W.strip(sub["ch"][1])
            if W.k(b) == "DeclRefExpr" and W.nodes[idx].get("cv") in (0, 1) and W.nodes[W.strip(ap[1])].get("cv") == W.nodes[idx].get("cv"):
                lit.setdefault(W.nodes[b]["decl"]["id"], set()).add(W.nodes[idx]["cv"])
    lists = [a for a, v in lit.items() if v == {0, 1}]
    if len(lists) != 1:
        raise core.AnalysisBroken("LS-1: list of step lengths (A[0] = 0, A[1] = 1) not found in walk_descents")
    A = lists[0]
    # the counter: the variable that indexes A in a store whose index is a plain variable
    cnt = None
    stores = []
    for x in W.walk():
        ap = ts.assign_parts(W, x)
        if ap and ap[1] is not None and W.k(W.strip(ap[0])) == "ArraySubscriptExpr":
            sub = W.nodes[W.strip(ap[0])]
            b = W.strip(sub["ch"][0])
            if W.k(b) == "DeclRefExpr" and W.nodes[b]["decl"]["id"] == A and "cv" not in W.nodes[W.strip(sub["ch"][1])]:
                stores.append(x)
                vs = [y for y in W.walk(sub["ch"][1]) if W.k(y) == "DeclRefExpr" and W.nodes[y]["decl"].get("kind") == "Var"]
                if vs:
                    cnt = W.nodes[vs[0]]["decl"]["id"]
    if cnt is None or not stores:
        raise core.AnalysisBroken("LS-1: no store of a candidate step length found")
    loop = next((a for a in W.ancestors(stores[0]) if W.k(a) == "ForStmt"), None)
    incs = [x for x in (W.walk(loop) if loop is not None else []) if W.k(x) in ("UnaryOperator", "CompoundAssignOperator") and W.nodes[x].get("op") in ("++", "+=") and
            W.k(W.strip(W.nodes[x]["ch"][0])) == "DeclRefExpr" and W.nodes[W.strip(W.nodes[x]["ch"][0])]["decl"]["id"] == cnt]
    C.ob("LS-1", "walk_descents", "candidates-counted", len(incs) >= 1, W.loc(stores[0]), "%d place(s) admit a candidate into the list" % len(incs))

    def is_slot(x):
        x = W.strip(x)
        if W.k(x) != "ArraySubscriptExpr":
            return False
        b, idx = W.strip(W.nodes[x]["ch"][0]), W.strip(W.nodes[x]["ch"][1])
        return W.k(b) == "DeclRefExpr" and W.nodes[b]["decl"]["id"] == A and W.k(idx) == "DeclRefExpr" and W.nodes[idx]["decl"]["id"] == cnt
    for x in incs:
        below1 = above0 = False
        prev = x
        for a in W.ancestors(x):
            if a == loop:
                break
            if W.k(a) == "IfStmt" and (W.nodes[a].get("then") == prev or prev in set(W.walk(W.nodes[a]["then"]))):
                conn, leaves = core.cond_leaves(W, W.nodes[a]["cond"])
                if conn in ("&&", "leaf"):
                    for lf in leaves:
                        orr = W.oriented(lf, is_slot)
                        if orr and orr[1] == "<" and W.nodes[orr[2]].get("cv") == 1:
                            below1 = True
                        if orr and orr[1] == ">" and W.nodes[orr[2]].get("cv") == 0:
                            above0 = True
            prev = a
        ok = below1 and above0
        C.ob("LS-1", "walk_descents", "admitted-only-inside-(0,1)@%d" % W.nodes[x]["loc"][0], ok, W.loc(x),
             "the counter advances under candidate < 1 (%s) and candidate > 0 (%s)" % (below1, above0) if ok else
             "a candidate step length is admitted without %s: a coordinate that is exactly 0 and wants to decrease gives the candidate 0, which as "
             "the last (unconditionally accepted) element of the list returns the starting point, and nnls_normal_block3 repeats the same solve "
             "forever" % " and ".join(t for t, v in (("`< 1`", below1), ("`> 0`", above0)) if not v))


def sg7(P, C):
    """SG-7: the outer iteration cap of every block solver grows with the problem."""
    C.rule("SG-7", "the three block-pivoting solvers (nnls_normal_block, nnls_normal_block_updown, nnls_normal_block3) bound their outer loop "
           "by a count that is computed from the number of unknowns (the siblings agree on 3*nvar): an active-set method may have to release "
           "one coefficient per iteration (a data-free stretch along the monotonic dimension does exactly that), so a fixed constant stops "
           "short of the optimum on large enough tables while the function still returns normally", floor=3)
    n = 0
    for name in ("nnls_normal_block", "nnls_normal_block_updown", "nnls_normal_block3"):
        fs_ = [f for f in P.fns(name) if f.unit.startswith("fitter/")]
        if len(fs_) != 1:
            raise core.AnalysisBroken("SG-7: %s not found" % name)
        f = fs_[0]
        # the outermost loops of the body, and of those the one that contains the solve
        loops = [i for i in f.walk() if f.k(i) in ("ForStmt", "WhileStmt", "DoStmt") and not any(f.k(a) in ("ForStmt", "WhileStmt", "DoStmt") for a in f.ancestors(i))]
        main = [L for L in loops if any(cal and (cal["name"].startswith("cholmod_l_solve") or cal["name"] == "cholesky_solve") for _i, cal in f.calls(L))]
        if len(main) != 1:
            raise core.AnalysisBroken("SG-7: outer loop of %s not identified (%d candidates)" % (name, len(main)))
        L = main[0]
        cond = f.nodes[L].get("cond", -1)
        capvars = set()
        for x in f.walk(cond):
            if f.k(x) == "DeclRefExpr" and f.nodes[x]["decl"].get("kind") in ("Var", "ParmVar"):
                capvars.add(f.nodes[x]["decl"]["id"])
        # the loop's own counter (assigned in init / inc of a for loop, or decremented in the condition) is the other side of the comparison
        defs = []
        for x in f.walk():
            ap = ts.assign_parts(f, x)
            if ap and ap[1] is not None and f.nodes[x].get("op") == "=" and f.k(f.strip(ap[0])) == "DeclRefExpr" and \
                    f.nodes[f.strip(ap[0])]["decl"]["id"] in capvars and f.seq(x) < f.seq(L) and x not in set(f.walk(L)):
                defs.append((f.nodes[f.strip(ap[0])]["decl"]["id"], ap[1], x))
        sized = [d for d in defs if any(f.k(y) == "DeclRefExpr" and f.nodes[y]["decl"].get("name") in ("nvar",) for y in f.walk(d[1]))]
        consts = [d for d in defs if f.nodes[f.strip(d[1])].get("cv") is not None and f.nodes[f.strip(d[1])].get("cv") != 0]
        # a constant that only serves as a floor (chosen under a comparison with the sized expression: max(120, 3*nvar)) is fine
        def is_floor(d):
            for a in f.ancestors(d[2]):
                if f.k(a) in ("IfStmt", "ConditionalOperator") and any(f.k(y) == "DeclRefExpr" and f.nodes[y]["decl"].get("name") == "nvar" for y in f.walk(f.nodes[a]["cond"])):
                    return True
            return False
        consts = [d for d in consts if not is_floor(d)]
        ok = bool(sized) and not consts
        n += 1
        C.ob("SG-7", name, "iteration-cap-scales-with-the-problem", ok, f.loc(consts[0][2]) if consts else (f.loc(sized[0][2]) if sized else f.loc(L)),
             "outer loop bounded by %s" % f.render(sized[0][2]) if ok else
             "the outer loop is bounded by the constant %s: with more coefficients to release than that, one per iteration, the solver stops before the "
             "optimum and returns as if it had converged (its siblings use 3*nvar)" % (f.render(consts[0][2]) if consts else "?"))
    return n


def sg8(P, C):
    """SG-8: the sentinel of Lawson-Hanson's step-length search lies above every candidate."""
    C.rule("SG-8", "nnls_lawson_hanson finds the blocking coefficient as the minimum of q = x/(x - p) over the passive coefficients with p <= 0 "
           "(those with p > 0 are skipped), so 0 <= q <= 1, by a strict comparison q < alpha starting from a constant: that constant has to be "
           "greater than 1. With 1 itself a candidate whose ratio is exactly 1 (a positive coefficient whose passive-set solution is 0: a "
           "degenerate optimum) is never admitted, no coefficient is selected and the solver ends the process ('Math has failed', exit(1))", floor=1)
    f = P.one("nnls_lawson_hanson", file_endswith="nnls.c")
    found = []
    for i in f.walk():
        if f.k(i) != "IfStmt":
            continue
        conn, leaves = core.cond_leaves(f, f.nodes[i]["cond"])
        for lf in leaves:
            c, neg = core.cond_polarity(f, lf)
            n = f.nodes[c]
            if neg or n["k"] != "BinaryOperator" or n.get("op") not in ("<", "<="):
                continue
            a, b = f.strip(n["ch"][0]), f.strip(n["ch"][1])
            if f.k(a) != "DeclRefExpr" or f.k(b) != "DeclRefExpr":
                continue
            aid, bid = f.nodes[a]["decl"]["id"], f.nodes[b]["decl"]["id"]
            # the then-branch records the new minimum: b = a
            rec = [x for x in f.walk(f.nodes[i]["then"]) if ts.assign_parts(f, x) and ts.assign_parts(f, x)[1] is not None and
                   f.k(f.strip(ts.assign_parts(f, x)[0])) == "DeclRefExpr" and f.nodes[f.strip(ts.assign_parts(f, x)[0])]["decl"]["id"] == bid and
                   f.k(f.strip(ts.assign_parts(f, x)[1])) == "DeclRefExpr" and f.nodes[f.strip(ts.assign_parts(f, x)[1])]["decl"]["id"] == aid]
            if rec:
                found.append((i, aid, bid, n["op"]))
    if len(found) != 1:
        raise core.AnalysisBroken("SG-8: the minimum search of nnls_lawson_hanson (if (q < alpha) alpha = q) was not found (%d candidates)" % len(found))
    i, aid, bid, op = found[0]
    L = next((a for a in f.ancestors(i) if f.k(a) in ("ForStmt", "WhileStmt")), None)
    # the candidate is x/(x - p) and entries with p > 0 are skipped
    qdef = [ts.assign_parts(f, x)[1] for x in f.walk(L) if ts.assign_parts(f, x) and ts.assign_parts(f, x)[1] is not None and
            f.k(f.strip(ts.assign_parts(f, x)[0])) == "DeclRefExpr" and f.nodes[f.strip(ts.assign_parts(f, x)[0])]["decl"]["id"] == aid]
    ratio = False
    if len(qdef) == 1:
        q = f.strip(qdef[0])
        if f.k(q) == "BinaryOperator" and f.nodes[q]["op"] == "/":
            num, den = f.strip(f.nodes[q]["ch"][0]), f.strip(f.nodes[q]["ch"][1])
            if f.k(den) == "BinaryOperator" and f.nodes[den]["op"] == "-" and f.render(f.nodes[den]["ch"][0]).replace(" ", "") == f.render(num).replace(" ", ""):
                ptxt = f.render(f.nodes[den]["ch"][1]).replace(" ", "")
                skips = [x for x in f.walk(L) if f.k(x) == "IfStmt" and any(f.k(y) == "ContinueStmt" for y in f.walk(f.nodes[x]["then"])) and
                         ("(0<%s)" % ptxt) in f.render(f.nodes[x]["cond"]).replace(" ", "")]
                ratio = bool(skips)
    C.ob("SG-8", "nnls_lawson_hanson", "candidates-bounded-by-one", ratio, f.loc(i),
         "the candidate is x/(x - p) and entries with p > 0 are skipped: 0 <= q <= 1" if ratio else
         "the candidate of the minimum search is no longer recognisably x/(x - p) with p <= 0: the bound 1 on it is not established")
    # the sentinel: last constant assigned to the minimum before the loop
    sent = [x for x in f.walk() if ts.assign_parts(f, x) and ts.assign_parts(f, x)[1] is not None and f.k(f.strip(ts.assign_parts(f, x)[0])) == "DeclRefExpr" and
            f.nodes[f.strip(ts.assign_parts(f, x)[0])]["decl"]["id"] == bid and x not in set(f.walk(L)) and f.seq(x) < f.seq(L)]
    sent = sorted(sent, key=f.seq)
    val = None
    if sent:
        sv = f.nodes[f.strip(ts.assign_parts(f, sent[-1])[1])]
        val = sv.get("cv", sv.get("v"))
    ok = val is not None and ((op == "<" and float(val) > 1.0) or (op == "<=" and float(val) >= 1.0))
    C.ob("SG-8", "nnls_lawson_hanson", "sentinel-above-every-candidate", ok, f.loc(sent[-1]) if sent else f.loc(i),
         "search starts from %s with `%s`" % (val, op) if ok else
         "the search starts from %s and admits a candidate only if it is %s that: a ratio of exactly 1 is never selected, the solver finds no blocking "
         "coefficient and calls exit(1)" % (val, "strictly below" if op == "<" else "at most"))


def sg9(P, C):
    """SG-9: a block solver that runs out of iterations does not pass its iterate off as the optimum."""
    C.rule("SG-9", "each block-pivoting solver bounds its outer loop by an iteration cap; when the loop is left because the cap is exhausted — "
           "not because the convergence test held — the iterate is not the constrained optimum (it may have a negative component, or a zero "
           "component with a negative gradient). After the loop a test of the iteration counter that is not merely diagnostic (not under "
           "`if (verbose)`) has to separate the two exits and report the failure (NULL / error return, released result) or switch to a "
           "method that terminates; none of the three solvers has one", floor=3)
    n = 0
    for name in ("nnls_normal_block", "nnls_normal_block_updown", "nnls_normal_block3"):
        fs_ = [g for g in P.fns(name) if g.unit.startswith("fitter/")]
        if not fs_:
            continue
        f = fs_[0]
        # the outer capped loop: outermost loop whose condition tests a counter against a bound (or counts it down), with a break inside
        loops = [i for i in f.walk() if f.k(i) in ("ForStmt", "WhileStmt") and not any(f.k(a) in ("ForStmt", "WhileStmt", "DoStmt") for a in f.ancestors(i))]
        outer = None
        cvar = None
        for L in loops:
            c = f.nodes[L].get("cond", -1)
            if c is None or c < 0:
                continue
            brk = any(f.k(x) == "BreakStmt" and next((a for a in f.ancestors(x) if f.k(a) in ("ForStmt", "WhileStmt", "DoStmt", "SwitchStmt")), None) == L
                      for x in f.walk(f.nodes[L]["body"]))
            names = [f.nodes[y]["decl"] for y in f.walk(c) if f.k(y) == "DeclRefExpr" and f.nodes[y]["decl"].get("kind") == "Var" and "iter" in f.nodes[y]["decl"].get("name", "")]
            if brk and names:
                outer, cvar = L, names[0]["id"]
        if outer is None:
            C.ob("SG-9", name, "cap-exit-reported", False, f.where(), "the capped outer loop was not identified")
            n += 1
            continue
        tests = []
        for x in f.walk():
            if f.k(x) != "IfStmt" or f.seq(x) < f.seq(outer) or outer in set(f.ancestors(x)):
                continue
            if not any(f.k(y) == "DeclRefExpr" and f.nodes[y]["decl"].get("id") == cvar for y in f.walk(f.nodes[x]["cond"])):
                continue
            diagnostic = any(f.k(a) == "IfStmt" and "verbose" in f.render(f.nodes[a]["cond"]) for a in f.ancestors(x))
            acts = any(f.k(y) == "ReturnStmt" or (f.nodes[y].get("callee") or {}).get("name", "").startswith("cholmod_l_free_dense") for y in f.walk(x))
            tests.append((x, diagnostic, acts))
        ok = any((not d) and a for (_x, d, a) in tests)
        n += 1
        C.ob("SG-9", name, "cap-exit-reported", ok, f.loc(outer),
             "running out of iterations is reported to the caller" if ok else
             "the outer loop is left either by its convergence break or when the cap is exhausted, and the iterate is returned alike in both cases "
             "(%s)" % ("the only test of the counter after the loop is diagnostic, under `if (verbose)`" if tests else "the counter is not tested after the loop"))
    if n < 3:
        raise core.AnalysisBroken("SG-9: expected the three block solvers, found %d" % n)


def sg11(P, C):
    """SG-11: the iteration budget of a block solver grows with the number of unknowns."""
    C.rule("SG-11", "a block-pivoting solver may have to release the coefficients of a stretch without data one per outer iteration (the penalty "
           "couples neighbours only), so a budget that does not grow with the number of unknowns stops short of the optimum on larger "
           "problems: the cap of the outer loop — the value the counter starts from when it counts down, or the bound it is compared with — "
           "evaluated for nvar = 10, 100, 1000 and 100000 is at least 3*nvar (what all three solvers allow) in each case", floor=3)
    n = 0
    for name in ("nnls_normal_block", "nnls_normal_block_updown", "nnls_normal_block3"):
        fs_ = [g for g in P.fns(name) if g.unit.startswith("fitter/")]
        if not fs_:
            continue
        f = fs_[0]
        loops = [i for i in f.walk() if f.k(i) in ("ForStmt", "WhileStmt") and not any(f.k(a) in ("ForStmt", "WhileStmt", "DoStmt") for a in f.ancestors(i))]
        cap = None
        where = f.where()
        for L in loops:
            c = f.nodes[L].get("cond", -1)
            if c is None or c < 0:
                continue
            brk = any(f.k(x) == "BreakStmt" and next((a for a in f.ancestors(x) if f.k(a) in ("ForStmt", "WhileStmt", "DoStmt", "SwitchStmt")), None) == L
                      for x in f.walk(f.nodes[L]["body"]))
            cs = f.strip(c)
            if not brk or f.k(cs) != "BinaryOperator":
                continue
            l, r = (f.strip(x) for x in f.nodes[cs]["ch"])
            op = f.nodes[cs].get("op")
            ctr = l if f.k(l) != "UnaryOperator" else f.strip(f.nodes[l]["ch"][0])
            if f.k(ctr) != "DeclRefExpr" and f.k(r) == "UnaryOperator":
                ctr = f.strip(f.nodes[r]["ch"][0])
            if f.k(ctr) != "DeclRefExpr" or "iter" not in f.nodes[ctr]["decl"].get("name", ""):
                continue
            where = f.loc(L)
            if op == "<" and f.k(r) == "UnaryOperator" and f.nodes[r].get("op") == "--" and f.nodes[l].get("v", f.nodes[l].get("cv")) == 0:
                l, r, op = r, l, ">"            # the normal form writes `iter-- > 0` as `0 < iter--`
                ctr = f.strip(f.nodes[l]["ch"][0])
            if f.k(l) == "UnaryOperator" and f.nodes[l].get("op") == "--" and op == ">" and f.nodes[r].get("v", f.nodes[r].get("cv")) == 0:
                cap = ("start", f.nodes[ctr]["decl"].get("id"))         # while (iter-- > 0): the budget is what iter starts from
            elif op == "<" and f.k(l) == "DeclRefExpr":
                cap = ("bound", r)                                      # for (iter = 0; iter < CAP; iter++)
        vals = None
        det = "the capped outer loop was not identified"
        if cap is not None:
            def defs_of(vid):
                """(value expression, the store or None for a declaration) of every definition of the variable"""
                ds = [(d["init"], None) for x in f.walk() if f.k(x) == "DeclStmt" for d in f.nodes[x]["decls"] if d.get("id") == vid and d.get("init", -1) >= 0]
                ds += [(f.nodes[x]["ch"][1], x) for x in f.walk() if f.k(x) == "BinaryOperator" and f.nodes[x].get("op") == "=" and
                       f.k(f.strip(f.nodes[x]["ch"][0])) == "DeclRefExpr" and f.nodes[f.strip(f.nodes[x]["ch"][0])]["decl"].get("id") == vid]
                return ds
            e = cap[1]
            if cap[0] == "start":
                defs = defs_of(cap[1])
            elif f.k(e) == "DeclRefExpr" and f.nodes[e]["decl"].get("kind") == "Var":
                defs = defs_of(f.nodes[e]["decl"].get("id"))
            else:
                defs = [(e, None)]
            # definitions inside the capped loop are not the budget it starts with
            defs = [(v, st) for (v, st) in defs if st is None or not any(f.k(a_) in ("ForStmt", "WhileStmt", "DoStmt") for a_ in f.ancestors(st))]
            if not defs:
                det = "the budget has no definition in front of the loop"
            else:
                vals = []
                try:
                    for nv in (10, 100, 1000, 100000):
                        env = {"nvar": nv, "AtA->nrow": nv}
                        # the definition whose branch conditions hold for this number of unknowns (`max_iter = c ? a : b` reaches the rules as
                        # an if/else with one store per arm, N12)
                        taken = [v for (v, st) in defs if st is None or core.path_taken(f, st, env)]
                        if len(taken) != 1:
                            raise core.Unknown("%d definitions reach the loop for nvar = %d" % (len(taken), nv))
                        vals.append((nv, core.expr_value(f, taken[0], env)))
                    det = "budget: %s" % ", ".join("nvar=%d -> %s" % t for t in vals)
                except core.Unknown as u:
                    vals = None
                    det = "the budget cannot be evaluated from the number of unknowns (%s)" % u
        ok = bool(vals) and all(isinstance(v, int) and v >= 3 * nv for nv, v in vals)
        n += 1
        C.ob("SG-11", name, "budget-grows-with-the-unknowns", ok, where, det)
    if n < 3:
        raise core.AnalysisBroken("SG-11: expected the three block solvers, found %d" % n)


def sg10(P, C):
    """SG-10: the flag that says whether the snapshot of the constrained set is in use is set in every iteration."""
    from . import ts
    C.rule("SG-10", "nnls_normal_block3 chooses the coefficients to release from the live constrained set G, or — while the factor is out of step "
           "with the partition — from a snapshot of it, according to a count that is negative when the snapshot is not in use. At the end of "
           "every outer iteration that count is assigned on both sides of the `nH1 == 0` test: negative where the factor is in step again, the "
           "snapshot's size where constraints are pending. Left stale on the in-step side, later iterations keep consulting an old snapshot, a "
           "coefficient bound since then can never be released, and the solver stops at a feasible but non-optimal point", floor=2)
    f = P.one("nnls_normal_block3")
    # the selecting variable: `if (V < 0) { G_ = G ... } else { G_ = Gprime ... }`
    V = None
    for i in f.walk():
        if f.k(i) != "IfStmt" or f.nodes[i].get("else", -1) < 0:
            continue
        c = f.nodes[f.strip(f.nodes[i]["cond"])]
        if c["k"] != "BinaryOperator":
            continue
        # `V < 0` selects the live set in the then-branch; `V >= 0` (written `0 <= V` by the normal form) selects it in the else-branch
        l_, r_ = f.strip(c["ch"][0]), f.strip(c["ch"][1])
        var = None
        if c.get("op") == "<" and f.nodes[r_].get("cv") == 0 and f.k(l_) == "DeclRefExpr":
            var, live, snap = l_, f.nodes[i]["then"], f.nodes[i]["else"]
        elif c.get("op") == "<=" and f.nodes[l_].get("cv") == 0 and f.k(r_) == "DeclRefExpr":
            var, live, snap = r_, f.nodes[i]["else"], f.nodes[i]["then"]
        if var is not None:
            st_live = [f.render(x).replace(" ", "") for x in f.walk(live) if ts.assign_parts(f, x)]
            st_snap = [f.render(x).replace(" ", "") for x in f.walk(snap) if ts.assign_parts(f, x)]
            if any(re.match(r"^\(\w+=G\)$", t) for t in st_live) and any(re.match(r"^\(\w+=Gprime\)$", t) for t in st_snap):
                V = f.nodes[var]["decl"]
    if V is None:
        raise core.AnalysisBroken("SG-10: the test that selects between the live constrained set and its snapshot was not found")
    vid = V["id"]
    sel = None
    for i in f.walk():
        if f.k(i) == "IfStmt" and f.nodes[i].get("else", -1) >= 0:
            t = f.render(f.nodes[i]["cond"]).replace(" ", "")
            if t in ("(nH1==0)", "(0==nH1)"):
                sel = i

    def assigns(root):
        out = []
        for x in f.walk(root):
            ap = ts.assign_parts(f, x)
            while ap and ap[1] is not None:
                if f.k(f.strip(ap[0])) == "DeclRefExpr" and f.nodes[f.strip(ap[0])]["decl"].get("id") == vid:
                    r = f.strip(ap[1])
                    while ts.assign_parts(f, r) and ts.assign_parts(f, r)[1] is not None:      # chained: a = b = -1
                        r = f.strip(ts.assign_parts(f, r)[1])
                    out.append(f.nodes[r].get("cv"))
                nxt = f.strip(ap[1])
                ap = ts.assign_parts(f, nxt) if f.k(nxt) == "BinaryOperator" else None
        return out
    if sel is None:
        C.ob("SG-10", "nnls_normal_block3", "snapshot-flag-reset-when-in-step", False, f.where(), "the `nH1 == 0` test at the end of the outer iteration was not found")
        return
    a_then, a_else = assigns(f.nodes[sel]["then"]), assigns(f.nodes[sel]["else"])
    ok1 = any(isinstance(v, int) and v < 0 for v in a_then)
    C.ob("SG-10", "nnls_normal_block3", "snapshot-flag-reset-when-in-step", ok1, f.loc(sel),
         "%s is set negative where the factor is in step with the partition again" % V["name"] if ok1 else
         "%s is not set negative on the `nH1 == 0` side: the next iterations go on reading the snapshot taken earlier" % V["name"])
    C.ob("SG-10", "nnls_normal_block3", "snapshot-flag-set-when-pending", bool(a_else), f.loc(sel),
         "%s takes the snapshot's size where constraints are pending" % V["name"] if a_else else "%s is not assigned on the pending side" % V["name"])
