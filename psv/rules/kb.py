"""KB / SC — memory-safety structure of lookup and evaluation (serves C05, C04, C02).

KB-1 knot padding agreement, KB-2 margin guard shape, KB-3 lane cap, KB-4 output definite write,
KB-6 VLA extents positive, SC-1..4 centre lookup acceptance / clamps / wiring / NaN rejection.
"""
import re

from .. import core
from ..core import Poly
from . import ts, vg

KERNELS = {
    # name -> (convention of the order parameter, output parameters, order parameter position)
    "bsplvb_simple": ("degree", ["biatx"], 4),
    "bspline_nonzero": ("order", ["values", "derivs"], 4),
    "bspline_deriv_nonzero": ("order", ["biatx"], 4),
}


def kernels(P):
    out = []
    for nm in KERNELS:
        fs = [f for f in P.fns(nm) if f.unit == "driver" and f.file.endswith("bspline.h")]
        if len(fs) < 2:
            raise core.AnalysisBroken("kernel %s: expected float and double instantiations, found %d" % (nm, len(fs)))
        out += sorted(fs, key=lambda f: str(f.targs))
    return out


def kname(f):
    return "%s<%s>" % (f.name, ",".join(str(t) for t in f.targs))


# ------------------------------------------------------------------ KB-1
def kb1(P, C):
    C.rule("KB-1", "every knot vector stored into a table is allocate<double>(N + 2*O) + O with N, O the nknots/order element of the same table "
           "and dimension (bulk copies count as equality), and is released as (knots[i]-order[i], nknots[i]+2*order[i])", floor=7)
    sites = [s for s in ts.alloc_sites(P) if s[2][0] == "knots" and s[2][1] == 1]
    if len(sites) < 6:
        raise core.AnalysisBroken("KB-1: %d knot allocation sites (expected 6)" % len(sites))
    want = Poly.atom("nknots[#]") + Poly({("order[#]",): 2})
    for (f, i, r, cnt, off, ty) in sites:
        name = ts.fshort(f)
        pc = ts.norm_count(f, cnt)
        po = ts.norm_count(f, off) if off is not None else None
        ok = pc == want and po == Poly.atom("order[#]") and ty == "double"
        det = "allocate<%s>(%r) + %r" % (ty, pc, po)
        # same dimension: the index of knots[...] on the left equals the index inside the size
        lhs_idx = re.findall(r"knots\[(\w+)\]", f.render(ts.assign_parts(f, i)[0]))
        size_idx = set(re.findall(r"\[(\w+)\]", f.render(cnt) + (f.render(off) if off is not None else "")))
        if lhs_idx and size_idx != {lhs_idx[0]}:
            ok = False
            det += "; index of the sizes %s differs from the dimension being stored %s" % (sorted(size_idx), lhs_idx)
        # same table: if the sizes are read from another object, that object's order/nknots must have been bulk-copied into the target
        objs = set(re.findall(r"(\w+)->(?:nknots|order)\[", f.render(cnt)))
        tgt = r[2]
        if objs and objs != {tgt}:
            src = list(objs)[0]
            copies = [f.render(x).replace(" ", "") for x, cal in f.calls() if cal and cal["name"] == "copy_n"]
            need = ["copy_n(%s->order,%s->ndim,%s->order)" % (src, src, tgt), "copy_n(%s->nknots,%s->ndim,%s->nknots)" % (src, src, tgt)]
            if not all(n in copies for n in need):
                ok = False
                det += "; sizes come from %s but the target %s's order/nknots are not bulk copies of it" % (src, tgt)
            else:
                det += "; sizes read from %s whose order/nknots were bulk-copied into %s" % (src, tgt)
        C.ob("KB-1", name, "alloc@%d" % ts.ordinal(ts.alloc_sites(P), f, i, "knots", 1), ok, f.loc(i), det)
    # release side: clear() (or the destructor when there is no clear())
    rel = [f for f in P.fns(ts.RESET_FN) if f.cls == ts.CLS] or [f for f in P.functions.values() if f.cls == ts.CLS and f.kind == "dtor"]
    others = [f for f in P.fns("convolve") if f.cls == ts.CLS and f.unit == "driver"]
    for f in rel + others:
        for i, cal in f.calls():
            if cal and cal["name"] == "deallocate":
                a = f.args(i)
                r = ts.root_member(f, a[0])
                if r and r[0] == "knots" and r[1] == 1:
                    base = ts.norm_count(f, a[0])
                    cnt = ts.norm_count(f, a[1])
                    ok = base == Poly.atom("knots[#]") - Poly.atom("order[#]") and cnt == want
                    C.ob("KB-1", ts.fshort(f) if f.kind != "dtor" else "~splinetable", "release", ok, f.loc(i),
                         "deallocate(%r, %r)" % (base, cnt))


# ------------------------------------------------------------------ KB-2
def kb2(P, C):
    C.rule("KB-2", "in every basis kernel the down-shift loop carries `left >= 0` and the up-shift loop `left < nknots-1` as the FIRST conjunct, "
           "and the loops are entered only from the boundary centres (left == order / left == nknots-order-2)", floor=12)
    for f in kernels(P):
        conv = KERNELS[f.name][0]
        left = f.params[3]["id"]
        pidx = {p["id"]: k for k, p in enumerate(f.params)}
        at = vg.atomizer(f, ())
        loops = [i for i in f.walk() if f.k(i) == "WhileStmt"]
        down = up = None
        for L in loops:
            body = f.render(f.nodes[L]["body"]).replace(" ", "")
            if body in ("(left--)", "(--left)", "($3--)"):
                down = L
            if body in ("(left++)", "(++left)"):
                up = L
        for (tag, L, want_bound, want_entry) in (
                ("down", down, vg.P_("-$3 - 1"), (vg.P_("$3 - $4") if conv == "order" else vg.P_("$3 - $4 + 1"))),
                ("up", up, vg.P_("$3 - $1 + 1"), (vg.P_("$3 - $1 + $4 + 2") if conv == "order" else vg.P_("$3 - $1 + $4 + 1")))):
            if L is None:
                C.ob("KB-2", kname(f), tag + "-shift", False, f.where(), "margin shift loop not found")
                continue
            conn, leaves = core.cond_leaves(f, f.nodes[L]["cond"])
            first = core.rel_canon(f, leaves[0], at) if leaves else None
            ok = conn == "&&" and first == (want_bound, "<0")
            det = "loop condition %s: first conjunct %s, required %r < 0" % (f.render(f.nodes[L]["cond"]), first, want_bound)
            # entry condition
            ifs = [a for a in f.ancestors(L) if f.k(a) == "IfStmt"]
            entry = core.rel_canon(f, f.nodes[ifs[0]]["cond"], at) if ifs else None
            oke = entry is not None and entry[1] == "==0" and entry[0] in (core.eq_norm(want_entry),)
            # the knot read in the same condition uses the guarded index
            C.ob("KB-2", kname(f), tag + "-shift-bound", ok, f.loc(L), det)
            C.ob("KB-2", kname(f), tag + "-shift-entry", oke, f.loc(ifs[0]) if ifs else f.loc(L),
                 "shift loop entered only when %s (required %r == 0)" % (f.render(f.nodes[ifs[0]]["cond"]) if ifs else None, core.eq_norm(want_entry)))


def kb2b(P, C):
    C.rule("KB-2b", "in every basis kernel the two margin shifts are independent: the up-shift (right margin) is not nested in the else-branch "
           "of the down-shift's entry test, nor the other way round — for the shortest admitted knot vector (nknots = 2*order+2, exactly "
           "order+1 coefficients) both entry tests name the same centre, and a point in the right margin must still reach the up-shift", floor=6)
    for f in kernels(P):
        loops = [i for i in f.walk() if f.k(i) == "WhileStmt"]
        down = up = None
        for L in loops:
            body = f.render(f.nodes[L]["body"]).replace(" ", "")
            if body in ("(left--)", "(--left)", "($3--)"):
                down = L
            if body in ("(left++)", "(++left)", "($3++)"):
                up = L
        if down is None or up is None:
            C.ob("KB-2b", kname(f), "margins-independent", False, f.where(), "margin shift loops not found")
            continue
        gd = [a for a in f.ancestors(down) if f.k(a) == "IfStmt"]
        gu = [a for a in f.ancestors(up) if f.k(a) == "IfStmt"]
        nested = None
        if gd and gu:
            if gd[0] in set(f.ancestors(gu[0])) and f.nodes[gd[0]].get("else", -1) >= 0 and gu[0] in set(f.walk(f.nodes[gd[0]]["else"])):
                nested = "the up-shift is reachable only when the down-shift's entry test (left == order) fails"
            if gu[0] in set(f.ancestors(gd[0])) and f.nodes[gu[0]].get("else", -1) >= 0 and gd[0] in set(f.walk(f.nodes[gu[0]]["else"])):
                nested = "the down-shift is reachable only when the up-shift's entry test fails"
        # the loops' own conditions keep them exclusive (x < knots[left] vs x > knots[left+1]), so making them independent is harmless
        C.ob("KB-2b", kname(f), "margins-independent", bool(gd) and bool(gu) and nested is None, f.loc(gu[0]) if gu else f.where(),
             "both margin shifts are reachable whatever the other's entry test says" if nested is None else
             nested + ": with nknots == 2*order+2 both tests hold for the single centre, so right-margin points are evaluated without the shift (wrong values)")


def kb2c(P, C):
    """KB-2c: which polynomial piece a point ON a knot gets in the margins."""
    C.rule("KB-2c", "a point exactly on a knot belongs to the piece on its right below the supported range and to the piece on its LEFT from the "
           "upper end of the supported range upwards (so the last supported point and the last knot are included): in every basis kernel the "
           "down-shift walks on while `x < knots[left]` and the up-shift while `x > knots[left+1]` — both strict. With `>=` in the up-shift a "
           "point on a knot of the upper margin moves one span further: on the last knot every basis function is shifted out and the value is 0", floor=12)
    for f in kernels(P):
        xid = f.params[2]["id"]
        loops = [i for i in f.walk() if f.k(i) == "WhileStmt"]
        for L in loops:
            body = f.render(f.nodes[L]["body"]).replace(" ", "")
            tag = "down" if body in ("(left--)", "(--left)", "($3--)") else "up" if body in ("(left++)", "(++left)", "($3++)") else None
            if tag is None:
                continue
            conn, leaves = core.cond_leaves(f, f.nodes[L]["cond"])
            got = None
            for lf in leaves:
                n = f.nodes[f.strip(lf)]
                if n["k"] != "BinaryOperator" or n.get("op") not in ("<", "<=", ">", ">="):
                    continue
                orr = f.oriented(f.strip(lf), lambda y: f.k(f.strip(y)) == "DeclRefExpr" and f.nodes[f.strip(y)]["decl"].get("id") == xid)
                if orr is None:
                    continue
                got = (orr[1], f.render(orr[2]).replace(" ", ""))
            want = ("<", "knots[left]") if tag == "down" else (">", "knots[(left+1)]")
            ok = got == want
            C.ob("KB-2c", kname(f), tag + "-shift-strict", ok, f.loc(L),
                 "the %s-shift goes on while x %s %s" % (tag, want[0], want[1]) if ok else
                 "the %s-shift goes on while x %s %s (required: x %s %s, strictly): a point exactly on a knot of the %s margin gets the piece on the other side of it" %
                 (tag, got[0] if got else "?", got[1] if got else "?", want[0], want[1], "upper" if tag == "up" else "lower"))


def kb7(P, C):
    C.rule("KB-7", "bspline_nonzero moves the value basis and the derivative basis in lock-step when it re-indexes them for a partially supported "
           "point: every element move `values[a] = values[b]` has the twin `derivs[a] = derivs[b]` with the same index expressions in the same "
           "loop, and both are zero-filled over the same range", floor=2)
    for f in kernels(P):
        if f.name != "bspline_nonzero":
            continue
        vid, did = f.params[5]["id"], f.params[6]["id"]

        def moves(aid):
            out = []
            for i in f.walk():
                n = f.nodes[i]
                if n["k"] != "BinaryOperator" or n["op"] != "=":
                    continue
                l = f.strip(n["ch"][0])
                if f.k(l) != "ArraySubscriptExpr" or f.k(f.strip(f.nodes[l]["ch"][0])) != "DeclRefExpr" or f.nodes[f.strip(f.nodes[l]["ch"][0])]["decl"]["id"] != aid:
                    continue
                r = f.strip(n["ch"][1])
                # chained zero fill: values[j] = derivs[j] = 0.0
                while f.k(r) == "BinaryOperator" and f.nodes[r]["op"] == "=":
                    r = f.strip(f.nodes[r]["ch"][1])
                loops = tuple(f.render(f.nodes[a]["cond"]).replace(" ", "") + "|" + f.render(f.nodes[a]["inc"]).replace(" ", "") for a in f.ancestors(i) if f.k(a) == "ForStmt")
                li = f.render(f.nodes[l]["ch"][1]).replace(" ", "")
                if f.k(r) == "ArraySubscriptExpr" and f.k(f.strip(f.nodes[r]["ch"][0])) == "DeclRefExpr" and f.nodes[f.strip(f.nodes[r]["ch"][0])]["decl"]["id"] == aid:
                    out.append(("move", li, f.render(f.nodes[r]["ch"][1]).replace(" ", ""), loops))
                elif f.nodes[r].get("v") == 0 or f.nodes[r].get("cv") == 0:
                    out.append(("zero", li, "", loops))
            return sorted(out)
        mv, md = moves(vid), moves(did)
        # the derivative array has additional stores (the derivative formula itself): compare only moves and zero fills inside the rearrangement
        rear = lambda ms: [m for m in ms if m[0] == "move" or (m[0] == "zero" and m[3])]
        a, b = rear(mv), rear(md)
        ok = a == b and len([m for m in a if m[0] == "move"]) >= 2
        diff = [m for m in a if m not in b] + [m for m in b if m not in a]
        C.ob("KB-7", kname(f), "lock-step", ok, f.where(),
             ("%d moves and %d zero fills, identical for values and derivs" % (len([m for m in a if m[0] == "move"]), len([m for m in a if m[0] == "zero"]))) if ok else
             "values and derivs are re-indexed differently: %s" % [(m[0], m[1], m[2]) for m in diff][:4])


# ------------------------------------------------------------------ KB-3
def gradient_fns(P):
    fs = [f for f in P.fns("ndsplineeval_gradient") if f.unit == "driver" and f.file.endswith("bspline_multi.h")]
    if len(fs) != 4:
        raise core.AnalysisBroken("ndsplineeval_gradient: expected 4 bodies (table/evaluator x float/double), found %d" % len(fs))
    return fs


def gname(f):
    return ("evaluator::" if "evaluator_type" in (f.cls or "") else "table::") + "%s<%s>" % (f.name, ",".join(
        str(t) for t in (f.targs or re.findall(r"evaluator_type<(\w+)>", f.cls or "") or ["float"])))


def kb3(P, C):
    C.rule("KB-3", "gradient evaluation: the `ndim+1 > MAXDIM` throw dominates every lane store and the core call; NVECS*VECTOR_SIZE >= MAXDIM; "
           "the lane loop runs to ndim+1; every per-dimension vector core that can be reached below the cap uses at most NVECS vectors", floor=30)
    for f in gradient_fns(P):
        name = gname(f)
        at = vg.atomizer(f, ())
        gs = vg.guards_of(f)
        cap = None
        capval = None
        for g in gs:
            for lf in g["leaves"]:
                if isinstance(lf[0], Poly) and lf[1] == "<0":
                    d = lf[0]
                    atoms = d.atoms()
                    if len(atoms) == 1 and list(atoms)[0].replace("table.", "") == "ndim" and d.t.get((list(atoms)[0],)) == -1:
                        cap, capval = g, d.const_value() + 1     # throw if capval - 1 - ndim < 0  <=> ndim + 1 > capval
        pos = f.node_positions()
        dom = f.dominators()
        ok = cap is not None
        det = "no `ndim+1 > MAXDIM` guard"
        lanes = None
        if ok:
            gb = next(pos[x][0] for x in f.walk(f.nodes[cap["node"]]["cond"]) if x in pos)
            # lane stores: assignments through a cast of localbasis[n][i] indexed by a lane variable
            stores = [i for i in f.walk() if ts.assign_parts(f, i) and "localbasis[" in f.render(ts.assign_parts(f, i)[0]) and i in pos]
            calls = [i for i in f.walk() if f.k(i) in ("CXXMemberCallExpr", "CallExpr") and i in pos and
                     ((f.nodes[i].get("callee") or {}).get("name", "").startswith("ndsplineeval_multibasis") or f.nodes[i].get("indirect"))]
            undominated = [i for i in stores + calls if gb not in dom[pos[i][0]] or gb == pos[i][0]]
            ok = bool(stores) and bool(calls) and not undominated
            det = "cap %d: guard `%s` dominates %d lane store(s) and %d core call(s); not dominated: %s" % (
                capval, cap["text"], len(stores), len(calls), [f.loc(i) for i in undominated][:3])
        C.ob("KB-3", name, "cap-dominates", ok, f.loc(cap["node"]) if cap else f.where(), det)
        # constants
        nvecs = vec = None
        for i in f.walk():
            if f.k(i) == "DeclStmt":
                for d in f.nodes[i]["decls"]:
                    if d.get("name") == "acc" and "constExtent" in d:
                        nvecs = d["constExtent"]
                        m = re.search(r"ext_vector_type\((\d+)\)|vector_size\((\d+)", d.get("ctype", ""))
                        if m:
                            vec = int(m.group(1) or 0) or None
        C.ob("KB-3", name, "lanes>=cap", nvecs is not None and vec is not None and capval is not None and nvecs * vec >= capval, f.where(),
             "accumulator holds NVECS=%s vectors of %s lanes; cap on ndim+1 is %s" % (nvecs, vec, capval))
        # lane loop bound
        lane_loops = [i for i in f.walk() if f.k(i) == "ForStmt" and any(
            ts.assign_parts(f, x) and "localbasis[" in f.render(ts.assign_parts(f, x)[0]) for x in f.walk(f.nodes[i]["body"]))]
        inner = lane_loops[-1] if lane_loops else None
        okb = False
        if inner is not None:
            rc = core.rel_canon(f, f.nodes[inner]["cond"], at)
            okb = rc is not None and rc[1] == "<0" and repr(rc[0]).replace("table.", "") in ("-1 + j - ndim", "-1 - ndim + j")
        C.ob("KB-3", name, "lane-loop-bound", okb, f.loc(inner) if inner is not None else f.where(),
             "lanes 1..ndim are written: %s" % (f.render(f.nodes[inner]["cond"]) if inner is not None else None))
        C.extra.setdefault("gradient_caps", {})[name] = capval
    # vector cores: VC for each instantiated D
    cores = [f for f in P.functions.values() if f.unit == "driver" and f.name in ("ndsplineeval_multibasis_coreD", "ndsplineeval_multibasis_coreD_FixedOrder")]
    if len(cores) < 30:
        raise core.AnalysisBroken("vector cores: %d instantiations (expected 48)" % len(cores))
    capval = 8
    n_ok = 0
    for f in cores:
        D = f.targs[1]
        VC = None
        for i in f.walk():
            if f.k(i) == "DeclStmt":
                for d in f.nodes[i]["decls"]:
                    if d.get("name") == "VC" and d.get("init", -1) >= 0:
                        VC = f.nodes[d["init"]].get("cv")
        reachable = D + 1 <= capval
        ok = VC is not None and (not reachable or VC <= 2)
        if reachable:
            n_ok += 1
            C.ob("KB-3", "%s<%s>" % (f.name, ",".join(str(t) for t in f.targs)), "VC<=NVECS", ok, f.where(),
                 "D=%s needs VC=%s vectors; caller provides NVECS=2 (reachable since D+1 <= %d)" % (D, VC, capval))
    C.extra["vector_cores_checked"] = n_ok


# ------------------------------------------------------------------ KB-4
def kb4(P, C):
    C.rule("KB-4", "every basis kernel stores slot 0 of each output array on every path from entry to return (the order-0 case has exactly that "
           "slot; evaluation multiplies it into the result from an uninitialised stack buffer)", floor=8)
    for f in kernels(P):
        outs = [p for p in f.params if p["name"] in KERNELS[f.name][1]]
        out_ids = {p["id"]: p["name"] for p in outs}

        def transfer(st, e, b, j):
            if e.get("kind") != "stmt":
                return st
            i = e["n"]
            ap = ts.assign_parts(f, i)
            if ap:
                for tgt in [ap[0]] + ([ap[1]] if ap[1] is not None and ts.assign_parts(f, f.strip(ap[1])) else []):
                    l = f.strip(tgt)
                    if f.k(l) == "ArraySubscriptExpr":
                        b0 = f.strip(f.nodes[l]["ch"][0])
                        if f.k(b0) == "DeclRefExpr" and f.nodes[b0]["decl"]["id"] in out_ids and f.nodes[f.nodes[l]["ch"][1]].get("cv") == 0:
                            st = st | {f.nodes[b0]["decl"]["id"]}
                # chained a[0] = b[0] = v
                r = ap[1]
                while r is not None and ts.assign_parts(f, f.strip(r)):
                    ap2 = ts.assign_parts(f, f.strip(r))
                    l = f.strip(ap2[0])
                    if f.k(l) == "ArraySubscriptExpr":
                        b0 = f.strip(f.nodes[l]["ch"][0])
                        if f.k(b0) == "DeclRefExpr" and f.nodes[b0]["decl"]["id"] in out_ids and f.nodes[f.nodes[l]["ch"][1]].get("cv") == 0:
                            st = st | {f.nodes[b0]["decl"]["id"]}
                    r = ap2[1]
            n = f.nodes[i]
            if n["k"] == "CallExpr" and (n.get("callee") or {}).get("name") == "bsplvb":
                a = f.args(i)
                if f.nodes[a[3]].get("cv") == 0:      # jlow == 0: bsplvb stores biatx[0] (checked on bsplvb itself below)
                    t = f.strip(a[5])
                    if f.k(t) == "DeclRefExpr" and f.nodes[t]["decl"]["id"] in out_ids:
                        st = st | {f.nodes[t]["decl"]["id"]}
            return st
        IN, OUT = core.dataflow(f, frozenset(), transfer, lambda a, b: a & b)
        at_exit = IN.get(f.cfg["exit"], frozenset())
        for pid, nm in out_ids.items():
            C.ob("KB-4", kname(f), "slot0:" + nm, pid in at_exit, f.where(),
                 "%s[0] is %s on every path to a return" % (nm, "stored" if pid in at_exit else "NOT stored (some path returns without writing it)"))
    # summary used above: bsplvb stores biatx[0] when jlow == 0
    for f in [g for g in P.fns("bsplvb") if g.unit == "driver"]:
        ifs = [i for i in f.walk() if f.k(i) == "IfStmt"]
        ok = False
        for i in ifs:
            rc = core.rel_canon(f, f.nodes[i]["cond"], vg.atomizer(f, ()))
            if rc == (core.eq_norm(vg.P_("$3")), "==0"):
                then = f.render(f.nodes[i]["then"]).replace(" ", "")
                ok = then.startswith("(biatx[0]=") or then.startswith("($5[0]=")
        C.ob("KB-4", kname(f), "summary:jlow==0-stores-slot0", ok, f.where(), "bsplvb stores biatx[0] when jlow == 0 (summary used for its callers)")


# ------------------------------------------------------------------ KB-6
VLA_FUNCS = ("bsplvb_simple", "bspline_nonzero", "bspline_deriv_nonzero", "ndsplineeval", "ndsplineeval_deriv", "ndsplineeval_gradient",
             "ndsplineeval_core", "ndsplineeval_multibasis_core", "operator()")


def kb6(P, C):
    C.rule("KB-6", "every variable-length array on the evaluation path has an extent >= 1 for the admitted ranges (ndim >= 1, order >= 0, "
           "degree >= 1), taking dominating early returns into account", floor=20)
    LB = {"ndim": 1, "table.ndim": 1, "maxdegree": 1, "degree": 1, "$4@degree": 1}
    n = 0
    for f in P.functions.values():
        if f.unit != "driver" or f.name not in VLA_FUNCS or "/include/photospline/" not in f.file:
            continue
        pos = f.node_positions()
        dom = f.dominators()
        for i in f.walk():
            if f.k(i) != "DeclStmt":
                continue
            for d in f.nodes[i]["decls"]:
                if not d.get("vla"):
                    continue
                for e in d.get("extents", []):
                    if e < 0:
                        continue
                    n += 1
                    p = core.poly(f, e)
                    lb = 0
                    ok = True
                    why = []
                    for mono, c in p.t.items():
                        term = c
                        for a in mono:
                            a2 = a.replace("this->", "")
                            if a2 in LB:
                                term *= LB[a2]
                                why.append("%s>=%d" % (a2, LB[a2]))
                            elif a2 == "n" and f.name in KERNELS:
                                # order parameter: >= 0, or >= 1 after a dominating `if (n == 0) return`
                                one = nonzero_guard_dominates(f, i, pos, dom)
                                term *= 1 if one else 0
                                why.append("n>=%d" % (1 if one else 0))
                            else:
                                ok = False
                                why.append("no lower bound for %s" % a2)
                        if c < 0:
                            ok = False
                        lb += term
                    ok = ok and lb >= 1
                    name = kname(f) if f.name in KERNELS else (gname(f) if f.name == "ndsplineeval_gradient" else
                                                               ("%s%s" % ("evaluator::" if "evaluator_type" in (f.cls or "") else "", f.name) + "<%s>" % ",".join(str(t) for t in f.targs)))
                    C.ob("KB-6", name, "vla:%s[%s]" % (d["name"], f.render(e)), ok, f.loc(i),
                         "extent %r >= %s (%s)" % (p, lb, ", ".join(sorted(set(why)))) if ok else
                         "extent %r can be %s: a zero-length variable-length array is undefined behaviour (%s)" % (p, lb, ", ".join(sorted(set(why)))))
    return n


def nonzero_guard_dominates(f, decl, pos, dom):
    """is `decl` dominated by the fall-through of `if (n == 0) return`?"""
    db = None
    for x in f.walk(decl):
        if x in pos:
            db = pos[x][0]
            break
    if decl in pos:
        db = pos[decl][0]
    for i in f.walk():
        if f.k(i) != "IfStmt":
            continue
        rc = core.rel_canon(f, f.nodes[i]["cond"], vg.atomizer(f, ()))
        if rc is None or rc[1] != "==0" or rc[0] != core.eq_norm(vg.P_("$4")):
            continue
        if not any(f.k(x) == "ReturnStmt" for x in f.walk(f.nodes[i]["then"])):
            continue
        cb = next((pos[x][0] for x in f.walk(f.nodes[i]["cond"]) if x in pos), None)
        if cb is None or db is None:
            continue
        inthen = set(f.walk(f.nodes[i]["then"]))
        if cb in dom[db] and decl not in inthen and cb != db:
            return True
        if cb == db:
            # same block: the decl comes after the branch?  a block ends at its terminator, so same block means before it
            return False
    return False


# ------------------------------------------------------------------ SC
def frel(f, c):
    """float comparison leaf -> (lhs, op, rhs) with negation folded (ordered semantics); texts are alpha/param-normalised."""
    c, neg = core.cond_polarity(f, c)
    n = f.nodes[c]
    if n["k"] != "BinaryOperator" or n["op"] not in ("<", "<=", ">", ">="):
        return None
    op = n["op"]
    if neg:
        op = {"<": ">=", "<=": ">", ">": "<=", ">=": "<"}[op]
    pidx = {p["id"]: k for k, p in enumerate(f.params)}
    a = vg._render_norm(f, n["ch"][0], pidx)
    b = vg._render_norm(f, n["ch"][1], pidx)
    a, b = (re.sub(r"\[([A-Za-z_]\w*)\]", "[#]", t).replace(" ", "") for t in (a, b))
    if not a.startswith("$0"):
        a, b = b, a
        op = {"<": ">", "<=": ">=", ">": "<", ">=": "<="}[op]
    return (a, op, b)


def unordered_eval(f, c):
    """value of condition c when every ordered comparison involving the coordinate is false (x is NaN): True/False/None"""
    c = f.strip(c)
    n = f.nodes[c]
    if n["k"] == "UnaryOperator" and n["op"] == "!":
        v = unordered_eval(f, n["ch"][0])
        return None if v is None else (not v)
    if n["k"] == "BinaryOperator":
        if n["op"] in ("<", "<=", ">", ">=", "=="):
            return False if "x[" in f.render(c) or "$0" in f.render(c) else None
        if n["op"] == "!=":
            return True if "x[" in f.render(c) else None
        if n["op"] in ("&&", "||"):
            a, b = unordered_eval(f, n["ch"][0]), unordered_eval(f, n["ch"][1])
            if n["op"] == "&&":
                if a is False or b is False:
                    return False
                return True if (a and b) else None
            if a is True or b is True:
                return True
            return False if (a is False and b is False) else None
    return None


def search_fn(P):
    fs = [f for f in P.fns("searchcenters") if f.cls == ts.CLS and f.unit == "driver"]
    if len(fs) != 1:
        raise core.AnalysisBroken("searchcenters: expected one instantiation")
    return fs[0]


def sc4(P, C):
    C.rule("SC-4", "searchcenters touches coordinates only through comparisons; with every comparison false (NaN) the failure exit is taken", floor=1)
    f = search_fn(P)
    rets = [i for i in f.walk() if f.k(i) == "ReturnStmt" and f.nodes[f.nodes[i]["value"]].get("cv") == 0]
    ok = False
    det = "no failure exit"
    for r in rets:
        ifs = [a for a in f.ancestors(r) if f.k(a) == "IfStmt"]
        if ifs:
            v = unordered_eval(f, f.nodes[ifs[0]]["cond"])
            det = "range test `%s` evaluates to %s when the coordinate is NaN" % (f.render(f.nodes[ifs[0]]["cond"]), v)
            ok = v is True
    # x only in comparisons
    uses = [i for i in f.walk() if f.k(i) == "DeclRefExpr" and f.nodes[i]["decl"].get("id") == f.params[0]["id"]]
    only_cmp = True
    for u in uses:
        a = next((p for p in f.ancestors(u) if f.k(p) == "BinaryOperator"), None)
        if a is None or f.nodes[a]["op"] not in ("<", "<=", ">", ">=", "==", "!="):
            only_cmp = False
    C.ob("SC-4", "searchcenters", "nan-rejected", ok and only_cmp, f.loc(rets[0]) if rets else f.where(),
         det + ("; coordinates are used only in comparisons" if only_cmp else "; coordinates are used outside comparisons") +
         ("" if ok else ": lookup succeeds on NaN with the midpoint of the search interval as centre, which exceeds nknots-order-2 on tables "
          "with fewer than 3*order+2 knots, and evaluation reads past the coefficients"))


def sc5(P, C):
    """SC-5: the centres are an output: written for every dimension, never read before they were written."""
    C.rule("SC-5", "searchcenters computes centers[i] from the coordinate and the table alone: in every round of the loop over the dimensions "
           "that reaches the next round (or the end of the loop) an element store `centers[i] = ..` has been executed, and no element of "
           "`centers` is read in a round before that store — what the caller's array held before the call (zeros of a fresh vector, the "
           "centres of the previous point, stack garbage in operator()) has no influence on the result", floor=2)
    f = search_fn(P)
    cid = f.params[1]["id"]
    loops = [i for i in f.walk() if f.k(i) == "ForStmt" and not any(f.k(a) in ("ForStmt", "WhileStmt", "DoStmt") for a in f.ancestors(i))]
    if len(loops) != 1:
        raise core.AnalysisBroken("SC-5: expected one loop over the dimensions in searchcenters, found %d" % len(loops))
    L = loops[0]
    body = set(f.walk(f.nodes[L]["body"]))

    def is_centers_elem(x):
        x = f.strip(x)
        if f.k(x) != "ArraySubscriptExpr":
            return False
        b = f.strip(f.nodes[x]["ch"][0])
        return f.k(b) == "DeclRefExpr" and f.nodes[b]["decl"].get("id") == cid and f.nodes[b]["decl"].get("kind") == "ParmVar"
    stores = set()
    for x in body:
        n = f.nodes[x]
        if n["k"] == "BinaryOperator" and n.get("op") == "=" and is_centers_elem(n["ch"][0]):
            stores.add(x)
    store_lhs = {f.strip(f.nodes[x]["ch"][0]) for x in stores}
    reads = [x for x in body if is_centers_elem(x) and f.strip(x) == x and x not in store_lhs]
    # compound assignments and increments read the element too
    pos = f.node_positions()
    inc = f.nodes[L].get("inc", -1)
    inc_nodes = set(f.walk(inc)) if inc is not None and inc >= 0 else set()
    cond_nodes = set(f.walk(f.nodes[L]["cond"])) if f.nodes[L].get("cond", -1) >= 0 else set()
    head_blocks = {pos[x][0] for x in cond_nodes if x in pos}

    def transfer(st, e, b, j):
        if e.get("kind") != "stmt":
            return st
        if e["n"] in stores:
            return True
        return st

    def edge(st, b, k, s, cond):
        return False if s in head_blocks and False else st
    # a round starts at the first element of the body: must-analysis with the state reset on entry to the loop head
    def transfer2(st, e, b, j):
        if b in head_blocks:
            return False if e.get("kind") == "stmt" and e["n"] in cond_nodes else st
        return transfer(st, e, b, j)
    IN, OUT = core.dataflow(f, False, transfer2, lambda a, b: a and b)
    early = []
    for r in reads:
        x = r
        while x >= 0 and x not in pos:
            x = f.parent[x]
        if x < 0 or pos[x][0] not in IN:
            continue
        b, j = pos[x]
        st = core.state_before(f, IN, transfer2, b, j)
        if not st:
            early.append(r)
    C.ob("SC-5", "searchcenters", "never-read-before-written", not early, f.loc(early[0]) if early else f.loc(L),
         "%d read(s) of centers[..] in the loop, %d of them before the round has stored the element%s" %
         (len(reads), len(early), (": `%s`" % f.render(f.parent[early[0]])[:90]) if early else ""))
    # every round that goes on to the next one has stored its element: state at the increment (or, without one, on the back edge)
    inc_pos = [pos[x] for x in inc_nodes if x in pos]
    ok = bool(stores) and bool(inc_pos)
    if ok:
        b, j = min(inc_pos)
        ok = bool(core.state_before(f, IN, transfer2, b, j))
    C.ob("SC-5", "searchcenters", "written-in-every-round", ok, f.loc(L),
         "on every path through a round that reaches the increment an element store centers[i] = .. has been executed (%d store(s) in the loop)" % len(stores))


def sc123(P, C):
    C.rule("SC-1", "searchcenters: the only failure exit is guarded, per dimension and before any store to centers[i], by the rejection of "
           "x <= first knot or x > last knot (ordered semantics, modulo negation); `return true` only after the loop; no other exit", floor=3)
    C.rule("SC-2", "margin clamps assign order[i] under x < knots[order] and naxes[i]-1 under x >= knots[naxes]; the post-search adjustment "
           "decrements exactly when the centre equals naxes[i]; the binary search runs over [order, nknots-2], halves its interval each step and "
           "can only be left with knots[c] <= x < knots[c+1]", floor=6)
    C.rule("SC-3", "operator() (table and evaluator) evaluates only when lookup succeeded and returns literal 0 otherwise; the C lookup forwards the result", floor=3)
    f = search_fn(P)
    loops = [i for i in f.walk() if f.k(i) == "ForStmt"]
    outer = loops[0]
    okl, txt = vg.full_range_loop(f, outer, ("ndim", "this->ndim"))
    rets = [i for i in f.walk() if f.k(i) == "ReturnStmt"]
    fails = [i for i in rets if f.nodes[f.nodes[i]["value"]].get("cv") == 0]
    succ = [i for i in rets if f.nodes[f.nodes[i]["value"]].get("cv") == 1]
    throws = [i for i in f.walk() if f.k(i) == "CXXThrowExpr"]
    # the refusal of an empty table (if (ndim == 0) return false; in front of the loop, ES-2) is not a per-dimension exit
    from . import pm as _pm
    zex = [z for z in _pm._zero_dim_exits(f) if f.parent[z] == f.body and outer in f.ch(f.body) and f.ch(f.body).index(z) < f.ch(f.body).index(outer)]
    zrets = [r for r in fails if any(r in set(f.walk(z)) for z in zex)]
    fails = [r for r in fails if r not in zrets]
    rets = [r for r in rets if r not in zrets]
    C.ob("SC-1", "searchcenters", "exits", len(fails) == 1 and len(succ) == 1 and not throws and len(rets) == 2 and okl and
         f.parent[succ[0]] == f.body and outer in f.ch(f.body) and f.ch(f.body).index(outer) < f.ch(f.body).index(succ[0]), f.where(),
         "one failure exit, one success exit after the loop over all dimensions (%s), no throw: fails=%d succ=%d throws=%d" % (txt, len(fails), len(succ), len(throws)))
    ok = False
    det = ""
    if fails:
        ifs = [a for a in f.ancestors(fails[0]) if f.k(a) == "IfStmt"]
        if ifs:
            cond = f.nodes[ifs[0]]["cond"]
            c, neg = core.cond_polarity(f, cond)
            conn, leaves = core.cond_leaves(f, c)
            rels = [frel(f, l) for l in leaves]
            if neg:
                # !(A && B)  ==  !A || !B
                flip = {"<": ">=", "<=": ">", ">": "<=", ">=": "<"}
                rels = [(r[0], flip[r[1]], r[2]) if r else None for r in rels]
                conn = {"&&": "||", "||": "&&", "leaf": "leaf"}[conn]
            want = {("$0[#]", "<=", "knots[#][0]"), ("$0[#]", ">", "knots[#][(nknots[#]-1)]")}
            ok = conn == "||" and set(rels) == want
            det = "rejects when %s %s" % (" or ".join("%s %s %s" % r for r in rels if r), "(required: x <= first knot or x > last knot)")
            # precedes any store to centers in the iteration: the if is the first statement of the loop body
            body = f.nodes[outer]["body"]
            ok = ok and f.ch(body)[0] == ifs[0]
    C.ob("SC-1", "searchcenters", "acceptance-test", ok, f.loc(fails[0]) if fails else f.where(), det)
    stores_before = False
    C.ob("SC-1", "searchcenters", "test-first-in-iteration", ok, f.where(), "the range test is the first statement of every iteration (no store to centers[i] before it)")
    # SC-2 clamps
    clamp = {}
    for i in f.walk():
        if f.k(i) == "IfStmt":
            r = frel(f, f.nodes[i]["cond"])
            then = f.render(f.nodes[i]["then"]).replace("this->", "").replace(" ", "")
            if r:
                clamp[r] = then
    lo = clamp.get(("$0[#]", "<", "knots[#][order[#]]"), "")
    hi = clamp.get(("$0[#]", ">=", "knots[#][naxes[#]]"), "")
    C.ob("SC-2", "searchcenters", "lower-clamp", lo.startswith("CompoundStmt((centers[i]=order[i]),ContinueStmt") or lo.startswith("CompoundStmt((centers[i]=order[i])"), f.where(),
         "below the fully supported range the centre is order[i]: %s" % lo[:80])
    C.ob("SC-2", "searchcenters", "upper-clamp", hi.startswith("CompoundStmt((centers[i]=(naxes[i]-1))"), f.where(),
         "at or above knots[naxes] the centre is naxes[i]-1 = nknots-order-2: %s" % hi[:80])
    adj = [i for i in f.walk() if f.k(i) == "IfStmt" and "centers[i]--" in f.render(f.nodes[i]["then"]).replace(" ", "").replace("(", "").replace(")", "")]
    oka = False
    if adj:
        rc = core.rel_canon(f, f.nodes[adj[0]]["cond"], vg.atomizer(f, ("i",)))
        oka = rc is not None and rc[1] == "==0" and rc[0] == core.eq_norm(vg.P_("$1[#] - naxes[#]"))
    C.ob("SC-2", "searchcenters", "last-interval-adjust", oka, f.loc(adj[0]) if adj else f.where(),
         "the centre is moved left exactly when it equals naxes[i] (x on the right end of the last supported interval)")
    inits = {}
    for i in f.walk():
        if f.k(i) == "DeclStmt":
            for d in f.nodes[i]["decls"]:
                if d.get("init", -1) >= 0:
                    inits[d["id"]] = re.sub(r"\[[A-Za-z_]\w*\]", "[#]", f.render(d["init"]).replace("this->", "").replace(" ", ""))
    # roles by use, not by name: in the bisection step the upper end is the local assigned centre-1, the lower end the one assigned centre+1
    lo_id = hi_id = None
    dws = [i for i in f.walk() if f.k(i) == "DoStmt"]
    if len(dws) == 1:
        for x in f.walk(f.nodes[dws[0]]["body"]):
            ap = ts.assign_parts(f, x)
            if ap and ap[1] is not None and f.k(f.strip(ap[0])) == "DeclRefExpr":
                r = f.render(ap[1]).replace(" ", "")
                if re.fullmatch(r"\(centers\[\w+\]-1\)", r):
                    hi_id = f.nodes[f.strip(ap[0])]["decl"]["id"]
                if re.fullmatch(r"\(centers\[\w+\]\+1\)", r):
                    lo_id = f.nodes[f.strip(ap[0])]["decl"]["id"]
    C.ob("SC-2", "searchcenters", "search-interval", inits.get(lo_id) == "order[#]" and inits.get(hi_id) == "(nknots[#]-2)", f.where(),
         "binary search over [order, nknots-2]: lower end starts at %s, upper end at %s" % (inits.get(lo_id), inits.get(hi_id)))
    # the bracket: the search loop can only be left with knots[c] <= x < knots[c+1]
    dw = [i for i in f.walk() if f.k(i) == "DoStmt"]
    okb = False
    det = "no do-while search loop"
    if len(dw) == 1:
        conn, leaves = core.cond_leaves(f, f.nodes[dw[0]]["cond"])
        rels = set(frel(f, l) for l in leaves)
        want = {("$0[#]", "<", "knots[#][$1[#]]"), ("$0[#]", ">=", "knots[#][($1[#]+1)]")}
        okb = conn == "||" and rels == want
        det = "the search continues while %s" % " or ".join("%s %s %s" % r for r in sorted(x for x in rels if x))
        # the loop body only halves the interval: centre = (max+min)/2, then max = centre-1 under x < knots[centre] else min = centre+1
        body = f.alpha(f.nodes[dw[0]]["body"])[0].replace(" ", "")
        okh = body == "CompoundStmt(($1[v0]=((v1+v2)/2)),IfStmt(($0[v0]<knots[v0][$1[v0]]),(v1=($1[v0]-1)),(v2=($1[v0]+1))))"
        C.ob("SC-2", "searchcenters", "bisection-step", okh, f.loc(dw[0]),
             "each step sets the centre to the midpoint and moves one end of the interval past it: %s" % body[:160])
    C.ob("SC-2", "searchcenters", "bracket-at-exit", okb, f.loc(dw[0]) if dw else f.where(),
         det + " — so, if it terminates, knots[c] <= x < knots[c+1]; with the clamps (x >= knots[order], x < knots[naxes]) and sorted knots this "
         "gives order <= c <= naxes-1 = nknots-order-2")
    # SC-5: termination as a consequence of the checked premises (bisection invariant)
    C.rule("SC-5", "termination of the centre search follows from structural premises: the loop is entered only with knots[order] <= x < knots[naxes] "
           "(both clamps precede it), its interval [order, nknots-2] contains [order, naxes-1], each step keeps a bracketing index inside the "
           "interval and strictly shrinks it, and it stops as soon as the bracket is found", floor=1)
    prem = {o["symbol"]: o["ok"] for o in C.obligations if o["rule"] == "SC-2" and o["function"] == "searchcenters"}
    need = ["lower-clamp", "upper-clamp", "search-interval", "bisection-step", "bracket-at-exit"]
    # the clamps must come before the search in the iteration, and both leave the iteration (continue)
    body = f.nodes[outer]["body"]
    kids = f.ch(body)
    order_ok = False
    if dw:
        top_dw = next((k for k in kids if dw[0] in set(f.walk(k))), None)
        clamp_ifs = [k for k in kids if f.k(k) == "IfStmt" and any(f.k(x) == "ContinueStmt" for x in f.walk(k))]
        order_ok = bool(clamp_ifs) and top_dw is not None and all(kids.index(k) < kids.index(top_dw) for k in clamp_ifs)
        lo_c = clamp.get(("$0[#]", "<", "knots[#][order[#]]"), "")
        hi_c = clamp.get(("$0[#]", ">=", "knots[#][naxes[#]]"), "")
        order_ok = order_ok and "ContinueStmt" in lo_c and "ContinueStmt" in hi_c
    okt = all(prem.get(k) for k in need) and order_ok
    C.ob("SC-5", "searchcenters", "termination-premises", okt, f.where(),
         "premises %s; clamps precede the search and leave the iteration: %s. Argument: with sorted knots (C07) and knots[order] <= x < knots[naxes] "
         "there is c* in [order, naxes-1] with knots[c*] <= x < knots[c*+1]; naxes-1 = nknots-order-2 <= nknots-2, so c* lies in the initial "
         "interval; a step at c either stops (bracket found), or x < knots[c] gives c* <= c-1 = max', or x >= knots[c+1] gives c* >= c+1 = min'; "
         "so min <= c* <= max is invariant, the interval is never empty and loses at least one index per step." %
         ({k: prem.get(k) for k in need}, order_ok))
    # SC-3 wiring
    ops = [g for g in P.fns("operator()") if g.unit == "driver" and "/bspline_eval.h" in g.file and g.kind == "method"]
    if len(ops) < 3:
        raise core.AnalysisBroken("operator(): expected table + 2 evaluator instantiations, found %d" % len(ops))
    for g in ops:
        nm = ("evaluator<%s>" % re.findall(r"evaluator_type<(\w*)>", g.cls)[0] if "evaluator_type" in g.cls else "table") + "::operator()"
        ok = False
        det = "no lookup test"
        top = g.ch(g.body)
        look = [i for i in top if g.k(i) == "IfStmt" and (g.nodes[core.cond_polarity(g, g.nodes[i]["cond"])[0]].get("callee") or {}).get("name") == "searchcenters"]
        rets = [x for x in g.walk() if g.k(x) == "ReturnStmt"]
        if len(look) == 1:
            L = look[0]
            c, neg = core.cond_polarity(g, g.nodes[L]["cond"])
            tr = [x for x in g.walk(g.nodes[L]["then"]) if g.k(x) == "ReturnStmt"]
            lit0 = len(tr) == 1 and g.nodes[g.strip(g.nodes[tr[0]]["value"])].get("cv") == 0
            # every other return is the evaluation itself, placed after the lookup test at the top level of the body
            others = [x for x in rets if x not in tr]
            evalret = len(others) == 1 and g.parent[others[0]] == g.body and top.index(others[0]) > top.index(L) and \
                (g.nodes[g.strip(g.nodes[others[0]]["value"])].get("callee") or {}).get("name") == "ndsplineeval"
            # nothing between entry and the lookup test can leave the function or evaluate
            before = [x for k in top[:top.index(L)] for x in g.walk(k) if g.k(x) in ("ReturnStmt", "CXXThrowExpr") or (g.nodes[x].get("callee") or {}).get("name", "").startswith("ndsplineeval")]
            ok = neg and lit0 and evalret and not before
            det = "if(!searchcenters(...)) return 0; then return ndsplineeval(...): negated=%s returns-literal-0=%s single-evaluation-return-after=%s exits-or-evaluation-before-the-lookup=%d (returns in function: %d)" % (
                neg, lit0, evalret, len(before), len(rets))
        elif len(look) == 0:
            det = "the lookup result does not guard the evaluation (no top-level `if(!searchcenters(...))`); returns in function: %d" % len(rets)
        C.ob("SC-3", nm, "zero-on-failure", ok, g.where(), det)


# ------------------------------------------------------------------ KB-5: affine index ranges in the basis recurrences
def _loop_env(f, node, base_env):
    """ranges of the loop variables enclosing `node`: var name -> (lo Poly, hi Poly) from `for (v = a; v < b; v++)` / `v > b; v--`."""
    env = dict(base_env)
    loops = [a for a in f.ancestors(node) if f.k(a) == "ForStmt"]
    for L in reversed(loops):
        n = f.nodes[L]
        cn = f.strip(n["cond"]) if n.get("cond", -1) >= 0 else -1
        if cn < 0 or f.k(cn) != "BinaryOperator":
            continue
        # the loop variable is the side of the condition that the increment part steps
        incn = f.strip(n["inc"]) if n.get("inc", -1) >= 0 else -1
        stepped = f.nodes[f.strip(f.nodes[incn]["ch"][0])]["decl"].get("id") if incn >= 0 and f.k(incn) == "UnaryOperator" and \
            f.k(f.strip(f.nodes[incn]["ch"][0])) == "DeclRefExpr" else None
        orr = f.oriented(cn, lambda x: f.k(x) == "DeclRefExpr" and (stepped is None or f.nodes[x]["decl"].get("id") == stepped))
        if orr is None:
            continue
        v, cop, bnode = orr
        name = f.nodes[v]["decl"]["name"]
        bound = core.poly(f, bnode)
        init = None
        ini = n.get("init", -1)
        if ini >= 0:
            if f.k(ini) == "DeclStmt":
                for d in f.nodes[ini]["decls"]:
                    if d.get("name") == name and d.get("init", -1) >= 0:
                        init = core.poly(f, d["init"])
            else:
                ap = ts.assign_parts(f, f.strip(ini))
                if ap and ap[1] is not None and f.render(ap[0]) == name:
                    init = core.poly(f, ap[1])
        op = cop
        one = Poly.const(1)
        inc = f.render(n["inc"]).replace(" ", "") if n.get("inc", -1) >= 0 else ""
        if op == "<" and inc in ("(%s++)" % name, "(++%s)" % name):
            if init is None:
                # `for ( ; j < B; j++)` continues an ascending loop over the same variable: it cannot be below that loop's start
                init = _previous_init(f, L, name)
            env[name] = (init, bound - one)
        elif op in (">", ">=") and inc in ("(%s--)" % name, "(--%s)" % name):
            lo = bound + one if op == ">" else bound
            if init is None:
                init = _previous_init(f, L, name)
            env[name] = (lo, init)
    return env


def _previous_init(f, L, name):
    """initial value of `name` in the nearest preceding sibling for-loop over the same variable (continuation idiom `for ( ; j < B; j++)`)."""
    par = f.parent[L]
    if par < 0:
        return None
    sib = f.ch(par)
    if L not in sib:
        return None
    for s_ in reversed(sib[:sib.index(L)]):
        if f.k(s_) == "ForStmt":
            ini = f.nodes[s_].get("init", -1)
            if ini >= 0:
                ap = ts.assign_parts(f, f.strip(ini))
                if ap and ap[1] is not None and f.render(ap[0]) == name:
                    return core.poly(f, ap[1])
                if f.k(ini) == "DeclStmt":
                    for d in f.nodes[ini]["decls"]:
                        if d.get("name") == name and d.get("init", -1) >= 0:
                            return core.poly(f, d["init"])
    return None


def _bound(p, env, which, depth=0):
    """upper ('hi') or lower ('lo') bound of a linear Poly p.  Ranged atoms are eliminated one at a time, inner loop variables (whose
    own bounds mention other ranged atoms) first, each replaced by the end of its range chosen by the sign of its coefficient; like
    terms cancel symbolically (j - i with i <= j gives 0, not j_lo - j_hi)."""
    for _ in range(12):
        ranged = [a for a in p.atoms() if a in env]
        if not ranged:
            return p
        if any(len(m) > 1 for m in p.t):
            return None

        def depends(a):
            lo, hi = env[a]
            at = set()
            for q in (lo, hi):
                if q is not None:
                    at |= q.atoms()
            return len([x for x in at if x in env and x != a])
        a = sorted(ranged, key=lambda x: -depends(x))[0]
        c = p.t.get((a,), 0)
        lo, hi = env[a]
        pick = hi if ((c > 0) == (which == "hi")) else lo
        if pick is None:
            return None
        p = p - Poly({(a,): c}) + pick * Poly.const(c)
    return None


def _nonneg(p, facts):
    """is the linear Poly p >= 0, given lower bounds `facts` (atom -> Poly) for its atoms?  Atoms with positive coefficient are replaced by
    their lower bound (repeatedly); a remaining negative coefficient cannot be discharged."""
    for _ in range(6):
        if any(len(m) > 1 for m in p.t):
            return False
        if any(c < 0 for m, c in p.t.items() if m):
            return False
        todo = [m[0] for m, c in p.t.items() if m and m[0] in facts]
        if not todo:
            break
        a = todo[0]
        c = p.t[(a,)]
        p = p - Poly({(a,): c}) + facts[a] * Poly.const(c)
    return all(c >= 0 for c in p.t.values())


def _refine(f, node, env, left):
    """branch facts of the form `if ((v = E) > 0)` for the then-branch: v := E and E >= 1 bounds `left` from one side."""
    env = dict(env)
    for a in f.ancestors(node):
        if f.k(a) != "IfStmt":
            continue
        if f.nodes[a]["then"] not in [node] + list(f.ancestors(node)):
            continue
        c = f.strip(f.nodes[a]["cond"])
        n = f.nodes[c]
        orr = f.oriented(c, lambda x: ts.assign_parts(f, x) is not None)
        if not orr and n["k"] == "BinaryOperator" and n.get("op") in ("<", ">"):
            # the same fact without the assignment: `if (E > 0)` (the shift count named by a const local, or written out)
            a_, b_ = (f.strip(y, casts=False) for y in n["ch"])
            Enode = b_ if (n["op"] == "<" and f.nodes[f.strip(a_)].get("cv") == 0) else a_ if (n["op"] == ">" and f.nodes[f.strip(b_)].get("cv") == 0) else None
            if Enode is not None:
                E = core.poly(f, Enode)
                if E is not None and not any(len(m) > 1 for m in E.t):
                    cl = E.t.get((left,), 0)
                    rest = E - Poly({(left,): cl})
                    lo, hi = env.get(left, (None, None))
                    if cl == -1:
                        env[left] = (lo, rest - Poly.const(1))
                    elif cl == 1:
                        env[left] = (Poly.const(1) - rest, hi)
            continue
        if orr and orr[1] == ">" and f.nodes[orr[2]].get("cv") == 0:
            inner = orr[0]
            ap = ts.assign_parts(f, inner)
            if ap and ap[1] is not None and f.k(f.strip(ap[0])) == "DeclRefExpr":
                v = f.nodes[f.strip(ap[0])]["decl"]["name"]
                E = core.poly(f, ap[1])
                env[v] = (E, E)
                cl = E.t.get((left,), 0)
                rest = E - Poly({(left,): cl})
                lo, hi = env.get(left, (None, None))
                if cl == -1:      # rest - left >= 1  =>  left <= rest - 1
                    env[left] = (lo, rest - Poly.const(1))
                elif cl == 1:     # left + rest >= 1  =>  left >= 1 - rest
                    env[left] = (Poly.const(1) - rest, hi)
    return env


def kb5(P, C):
    C.rule("KB-5", "every knots[e] read and every output/scratch store in the basis kernels has an affine index whose range — from left in "
           "[-1, nknots-1] (the margin-shift guards), the enclosing loop ranges and the call-site arguments of bsplvb — lies inside the padded "
           "knot array [-order, nknots-1+order], the order+1 output slots and the scratch arrays", floor=120)
    n_ob = 0
    bs = {tuple(g.targs): g for g in P.fns("bsplvb") if g.unit == "driver"}
    for f in kernels(P):
        conv = KERNELS[f.name][0]
        pn = [p["name"] for p in f.params]
        knots, nk, left, ordp = pn[0], pn[1], pn[3], pn[4]
        NK, O = Poly.atom(nk), Poly.atom(ordp)
        one = Poly.const(1)
        pad = O if conv == "order" else O - one
        base_env = {left: (Poly.const(-1), NK - one)}
        pos_, dom_ = f.node_positions(), f.dominators()
        # lower bounds of the symbols: well-formed table (nknots >= 2*order+2), degree >= 1, order >= 0 (>= 1 below a dominating `n == 0` return)
        facts = {nk: (O + O + Poly.const(2)) if conv == "order" else (O + O)}
        facts[ordp] = Poly.const(1) if conv == "degree" else Poly.const(0)
        has_zero_return = conv == "order" and any(
            f.k(x) == "IfStmt" and core.rel_canon(f, f.nodes[x]["cond"], vg.atomizer(f, ())) == (core.eq_norm(vg.P_("$4")), "==0")
            and any(f.k(y) == "ReturnStmt" for y in f.walk(f.nodes[x]["then"])) and f.parent[x] == f.body for x in f.walk())
        sites = []
        for i in f.walk():
            if f.k(i) == "ArraySubscriptExpr":
                b = f.strip(f.nodes[i]["ch"][0])
                if f.k(b) == "DeclRefExpr":
                    sites.append((f, i, f.nodes[b]["decl"]["name"], {}, kname(f)))
        # bsplvb bodies with the call-site arguments substituted
        for ci, cal in f.calls():
            if cal and cal["name"] == "bsplvb":
                g = P.functions.get(cal["usr"])
                if g is None:
                    continue
                a = f.args(ci)
                gp = [p["name"] for p in g.params]
                sub = {gp[2]: core.poly(f, a[2]), gp[3]: core.poly(f, a[3]), gp[4]: core.poly(f, a[4])}
                for i in g.walk():
                    if g.k(i) == "ArraySubscriptExpr":
                        b = g.strip(g.nodes[i]["ch"][0])
                        if g.k(b) == "DeclRefExpr":
                            nm = g.nodes[b]["decl"]["name"]
                            caller_name = {gp[0]: knots, gp[5]: "OUT", gp[6]: "SCRATCH", gp[7]: "SCRATCH"}.get(nm, nm)
                            sites.append((g, i, caller_name, sub, "%s -> bsplvb(%s)" % (kname(f), ", ".join(f.render(x) for x in a[3:5]))))
        for (g, i, arr, sub, where) in sites:
            env = _loop_env(g, i, {})
            idx = core.poly(g, g.nodes[i]["ch"][1])
            # express everything in the caller's symbols
            if sub:
                idx = idx.subst(sub)
                env = {k: (v[0].subst(sub) if v[0] is not None else None, v[1].subst(sub) if v[1] is not None else None) for k, v in env.items()}
            env.update(base_env)
            if g is f:
                env = _refine(g, i, env, left)
            fx = dict(facts)
            if has_zero_return:
                # everything after the top-level `if (n == 0) return` runs with n >= 1
                zr = next(x for x in f.ch(f.body) if f.k(x) == "IfStmt" and any(f.k(y) == "ReturnStmt" for y in f.walk(f.nodes[x]["then"])))
                if g is not f or (f.nodes[i]["loc"][0] > f.nodes[zr]["loc"][0] and zr not in set(f.ancestors(i))):
                    fx[ordp] = Poly.const(1)
            if arr == knots:
                lo_lim, hi_lim = -pad, NK - one + pad
            elif arr in ("OUT",) or arr in KERNELS[f.name][1]:
                lo_lim, hi_lim = Poly.const(0), (O if conv == "order" else O - one)
            elif arr == "SCRATCH" or arr.startswith("delta_"):
                # scratch arrays are declared with extent n, n+1 or degree: the tightest is n (order convention) / degree
                lo_lim, hi_lim = Poly.const(0), ((O - one) if conv == "order" and f.name == "bspline_deriv_nonzero" else (O if conv == "order" else O - one))
            else:
                continue
            # the guarded reads in the shift-loop conditions: knots[left] under left >= 0, knots[left+1] under left < nknots-1
            in_shift = any(g.k(a) == "WhileStmt" for a in g.ancestors(i))
            e = dict(env)
            if in_shift and g is f:
                # the read sits behind its own guard in the same condition: knots[left] after `left >= 0 &&`, knots[left+1] after `left < nknots-1 &&`
                e[left] = (Poly.const(0), NK - Poly.const(2))
            hi = _bound(idx, e, "hi")
            lo = _bound(idx, e, "lo")
            ok = hi is not None and lo is not None and _nonneg(hi_lim - hi, fx) and _nonneg(lo - lo_lim, fx)
            n_ob += 1
            C.ob("KB-5", where, "%s[%s]@%d" % (arr, g.render(g.nodes[i]["ch"][1]).replace(" ", ""), g.nodes[i]["loc"][0]), ok, g.loc(i),
                 "index %r ranges over [%r, %r]; allowed [%r, %r]" % (idx, lo, hi, lo_lim, hi_lim))
    return n_ob


def kb6f(P, C, floor=4):
    """KB-6f: variable-length arrays of the C fitter have an extent >= 1 for every admitted argument."""
    C.rule("KB-6f", "every variable-length array of the fitter (glam.c, splineutil.c, nnls.c, cholesky_solve.c) has an extent >= 1 for the "
           "admitted ranges: spline order >= 0, penalty order >= 0, dimension count >= 1 (asserted where used): a zero-length array is "
           "undefined behaviour, and the order-0 spline with a penalty is an admitted fit", floor=floor)
    # nvar / A->ncol: number of unknowns of a system handed to a solver (a fit has at least one coefficient per dimension)
    LB = {"order": 0, "porder": 0, "ndim": 1, "array->ndim": 1, "a->ndim": 1, "n": 0, "nvar": 1, "A->ncol": 1}
    n = 0
    for f in sorted(P.functions.values(), key=lambda g: (g.file, g.line)):
        if not f.unit.startswith("fitter/"):
            continue
        for i in f.walk():
            if f.k(i) != "DeclStmt":
                continue
            for d in f.nodes[i]["decls"]:
                if not d.get("vla"):
                    continue
                for e in d.get("extents", []):
                    if e < 0:
                        continue
                    n += 1
                    p = core.poly(f, e)
                    lb, ok, why = 0, True, []
                    for mono, c in p.t.items():
                        term = c
                        for a in mono:
                            # parameters / fields by their role: anything called *order* is an order (>= 0), *ndim* a dimension count (>= 1)
                            if a in LB:
                                term *= LB[a]
                            elif a.endswith("ndim"):
                                term *= 1
                            elif "order" in a:
                                term *= 0
                            else:
                                ok = False
                                why.append("no lower bound for %s" % a)
                        if c < 0:
                            ok = False
                        lb += term
                    ok = ok and lb >= 1
                    C.ob("KB-6f", f.name, "vla:%s[%s]" % (d["name"], f.render(e)), ok, f.loc(i),
                         "extent %s >= %d for the admitted arguments%s" % (f.render(e), lb, "" if ok else " — zero-length array when the order is 0" if lb == 0 and not why else "; " + "; ".join(why)))
    return n


def kb8(P, C, floor=150):
    """KB-8: a stack array of constant extent is not indexed by a loop variable whose range grows with a runtime quantity."""
    C.rule("KB-8", "every local array of constant extent (a template parameter, PHOTOSPLINE_MAXDIM, a literal) that is subscripted by a loop "
           "variable has, at each such subscript, an upper bound of the index that is a constant below the extent — an index whose range "
           "grows with the table's dimension count (or any other runtime quantity) needs an array sized by that quantity or a dominating "
           "guard that refuses larger values; the format, the generic evaluation core and the writers serve any number of dimensions", floor=floor)
    n = 0
    for f in sorted(P.functions.values(), key=lambda g: (g.file, g.line, str(g.targs))):
        if not f.file.startswith(core.REPO) or f.unit.startswith("selftest") or not f.cfg:
            continue
        arrays = {}
        for i in f.walk():
            if f.k(i) == "DeclStmt":
                for d in f.nodes[i]["decls"]:
                    if d.get("dk") == "Var" and d.get("extents") and not d.get("vla"):
                        m = re.match(r".*?\[(\d+)\]", d.get("ctype") or d.get("type") or "")
                        if m:
                            arrays[d["id"]] = (d["name"], int(m.group(1)), i)
        if not arrays:
            continue
        guards = None
        rd = None
        # const locals with a constant initialiser (`const unsigned D = sizeof...(Orders);`) are that constant
        consts = {}
        for i in f.walk():
            if f.k(i) == "DeclStmt":
                for d in f.nodes[i]["decls"]:
                    if d.get("dk") == "Var" and d.get("type", "").startswith("const ") and d.get("init", -1) >= 0:
                        cv = f.nodes[f.strip(d["init"], casts=False)].get("cv", f.nodes[d["init"]].get("cv"))
                        if isinstance(cv, int):
                            consts[d["name"]] = Poly.const(cv)
        for i in f.walk():
            if f.k(i) != "ArraySubscriptExpr":
                continue
            b = f.strip(f.nodes[i]["ch"][0])
            if f.k(b) != "DeclRefExpr" or f.nodes[b]["decl"].get("id") not in arrays:
                continue
            name, ext, decl = arrays[f.nodes[b]["decl"]["id"]]
            env = _loop_env(f, i, {})
            if not env:
                continue
            idx = core.poly(f, f.nodes[i]["ch"][1])
            if not (idx.atoms() & set(env)):
                continue                       # not indexed by a loop variable
            hi = _bound(idx, env, "hi")
            if hi is not None and consts:
                hi = hi.subst(consts)
            n += 1
            if hi is None:
                # a descending or data-dependent loop (the carry loops): no claim
                C.ob("KB-8", kname(f), "%s[%s]@%d" % (name, f.render(f.nodes[i]["ch"][1]).replace(" ", ""), f.nodes[i]["loc"][0]), True, f.loc(i),
                     "index range not affine in counting loops: outside this rule")
                continue
            # a local is replaced by the one definition that reaches this point (reaching definitions over the CFG, a few levels;
            # a decrement keeps an upper bound valid); strlen() of this very array is at most extent-1
            if hi.atoms():
                if rd is None:
                    rd = _reaching_defs(f)
                hi = _resolve_upper(f, rd, hi, i, f.nodes[b]["decl"]["name"], ext, env)
            runtime = sorted(hi.atoms())
            ok = not runtime and hi.is_const() and hi.const_value() < ext
            why = "index at most %r, extent %d" % (hi, ext)
            if runtime:
                # a dominating throwing guard on the same quantity?
                if guards is None:
                    from . import vg
                    guards = vg.guards_of(f)
                pos = f.node_positions()
                dom = f.dominators()

                def at(x):
                    while x >= 0 and x not in pos:
                        x = f.parent[x]
                    return pos.get(x)
                gd = []
                for g in guards:
                    txt = f.render(f.nodes[g["node"]]["cond"])
                    if any(a.split(".")[-1].replace("this->", "") in txt for a in runtime):
                        pg, ph = at(f.strip(f.nodes[g["node"]]["cond"])), at(i)
                        if pg and ph and ((pg[0] == ph[0] and pg[1] < ph[1]) or (pg[0] != ph[0] and pg[0] in dom.get(ph[0], ()))):
                            gd.append(txt)
                ok = bool(gd)
                why = "index grows with %s (up to %r) but the array has %d elements%s" % (", ".join(runtime), hi, ext,
                                                                                           "; bounded by the guard %s" % gd[0] if gd else " and nothing refuses larger values")
            C.ob("KB-8", kname(f), "%s[%s]@%d" % (name, f.render(f.nodes[i]["ch"][1]).replace(" ", ""), f.nodes[i]["loc"][0]), ok, f.loc(i), why)
        # the same arrays handed to a function of the library that indexes its parameter with a range of its own
        for ci, cal in f.calls():
            if not cal or not cal.get("inRoots"):
                continue
            g = P.functions.get(cal.get("usr"))
            if g is None or not g.cfg:
                continue
            for k, a in enumerate(f.args(ci)):
                b = f.strip(a)
                if f.k(b) != "DeclRefExpr" or f.nodes[b]["decl"].get("id") not in arrays or k >= len(g.params):
                    continue
                name, ext, _d = arrays[f.nodes[b]["decl"]["id"]]
                pid = g.params[k]["id"]
                worst = None
                for x in g.walk():
                    if g.k(x) != "ArraySubscriptExpr":
                        continue
                    gb_ = g.strip(g.nodes[x]["ch"][0])
                    if g.k(gb_) != "DeclRefExpr" or g.nodes[gb_]["decl"].get("id") != pid or g.nodes[gb_]["decl"].get("kind") != "ParmVar":
                        continue
                    env = _loop_env(g, x, {})
                    idx = core.poly(g, g.nodes[x]["ch"][1])
                    hi = _bound(idx, env, "hi") if env else idx
                    if hi is None:
                        continue
                    if hi.atoms() or (hi.is_const() and hi.const_value() >= ext):
                        worst = (x, hi)
                        break
                n += 1
                ok = worst is None
                if not ok:
                    # a guard in the caller on the same quantity?
                    from . import vg
                    txts = [f.render(f.nodes[gd["node"]]["cond"]) for gd in vg.guards_of(f)]
                    ok = any(any(at_.split("->")[-1] in t for at_ in worst[1].atoms()) for t in txts) if worst[1].atoms() else False
                C.ob("KB-8", kname(f), "%s->%s(#%d)@%d" % (name, g.name, k, f.nodes[ci]["loc"][0]), ok, f.loc(ci),
                     "%s (%d elements) is handed to %s, which indexes that parameter within constant bounds below the extent" % (name, ext, g.name) if worst is None else
                     "%s has %d elements but %s indexes the parameter it is bound to up to %r (%s): nothing refuses larger values" %
                     (name, ext, g.name, worst[1], g.loc(worst[0])))
    return n


def _reaching_defs(f):
    """reaching definitions of scalar locals: returns (IN, transfer, pos).  A state is a frozenset of (variable name, node) pairs, node
    being the defining expression, or -1 for a store that may increase the variable (++, +=, *=, address taken)."""
    pos = f.node_positions()

    def target(x):
        x = f.strip(x)
        return f.nodes[x]["decl"]["name"] if f.k(x) == "DeclRefExpr" and f.nodes[x]["decl"].get("kind") == "Var" else None

    def transfer(st, e, b_, j_):
        if e.get("kind") != "stmt":
            return st
        x = e["n"]
        n = f.nodes[x]
        k = n["k"]
        if k == "DeclStmt":
            for d in n["decls"]:
                if d.get("dk") == "Var":
                    st = frozenset(p for p in st if p[0] != d["name"]) | ({(d["name"], d["init"])} if d.get("init", -1) >= 0 else set())
            return st
        if k in ("BinaryOperator", "CompoundAssignOperator") and n.get("op", "").endswith("=") and n["op"] not in ("==", "!=", "<=", ">="):
            v = target(n["ch"][0])
            if v is not None:
                if n["op"] == "=":
                    return frozenset(p for p in st if p[0] != v) | {(v, n["ch"][1])}
                if n["op"] != "-=":
                    return st | {(v, -1)}
            return st
        if k == "UnaryOperator" and n.get("op") == "++":
            v = target(n["ch"][0])
            return st | {(v, -1)} if v is not None else st
        if k == "UnaryOperator" and n.get("op") == "&":
            v = target(n["ch"][0])
            return st | {(v, -1)} if v is not None else st
        return st
    IN, _OUT = core.dataflow(f, frozenset(), transfer, lambda a, b_: a | b_)
    return IN, transfer, pos


def _resolve_upper(f, rd, p, at_node, arr_name, ext, env, depth=0):
    """replace atoms of the Poly p (an upper bound needed at node at_node) by upper bounds taken from their reaching definitions."""
    IN, transfer, pos = rd
    x = at_node
    while x >= 0 and x not in pos:
        x = f.parent[x]
    if x < 0 or depth > 5:
        return p
    st = core.state_before(f, IN, transfer, *pos[x])
    if st is None:
        return p
    for a in sorted(p.atoms()):
        if p.t.get((a,), 0) < 0:
            continue                                   # an upper bound of p needs upper bounds of the atoms it adds
        if a == "strlen(%s)" % arr_name:
            p = p.subst({a: Poly.const(ext - 1)})
            continue
        if a in env:
            continue
        defs = [d for (v, d) in st if v == a]
        if len(defs) == 1 and defs[0] >= 0:
            q = core.poly(f, defs[0])
            q = _resolve_upper(f, rd, q, defs[0], arr_name, ext, env, depth + 1)
            p = p.subst({a: q})
    return p


def as1(P, C):
    """AS-1: every assertion on the lookup / evaluation path is one the analysis discharges."""
    C.rule("AS-1", "lookup and evaluation trip no assertion for any coordinate: every assert in the basis kernels, the cores and the entry points "
           "is either `ndim > 0` (a well-formed table has a dimension: the reader and the fitter refuse anything else) or the centre-range "
           "condition order <= centre <= nknots-order-2 on the kernel's own parameters (what lookup guarantees: SC-2/SC-5).  An assertion "
           "with any other condition is a new obligation — for instance a half-open interval test, which the margin shifts (x > knots[left+1]) "
           "and lookup (x <= last knot, upper end assigned to the interval on its left) do not establish", floor=3)
    from . import vg
    n = 0
    files = ("bspline.h", "bspline_eval.h", "bspline_multi.h", "bspline.cpp", "simd.h")
    seen = set()
    for f in sorted(P.functions.values(), key=lambda g: (g.file, g.line, str(g.targs))):
        if not f.file.startswith(core.REPO) or not f.file.endswith(files) or f.unit not in ("driver", "core/bspline"):
            continue
        for i in f.walk():
            nn = f.nodes[i]
            if "assert" not in (nn.get("macros") or []) or f.k(i) != "ConditionalOperator":
                # psx records the macro stack on the outermost node of the expansion
                continue
            cond = nn["ch"][0]
            key = (f.file, tuple(nn["loc"]), f.name)
            if key in seen:
                continue
            seen.add(key)
            conn, leaves = core.cond_leaves(f, cond)
            texts = [f.alpha(x)[0].replace(" ", "").replace("table.", "") for x in leaves]
            kind = None
            if conn == "leaf" and texts[0] in ("(0<ndim)", "(ndim!=0)", "(1<=ndim)"):
                kind = "the table has a dimension"
            else:
                pn = {p["name"]: k for k, p in enumerate(f.params)}
                at = vg.atomizer(f, ())
                rels = []
                for lf in leaves:
                    rc = core.rel_canon(f, lf, at)
                    rels.append(rc)
                if conn == "&&" and len(rels) == 2 and all(r is not None for r in rels) and f.name in ("bspline_nonzero", "bspline_deriv_nonzero", "bsplvb_simple", "bsplvb"):
                    # centre >= order  and  centre <= nknots - order - 2   (parameters by position: knots, nknots, x, left, n)
                    L, N_, K = Poly.atom("$3"), Poly.atom("$4"), Poly.atom("$1")
                    want = {(L - N_, ">=0"), (K - N_ - Poly.const(2) - L, ">=0")}
                    got = set()
                    for (p_, op) in rels:
                        if op == "<0":
                            got.add((Poly.const(0) - p_ - Poly.const(1), ">=0"))
                        elif op == ">=0":
                            got.add((p_, ">=0"))
                    if got == want:
                        kind = "centre range (established by lookup)"
            n += 1
            C.ob("AS-1", kname(f) if f.name in KERNELS else f.name, "assert@%d" % nn["loc"][0], kind is not None, f.loc(i),
                 "assert(%s): %s" % (f.render(cond)[:80], kind) if kind else
                 "assert(%s) is not one of the conditions the analysis discharges: nothing proves that it cannot trip (lookup accepts x <= last knot and "
                 "gives the upper end of the supported range to the interval on its left; the margin shifts stop at x <= knots[left+1])" % f.render(cond)[:100])
    if n == 0:
        raise core.AnalysisBroken("AS-1: no assertion found in the evaluation code (built with -UNDEBUG?)")
    return n


def kb9(P, C):
    """KB-9: stack arrays sized by the spline order need a bound on the order of every table a read can return."""
    C.rule("KB-9", "lookup and evaluation keep scratch in variable-length stack arrays whose extents grow with the spline order (local basis, "
           "delta_l/delta_r of the recurrence, the gradient's lane tables): they are bounded only if the reader bounds ORDERn — a throwing "
           "guard `order[i] > K` with a constant K in read_fits_core (or where the order keys are read). A file that is consistent in every "
           "other respect (coefficient count = knot count - order - 1 >= order + 1) may announce any order; evaluation of the table it loads "
           "then overruns the stack", floor=1)
    from . import vg
    sized = []
    for f in P.functions.values():
        if f.unit != "driver" or f.name not in VLA_FUNCS or "/include/photospline/" not in f.file:
            continue
        for i in f.walk():
            if f.k(i) != "DeclStmt":
                continue
            for d in f.nodes[i]["decls"]:
                if d.get("vla") and any(e >= 0 and re.search(r"order|degree|\bn\b", f.render(e)) for e in d.get("extents", [])):
                    sized.append((f, i, d["name"]))
    if len(sized) < 10:
        raise core.AnalysisBroken("KB-9: expected the order-sized stack arrays of the evaluation path, found %d" % len(sized))
    fs_ = [g for g in P.fns("read_fits_core") if g.unit == "driver"]
    if not fs_:
        raise core.AnalysisBroken("KB-9: read_fits_core not found")
    f = fs_[0]
    bound = None
    for g in vg.guards_of(f):
        for x in f.walk(f.nodes[g["node"]]["cond"]):
            n = f.nodes[x]
            if n["k"] == "BinaryOperator" and n.get("op") in ("<", "<=", ">", ">="):
                a, b = (f.strip(y) for y in n["ch"])
                ra, rb = f.render(a).replace("this->", ""), f.render(b).replace("this->", "")
                # normal form N2: `K < order[i]` / `K <= order[i]`
                if re.match(r"order\[\w+\]$", rb) and "cv" in f.nodes[a]:
                    bound = (g, f.nodes[a]["cv"])
                if re.match(r"order\[\w+\]$", ra) and "cv" in f.nodes[b] and n["op"] in (">", ">="):
                    bound = (g, f.nodes[b]["cv"])
    C.ob("KB-9", "read_fits_core", "order-bounded", bound is not None, f.where(),
         "the reader refuses orders above %s: the %d order-sized stack arrays of the evaluation path are bounded" % (bound[1], len(sized)) if bound else
         "the reader accepts any ORDERn that is consistent with the knot and coefficient counts; %d stack arrays of lookup and evaluation are sized by it "
         "(e.g. %s in %s): a consistent file with a large enough order makes evaluation overrun the stack" % (len(sized), sized[0][2], sized[0][0].name))


def kb10(P, C):
    """KB-10: an argument container subscripted at a fixed position is long enough."""
    from . import vg
    C.rule("KB-10", "where a public operation of the table subscripts one of its container arguments at a fixed position (`tables[1]`, "
           "`coordinates[coordinates.size()-2]` in the stacking constructor), a throwing guard on that container's size — directly, or on the "
           "size of the container it is required to match — dominates the access: an `assert` states the belief and disappears with NDEBUG, "
           "and `size() >= 1` is not what `[1]` needs", floor=2)
    n = 0
    for f in sorted(P.functions.values(), key=lambda g: (g.file, g.line)):
        if f.unit != "driver" or f.cls != ts.CLS or f.kind not in ("method", "ctor", "constructor", "function") or not f.cfg:
            continue
        params = {p["id"]: p for p in f.params if "vector" in p.get("type", "")}
        if not params:
            continue
        pos = f.node_positions()
        dom = f.dominators()
        need = {}
        for i in f.walk():
            n_ = f.nodes[i]
            if n_["k"] != "CXXOperatorCallExpr" or n_.get("opcall") != "[]" or len(n_["ch"]) < 3:
                continue
            base = f.strip(n_["ch"][1])
            if f.k(base) != "DeclRefExpr" or f.nodes[base]["decl"].get("id") not in params:
                continue
            idx = f.strip(n_["ch"][2])
            t = f.render(idx).replace(" ", "")
            k = None
            if "cv" in f.nodes[idx]:
                k = f.nodes[idx]["cv"] + 1                       # [k] needs size >= k+1
            else:
                m = re.match(r"\(?%s\.size\(\)-(\d+)\)?$" % re.escape(f.nodes[base]["decl"]["name"]), t)
                if m:
                    k = int(m.group(1))                           # [size-k] needs size >= k
            if k is None or k < 2:
                continue
            pid = f.nodes[base]["decl"]["id"]
            if pid not in need or need[pid][0] < k:
                need[pid] = (k, i)
        if not need:
            continue
        # throwing guards on sizes: P.size() < K  /  P.size() != Q.size()
        lower = {}
        same = []
        for g in vg.guards_of(f):
            for x in f.walk(f.nodes[g["node"]]["cond"]):
                n_ = f.nodes[x]
                if n_["k"] != "BinaryOperator" or n_.get("op") not in ("<", "<=", "!=", "=="):
                    continue
                a, b = (f.strip(y) for y in n_["ch"])

                def size_of(y):
                    if f.k(y) == "CXXMemberCallExpr" and (f.nodes[y].get("callee") or {}).get("name") in ("size",):
                        me = f.strip(f.nodes[y]["ch"][0])
                        o = f.strip(f.ch(me)[0]) if f.ch(me) else -1
                        if o >= 0 and f.k(o) == "DeclRefExpr" and f.nodes[o]["decl"].get("id") in params:
                            return f.nodes[o]["decl"]["id"]
                    return None
                sa, sb = size_of(a), size_of(b)
                if sa is not None and "cv" in f.nodes[b] and n_["op"] in ("<", "<="):
                    lower[sa] = max(lower.get(sa, 0), f.nodes[b]["cv"] + (1 if n_["op"] == "<=" else 0))
                if sa is not None and sb is not None and n_["op"] == "!=":
                    same.append((sa, sb))
        changed = True
        while changed:
            changed = False
            for (a, b) in same:
                for x, y in ((a, b), (b, a)):
                    if lower.get(x, 0) > lower.get(y, 0):
                        lower[y] = lower[x]
                        changed = True
        for pid, (k, i) in sorted(need.items()):
            n += 1
            ok = lower.get(pid, 0) >= k
            C.ob("KB-10", ts.fshort(f), "argument-long-enough:%s" % params[pid]["name"], ok, f.loc(i),
                 "%s is refused by exception unless it has at least %d elements" % (params[pid]["name"], lower.get(pid, 0)) if ok else
                 "%s is subscripted at a position that needs %d elements (%s); the throwing guards establish %d — an assert is not a check" %
                 (params[pid]["name"], k, f.render(i)[:50], lower.get(pid, 0)))
    if n == 0:
        raise core.AnalysisBroken("KB-10: no container argument subscripted at a fixed position (the stacking constructor's tables/coordinates expected)")


PURE_IN_ASSERT = {"size", "front", "back", "empty", "data", "begin", "end", "cbegin", "cend", "strlen", "strcmp", "strncmp", "isfinite", "isnan",
                  "is_sorted", "abs", "fabs", "min", "max", "count", "find", "at", "operator[]", "operator()", "operator==", "operator!=",
                  "operator<", "operator->", "operator*", "get"}


def as2(P, C, units_prefix=("fitter/", "driver", "core/", "cinter/")):
    """AS-2: nothing happens inside an assertion."""
    C.rule("AS-2", "the condition of an `assert` has no effect: no assignment, no increment, and no call other than observers (`get_*`, `size`, "
           "`strlen`, comparisons, …). The library is built with NDEBUG, where the whole expression — a lock, an allocation, a store "
           "wrapped in `assert(... == 0)` — is not compiled at all, while the analysis (and a debug build) still sees it", floor=20)
    n = 0
    for f in sorted(P.functions.values(), key=lambda g: (g.file, g.line)):
        if not f.file.startswith(core.REPO) or not any(f.unit.startswith(u) for u in units_prefix):
            continue
        seen = set()
        for i in f.walk():
            nd = f.nodes[i]
            if "assert" not in (nd.get("macros") or []) or f.k(i) != "ConditionalOperator":
                continue
            c = nd["ch"][0]
            if c in seen:
                continue
            seen.add(c)
            bad = []
            for x in f.walk(c):
                m = f.nodes[x]
                if m["k"] in ("CompoundAssignOperator", "CXXNewExpr", "CXXDeleteExpr") or (m["k"] == "BinaryOperator" and m.get("op") == "=") or \
                        (m["k"] == "UnaryOperator" and m.get("op") in ("++", "--")):
                    bad.append(f.render(x)[:50])
                cal = m.get("callee")
                if cal and not (cal["name"].startswith(("get_", "is", "operator")) or cal["name"] in PURE_IN_ASSERT):
                    bad.append("call of %s" % cal["name"])
            n += 1
            C.ob("AS-2", f.name, "assert@%s" % f.render(c)[:40], not bad, f.loc(i),
                 "the asserted condition only observes" if not bad else
                 "assert(%s) contains %s: with NDEBUG — the configuration the library is built in — it does not happen" % (f.render(c)[:60], bad[0]))
    return n
