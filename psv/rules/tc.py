"""TC — local heap pairing in the C fitter (serves C18's "releases every resource").

TS-5C: at every return of a fitter function, no resource that is definitely live (allocated on every path reaching the
return and not yet released, returned or handed over) remains.  Must-analysis: silent on anything path-dependent, so a
report is a definite leak on that exit.
"""
from .. import core
from . import ts

FUNCS = ("glamfit_complex", "slicemultiply", "box", "kronecker_product", "calc_penalty", "add_penalty_term", "walk_descents",
         "cholesky_solve", "nnls_normal_block3", "bsplinebasis", "cholmod_tril", "flatten_ndarray_to_sparse", "calc_residual",
         "ndsparse_allocate")
ALLOC = ("malloc", "calloc")
FREE = ("free",)


def is_owner_call(P, f, i):
    n = f.nodes[i]
    cal = n.get("callee")
    if not cal:
        return None
    nm = cal["name"]
    rt = cal.get("rtype", "")
    if nm in ALLOC:
        return nm
    if nm.startswith("cholmod_l_") and rt.endswith("*") and "cholmod_" in rt and not nm.startswith("cholmod_l_free"):
        return nm
    tgt = P.functions.get(cal["usr"])
    if tgt is not None and tgt.file.endswith(".c") and rt.endswith("*") and ("cholmod_" in rt):
        return nm          # repo helper returning a fresh CHOLMOD object (bsplinebasis, box, cholmod_tril, ...)
    return None


def lv_text(f, i):
    return f.render(f.strip(i)).replace(" ", "")


def run(P, C, floor=8):
    C.rule("TS-5C", "in the C fitter every malloc/calloc/CHOLMOD allocation that is definitely live at a return (allocated on every path to it, "
           "not released, returned, stored through an out-parameter or handed to a callee that releases it) is a leak on that exit", floor=floor)
    n = 0
    for name in FUNCS:
        fs = [f for f in P.fns(name) if f.file.endswith(".c")]
        if not fs:
            continue
        f = fs[0]
        params = {p["name"] for p in f.params}

        def transfer(st, e, b, j):
            if e.get("kind") != "stmt":
                return st
            i = e["n"]
            n_ = f.nodes[i]
            ap = ts.assign_parts(f, i)
            if ap and ap[1] is not None and n_.get("op") == "=":
                rhs = f.strip(ap[1])
                if f.k(rhs) == "CallExpr" and is_owner_call(P, f, rhs):
                    t = lv_text(f, ap[0])
                    root = t.split("[")[0].split(".")[0].split("->")[0].strip("(*)")
                    if root not in params and "[" not in t:      # stores through parameters hand the object to the caller; array slots are path-dependent
                        return st | {t}
                # aliasing: oldbasis = bases[i]; penalty_tmp = penalty: ownership follows the new name only if the old one is overwritten later — ignored (must-analysis stays silent)
                t = lv_text(f, ap[0])
                if t in st and not (f.k(rhs) == "CallExpr" and is_owner_call(P, f, rhs)):
                    st = st - {t}       # overwritten by something else: no longer tracked under this name
                # a tracked object copied into another name (ssection = bta; tmp2 = cond ? DtD : ...): responsibility moves to the
                # alias, which this must-analysis does not follow — stop tracking (silence, never a false report)
                for x in f.walk(ap[1]):
                    if f.k(x) in ("DeclRefExpr", "MemberExpr", "ArraySubscriptExpr"):
                        tx = lv_text(f, x)
                        if tx in st:
                            st = st - {tx}
                return st
            if n_["k"] == "DeclStmt":
                for d in n_["decls"]:
                    if d.get("dk") == "Var" and d.get("init", -1) >= 0:
                        rhs = f.strip(d["init"])
                        if f.k(rhs) == "CallExpr" and is_owner_call(P, f, rhs):
                            st = st | {d["name"]}
            if n_["k"] == "CallExpr" and n_.get("callee"):
                nm = n_["callee"]["name"]
                args = f.args(i)
                if nm in FREE and args:
                    st = st - {lv_text(f, args[0])}
                elif nm == "realloc" and args:
                    st = st - {lv_text(f, args[0])}
                elif nm.startswith("cholmod_l_free") and args:
                    a = f.strip(args[0])
                    if f.k(a) == "UnaryOperator" and f.nodes[a]["op"] == "&":
                        st = st - {lv_text(f, f.ch(a)[0])}
                elif nm not in ALLOC:
                    # a callee in the repo that releases its argument (add_penalty_term frees `penalty`): any pointer argument passed
                    # by name to a repo function is conservatively considered handed over
                    tgt = P.functions.get(n_["callee"]["usr"])
                    if tgt is not None and tgt.file.endswith(".c"):
                        for a in args:
                            st = st - {lv_text(f, a)}
            if n_["k"] == "ReturnStmt" and n_.get("value", -1) >= 0:
                st = st - {lv_text(f, n_["value"])}
            return st
        def edge(st, b, k, s_, cond):
            # on the branch where a pointer compared equal to NULL, there is nothing to release
            if cond is None or cond < 0:
                return st
            c, neg = core.cond_polarity(f, cond)
            nn = f.nodes[c]
            tx = None
            null_when_true = None
            if nn["k"] == "BinaryOperator" and nn["op"] in ("==", "!="):
                l, r = (f.strip(x) for x in nn["ch"])
                if ts.is_null(f, r):
                    tx, null_when_true = lv_text(f, l), nn["op"] == "=="
            elif nn["k"] in ("DeclRefExpr", "MemberExpr"):
                tx, null_when_true = lv_text(f, c), False
            if tx is None or tx not in st:
                return st
            if neg:
                null_when_true = not null_when_true
            if (k == 0) == null_when_true:
                return st - {tx}
            return st
        IN, OUT = core.dataflow(f, frozenset(), transfer, lambda a, b: a & b, edge)
        rets = [i for i in f.walk() if f.k(i) == "ReturnStmt"]
        pos = f.node_positions()
        for k, r in enumerate(rets):
            if r not in pos:
                continue
            b, j = pos[r]
            st = core.state_before(f, IN, transfer, b, j)
            if st is None:
                continue
            st = transfer(st, {"kind": "stmt", "n": r}, b, j)
            n += 1
            val = f.render(f.nodes[r]["value"]) if f.nodes[r].get("value", -1) >= 0 else ""
            # stable discriminator of the exit: the message printed just before it, else the condition it is taken under
            tag = ""
            comp = f.parent[r]
            if comp >= 0 and f.k(comp) == "CompoundStmt":
                for x in f.ch(comp):
                    for y in f.walk(x):
                        if f.k(y) == "StringLiteral" and x != r:
                            tag = f.nodes[y]["v"].strip()[:40]
            if not tag:
                ifs = [a for a in f.ancestors(r) if f.k(a) == "IfStmt"]
                tag = f.render(f.nodes[ifs[0]]["cond"])[:40] if ifs else "end"
            C.ob("TS-5C", name, "return(%s)@%s" % (val.strip("()"), tag), not st, f.loc(r),
                 "nothing is definitely live at this return" if not st else
                 "this exit leaks %s (allocated on every path that reaches it, never released)" % sorted(st))
    return n
