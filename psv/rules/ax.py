"""AX — auxiliary key store rules (serves C16): API-1, TS-1w, FS-4, FS-5, UW-3."""
import re

from .. import core
from ..core import Poly
from . import ts, vg

REQUIRED_MEMBERS = ["remove_key", "get_aux_value", "get_aux_key", "get_naux_values", "read_key", "write_key"]
# structural keywords cfitsio itself writes into the primary image header: an auxiliary entry with one of these
# names collides with (or ends) the header.  One line of reason each.
STRUCTURAL = {
    "SIMPLE": "first card of a primary header", "BITPIX": "pixel type of the coefficient image",
    "NAXIS": "number of axes", "NAXIS1": "axis length", "NAXIS9": "axis length", "EXTEND": "announces the extensions",
    "END": "terminates the header: anything written after it is lost (replayed)",
    "HISTORY": "commentary card: it has no value field, the value comes back empty (replayed)",
    "CONTINUE": "continues the string of the preceding card: the value comes back empty (replayed)",
    "PCOUNT": "parameter count of the HDU: cfitsio parses it as an integer whenever the HDU is opened; the string card an auxiliary entry produces makes the whole file unopenable (status 407, replayed)",
    "GCOUNT": "group count of the HDU: as PCOUNT (replayed)",
}


def api1(P, C):
    C.rule("API-1", "every public member of the auxiliary-key API instantiates for std::allocator<void> (the driver unit, which explicitly "
           "instantiates the class and the member templates, parses without diagnostics)", floor=6)
    err = P.errs.get("driver")
    for m in REQUIRED_MEMBERS:
        fs = [f for f in P.fns(m) if f.cls == ts.CLS]
        C.ob("API-1", m, "instantiates", bool(fs) and not err, "tu/api_instances.cpp",
             "member %s: %d instantiation(s) analysed%s" % (m, len(fs), ("; driver unit diagnostics: " + err.strip().splitlines()[0]) if err else ""))
    for T in ("int", "double", "std::basic_string<char>"):
        fs = [f for f in P.fns("write_key") if f.cls == ts.CLS and f.targs and T in str(f.targs[0])]
        C.ob("API-1", "write_key<%s>" % T, "instantiates", bool(fs), "tu/api_instances.cpp", "write_key<%s> instantiated" % T)


def ts1w(P, C):
    C.rule("TS-1w", "write_key: every rejection (reserved name, key syntax, key/value length, stream failure) is decided before anything is "
           "allocated or stored", floor=4)
    for f in [g for g in P.fns("write_key") if g.cls == ts.CLS and g.unit == "driver"]:
        name = ts.fshort(f)
        pos = f.node_positions()
        effects = [i for i in f.walk() if i in pos and (ts.member_writes(f, i) or (f.nodes[i].get("callee", {}) or {}).get("name") == "allocate")]
        rej = [i for i in f.walk() if f.k(i) == "CXXThrowExpr" and not any(f.k(a) == "CXXCatchStmt" for a in f.ancestors(i)) and i in pos]
        early_ret = [i for i in f.walk() if f.k(i) == "ReturnStmt" and i in pos and f.nodes[f.nodes[i]["value"]].get("cv") == 0 and
                     not any(e for e in effects if pos[e][0] in f.reachable_blocks() and pos[i][0] in f.reachable_blocks(pos[e][0]) and pos[e][0] != pos[i][0])]
        bad = []
        for r in rej:
            for e in effects:
                (be, je), (br, jr) = pos[e], pos[r]
                if (be == br and je < jr) or (be != br and br in f.reachable_blocks(be)):
                    bad.append((r, e))
        C.ob("TS-1w", name, "rejections-first", not bad and len(rej) >= 4, f.where(),
             "%d rejection throws, %d allocation/store effects; rejections reachable after an effect: %s"
             % (len(rej), len(effects), [(f.loc(r), f.loc(e)) for r, e in bad][:3]))


def _skip_conditions(f, loop):
    """ordered `if (c) continue;` conditions at the top level of a loop body (alpha-normalised)."""
    body = f.nodes[loop]["body"]
    out = []

    def neg(leaf):
        """alpha text of the negation of a leaf condition: !x -> x, a == b -> a != b, otherwise (!leaf)"""
        leaf = f.strip(leaf)
        n = f.nodes[leaf]
        if n["k"] == "UnaryOperator" and n.get("op") == "!":
            return f.alpha(f.strip(n["ch"][0]))[0]
        if n["k"] == "BinaryOperator" and n.get("op") in ("==", "!="):
            t = f.alpha(leaf)[0]
            a, b = (" == ", " != ") if n["op"] == "==" else (" != ", " == ")
            return t.replace(a, b, 1)
        return "(!%s)" % f.alpha(leaf)[0]
    kids = f.ch(body) if f.k(body) == "CompoundStmt" else [body]
    for pos_, s in enumerate(kids):
        if f.k(s) == "IfStmt" and any(f.k(x) == "ContinueStmt" for x in f.walk(f.nodes[s]["then"])):
            # `if (a || b) continue;` skips when a, and when b
            conn, leaves = core.cond_leaves(f, f.nodes[s]["cond"])
            out += [f.alpha(x)[0] for x in leaves] if conn == "||" else [f.alpha(f.nodes[s]["cond"])[0]]
        elif f.k(s) == "IfStmt" and pos_ == len(kids) - 1 and f.nodes[s].get("else", -1) < 0:
            # `if (a && b) <action>` as the last statement skips when !a, and when !b
            conn, leaves = core.cond_leaves(f, f.nodes[s]["cond"])
            out += [neg(x) for x in leaves] if conn in ("&&", "leaf") else ["(!%s)" % f.alpha(f.nodes[s]["cond"])[0]]
        elif out and f.k(s) not in ("IfStmt",):
            # statements between skips belong to the shared prefix (error = 0; read card); after the last skip the action starts
            continue
    return out


def _prefix_actions(f, loop):
    """calls executed before the skip conditions (must be the same card read)"""
    body = f.nodes[loop]["body"]
    out = []
    for s in f.ch(body):
        if f.k(s) == "IfStmt":
            break
        # the status variable is cleared before the card is read (cfitsio routines do nothing when entered with a non-zero status:
        # without the reset one unreadable card would make every later card be skipped)
        ap = ts.assign_parts(f, f.strip(s)) if f.k(f.strip(s)) == "BinaryOperator" else None
        if ap and ap[1] is not None and f.nodes[f.strip(ap[1])].get("cv") == 0 and f.k(f.strip(ap[0])) == "DeclRefExpr":
            out.append("reset:" + ("status" if "int" in f.nodes[f.strip(ap[0])].get("t", "int") else "?"))
        if f.k(s) == "DeclStmt":
            # a status variable declared (and zeroed) inside the iteration is a fresh status for every card
            for d in f.nodes[s].get("decls", []):
                if d.get("dk") == "Var" and d.get("init", -1) >= 0 and f.nodes[f.strip(d["init"])].get("cv") == 0 and "int" in (d.get("ctype") or d.get("type", "")):
                    out.append("reset:status")
        for i, cal in f.calls(s):
            if cal:
                out.append(f.call_macro(i) or cal["name"])
    return out


def fs4(P, C):
    C.rule("FS-4", "the reserved-keyword predicate applied by write_key, by both passes of the reader's header loop and by countAuxKeywords "
           "is one function, and the reader's counting pass, its filling pass and countAuxKeywords skip the same cards in the same order", floor=4)
    pred = [f for f in P.fns("reservedFitsKeyword")]
    if len(pred) != 1:
        raise core.AnalysisBroken("reservedFitsKeyword: expected one definition")
    pred = pred[0]
    users = {}
    for f in P.functions.values():
        if f.unit not in ("driver", "core/fitsio"):
            continue
        for i, cal in f.calls():
            if cal and cal["name"] == "reservedFitsKeyword":
                users.setdefault(f.name, []).append((f, i, cal["usr"]))
    for nm, want in (("write_key", 1), ("read_fits_core", 2), ("countAuxKeywords", 1)):
        us = users.get(nm, [])
        per_fn = {}
        for (f, i, usr) in us:
            per_fn.setdefault(f.usr, []).append(usr)
        ok = bool(per_fn) and all(len(v) == want and all(u == pred.usr for u in v) for v in per_fn.values())
        C.ob("FS-4", nm, "uses-predicate", ok, us[0][0].loc(us[0][1]) if us else "src/core/fitsio.cpp",
             "%s applies reservedFitsKeyword %s time(s) per instantiation (expected %d)" % (nm, sorted(len(v) for v in per_fn.values()), want))
    # loops that read header cards
    R = [f for f in P.fns("read_fits_core") if f.unit == "driver"][0]
    K = P.one("countAuxKeywords")
    loops = []
    for (f, tag) in ((R, "reader"), (K, "countAuxKeywords")):
        for i in f.walk():
            if f.k(i) == "ForStmt":
                body = f.nodes[i]["body"]
                direct = [x for x, cal in f.calls(body) if cal and cal["name"] == "ffgkyn" and
                          next((a for a in f.ancestors(x) if f.k(a) == "ForStmt"), None) == i]
                if direct:
                    loops.append((f, i, tag))
    if len(loops) != 3:
        raise core.AnalysisBroken("expected 3 header-card loops (2 in the reader, 1 in countAuxKeywords), found %d" % len(loops))
    sigs = [(_prefix_actions(f, L), _skip_conditions(f, L)) for (f, L, tag) in loops]
    base = sigs[0]
    for n, ((f, L, tag), sg) in enumerate(zip(loops, sigs)):
        ok = sg[1] == base[1] and [a for a in sg[0] if a.startswith(("fits_", "reset:"))] == [a for a in base[0] if a.startswith(("fits_", "reset:"))] and \
            len(sg[1]) >= 2 and "reset:status" in sg[0] and sg[0].index("reset:status") < min([k for k, a in enumerate(sg[0]) if a.startswith("fits_")] or [99])
        C.ob("FS-4", f.name, "skip-conditions#%d" % n, ok, f.loc(L),
             "%s pass %d reads a card (%s) and skips it when %s; reference: %s" % (tag, n, sg[0], sg[1], base[1]))
    # the counting pass bounds the filling pass: fill loop is limited by i < naux
    fill = loops[1]
    f, L, _ = fill
    cond = f.alpha(f.nodes[L]["cond"])[0]
    C.ob("FS-4", "read_fits_core", "fill-bounded-by-count", "< naux" in cond, f.loc(L),
         "the filling pass stops after naux entries even if the header changes between passes: %s" % cond)


def _parse_predicate_table(f):
    """the table-driven form of the predicate: a constant array of {name, length} entries, a loop over it that returns true when
    strncmp(entry.name, key, entry.length) == 0 for entries with a non-zero length and when strcmp(entry.name, key) == 0 for the others,
    and `return false` after the loop.  Returns the same list as parse_predicate, or None if the function does not have this form."""
    key_id = f.params[0]["id"]
    tables = []
    for i in f.walk():
        if f.k(i) != "DeclStmt":
            continue
        for d in f.nodes[i]["decls"]:
            init = f.strip(d.get("init", -1)) if d.get("init", -1) >= 0 else -1
            if init < 0 or f.k(init) != "InitListExpr":
                continue
            rows = []
            for r in f.ch(init):
                r = f.strip(r)
                if f.k(r) != "InitListExpr":
                    rows = None
                    break
                cells = [f.strip(c) for c in f.ch(r)]
                strs = [f.nodes[c]["v"] for c in cells if f.k(c) == "StringLiteral"]
                ints = [f.nodes[c].get("cv", f.nodes[c].get("v")) for c in cells if f.k(c) != "StringLiteral" and f.nodes[c].get("cv", f.nodes[c].get("v")) is not None]
                if len(strs) != 1 or len(ints) != 1:
                    rows = None
                    break
                rows.append((strs[0], ints[0]))
            if rows:
                tables.append(rows)
    if len(tables) != 1:
        return None
    calls = {}
    for c, cal in f.calls():
        if cal and cal["name"] in ("strncmp", "strcmp"):
            a = f.args(c)
            if any(f.k(f.strip(x)) == "DeclRefExpr" and f.nodes[f.strip(x)]["decl"].get("id") == key_id for x in a[:2]) and \
                    any(f.k(f.strip(x)) == "MemberExpr" for x in a[:2]):
                calls.setdefault(cal["name"], []).append(c)
    rets = [r for r in f.walk() if f.k(r) == "ReturnStmt" and f.ch(r)]
    trues = [r for r in rets if f.nodes[f.strip(f.ch(r)[0])].get("cv", f.nodes[f.strip(f.ch(r)[0])].get("v")) in (1, True)]
    falses = [r for r in rets if f.nodes[f.strip(f.ch(r)[0])].get("cv", f.nodes[f.strip(f.ch(r)[0])].get("v")) in (0, False)]
    loops = [x for x in f.walk() if f.k(x) in ("CXXForRangeStmt", "ForStmt")]
    if len(loops) != 1 or len(falses) != 1 or falses[0] in set(f.walk(loops[0])) or not trues or not all(t in set(f.walk(loops[0])) for t in trues):
        return None
    from .dp import path_facts
    has_prefix = has_exact = False
    for nm, cs in calls.items():
        for c in cs:
            # the call is compared with 0 and the true arm returns true
            p_ = f.parent[c]
            while p_ >= 0 and f.k(p_) in core.TRANSPARENT:
                p_ = f.parent[p_]
            if p_ < 0 or f.k(p_) != "BinaryOperator" or f.nodes[p_].get("op") != "==":
                return None
            g = next((a for a in f.ancestors(p_) if f.k(a) == "IfStmt" and f.strip(f.nodes[a]["cond"]) == p_), None)
            if g is None or not any(t in set(f.walk(f.nodes[g]["then"])) for t in trues):
                return None
            facts = path_facts(f, g)
            lens = [(a, op, b) for (a, op, b) in facts if "ength" in a or "len" in a.lower() or "ength" in b or "len" in b.lower() or a.endswith((".n", ".size")) or b.endswith((".n", ".size"))]
            if nm == "strncmp":
                if not any(op == "!=" and "0" in (a, b) for (a, op, b) in lens) and not any(op in (">", "<") for (a, op, b) in lens):
                    return None
                has_prefix = True
            else:
                if not any(op == "==" and "0" in (a, b) for (a, op, b) in lens):
                    return None
                has_exact = True
    out = []
    for (nm, n_) in tables[0]:
        if n_:
            if not has_prefix:
                return None
            out.append(("prefix", nm, n_))
        else:
            if not has_exact:
                return None
            out.append(("exact", nm, None))
    return out


def _parse_predicate_string_tables(P, f):
    """a second table-driven form: one range-for per kind over a constant array of string literals at namespace scope —
    `for (const char* p : prefixes) if (strncmp(p, key, strlen(p)) == 0) return true;` and
    `for (const char* n : names) if (strcmp(n, key) == 0) return true;` — followed by `return false`."""
    key_id = f.params[0]["id"]
    kids = [x for x in f.ch(f.body)]
    if not kids or f.k(kids[-1]) != "ReturnStmt" or f.nodes[f.strip(f.ch(kids[-1])[0])].get("cv", f.nodes[f.strip(f.ch(kids[-1])[0])].get("v")) not in (0, False):
        return None
    out = []
    for L in kids[:-1]:
        if f.k(L) != "CXXForRangeStmt":
            return None
        rng = [f.nodes[y]["decl"] for y in f.walk(f.nodes[L]["rangeInit"]) if f.k(y) == "DeclRefExpr" and f.nodes[y]["decl"].get("kind") in ("Var", "GlobalVar")]
        g = None
        for d in rng:
            for q, gl in P.globals.items():
                if gl.get("name") == d.get("name") and "initStrings" in gl:
                    g = gl
        if g is None:
            return None
        body = f.nodes[L]["body"]
        ifs = [body] if f.k(body) == "IfStmt" else ([x for x in f.ch(body)] if f.k(body) == "CompoundStmt" else [])
        if len(ifs) != 1 or f.k(ifs[0]) != "IfStmt" or f.nodes[ifs[0]].get("else", -1) >= 0:
            return None
        then = f.nodes[ifs[0]]["then"]
        rets = [r for r in f.walk(then) if f.k(r) == "ReturnStmt"]
        if len(rets) != 1 or f.nodes[f.strip(f.ch(rets[0])[0])].get("cv", f.nodes[f.strip(f.ch(rets[0])[0])].get("v")) not in (1, True):
            return None
        c = f.strip(f.nodes[ifs[0]]["cond"])
        n = f.nodes[c]
        if n["k"] != "BinaryOperator" or n.get("op") != "==" or f.nodes[f.strip(n["ch"][1])].get("cv") != 0:
            return None
        call = f.strip(n["ch"][0])
        cal = f.nodes[call].get("callee")
        if not cal or cal["name"] not in ("strncmp", "strcmp"):
            return None
        a = f.args(call)
        has_key = any(f.k(f.strip(x)) == "DeclRefExpr" and f.nodes[f.strip(x)]["decl"].get("id") == key_id for x in a[:2])
        if not has_key:
            return None
        if cal["name"] == "strncmp":
            ln = f.strip(a[2])
            if (f.nodes[ln].get("callee") or {}).get("name") != "strlen" or any(
                    f.k(y) == "DeclRefExpr" and f.nodes[y]["decl"].get("id") == key_id for y in f.walk(ln)):
                return None          # the length compared must be the table entry's own length
            out += [("prefix", s_, len(s_)) for s_ in g["initStrings"]]
        else:
            out += [("exact", s_, None) for s_ in g["initStrings"]]
    return out or None


def parse_predicate(P):
    """reservedFitsKeyword -> list of (kind, literal, n): kind 'prefix' (strncmp(LIT,key,n)==0) or 'exact' (strcmp(LIT,key)==0)."""
    f = P.one("reservedFitsKeyword")
    rets = [i for i in f.walk() if f.k(i) == "ReturnStmt"]
    if len(rets) != 1:
        tab = _parse_predicate_table(f)
        if tab is None:
            tab = _parse_predicate_string_tables(P, f)
        if tab is not None:
            return f, tab
        raise core.AnalysisBroken("reservedFitsKeyword: expected a single return")
    conn, leaves = core.cond_leaves(f, f.nodes[rets[0]]["value"])
    if conn not in ("||", "leaf"):
        raise core.AnalysisBroken("reservedFitsKeyword: not a disjunction")
    out = []
    key_id = f.params[0]["id"]
    for lf in leaves:
        n = f.nodes[f.strip(lf)]
        ok = False
        if n["k"] == "BinaryOperator" and n["op"] == "==" and f.nodes[n["ch"][1]].get("cv") == 0:
            c = f.strip(n["ch"][0])
            cal = f.nodes[c].get("callee")
            if cal and cal["name"] in ("strncmp", "strcmp"):
                a = f.args(c)
                lit = f.strip(a[0])
                other = f.strip(a[1])
                if f.k(lit) != "StringLiteral":
                    lit, other = other, lit
                if f.k(lit) == "StringLiteral" and f.k(other) == "DeclRefExpr" and f.nodes[other]["decl"]["id"] == key_id:
                    if cal["name"] == "strncmp":
                        out.append(("prefix", f.nodes[lit]["v"], f.nodes[a[2]].get("cv")))
                    else:
                        out.append(("exact", f.nodes[lit]["v"], None))
                    ok = True
        if not ok:
            raise core.AnalysisBroken("reservedFitsKeyword: unrecognised disjunct %s" % f.render(lf))
    return f, out


def reserved(pred, name):
    for (kind, lit, n) in pred:
        if kind == "exact" and lit == name:
            return True
        if kind == "prefix" and n is not None and name[:n] == lit[:n] and len(lit) >= n:
            # strncmp(lit, name, n) == 0  (compares at most n characters, stops at NUL)
            if len(name) >= n or name == lit[:len(name)] and len(name) == len(lit):
                return True
    return False


def writer_keys(P):
    """keywords the writer emits itself into the primary header, from the resolved calls of write_fits_core."""
    f = [g for g in P.fns("write_fits_core") if g.unit == "driver"][0]
    names = []
    fmts = {}
    for i, cal in f.calls():
        if cal and cal["name"] == "snprintf":
            a = f.args(i)
            dst = f.strip(a[0])
            fmt, _rest = core.printf_format(f, i)
            if fmt is not None and f.k(dst) == "DeclRefExpr":
                fmts.setdefault(f.nodes[dst]["decl"]["id"], []).append((i, fmt))
    pos = f.node_positions()
    for i, cal in f.calls():
        if cal and cal["name"] == "ffpky":      # fits_write_key: primary header keys
            k = f.strip(f.args(i)[2])
            if f.k(k) == "StringLiteral":
                names.append(f.nodes[k]["v"])
            elif f.k(k) == "DeclRefExpr" and f.nodes[k]["decl"]["id"] in fmts:
                # nearest preceding snprintf into that buffer
                cands = [(j, fm) for (j, fm) in fmts[f.nodes[k]["decl"]["id"]] if f.seq(j) < f.seq(i)]
                if cands:
                    fm = cands[-1][1]
                    names += [fm.replace("%d", "0"), fm.replace("%d", "12")]
    return f, names


def fs5(P, C):
    C.rule("FS-5", "every keyword the writer itself emits into the primary header (TYPE, ORDERn, PERIODn: taken from write_fits_core) and every "
           "structural keyword of an image header is matched by reservedFitsKeyword (the predicate's strncmp/strcmp tests applied abstractly)", floor=9)
    pf, pred = parse_predicate(P)
    wf, names = writer_keys(P)
    if len(names) < 5:
        raise core.AnalysisBroken("writer keys extracted from write_fits_core: %s" % names)
    for nm in sorted(set(names)):
        C.ob("FS-5", "reservedFitsKeyword", nm, reserved(pred, nm), pf.where(),
             "key %s is written by write_fits_core itself; an auxiliary entry of that name would be written twice and read back as table metadata" % nm)
    for nm, why in sorted(STRUCTURAL.items()):
        C.ob("FS-5", "reservedFitsKeyword", nm, reserved(pred, nm), pf.where(), "structural keyword %s (%s) must be rejected as an auxiliary key" % (nm, why))
    # the reader finds its extensions by name: cfitsio's search (fits_movnam_hdu) compares the EXTNAME, or failing that the HDUNAME, card of
    # every HDU — the primary one included.  An auxiliary entry of that name in the primary header gives the coefficient image a name; with
    # the value KNOTSn the search for knot vector n lands there (D54)
    from . import fs as _fs
    rf, R = _fs.reader_schema(P)
    moves = [x for x in R if x["kind"] == "move"]
    if not moves:
        raise core.AnalysisBroken("FS-5: the reader no longer locates its extensions with fits_movnam_hdu; the HDU-naming keywords need re-deriving")
    for nm in ("EXTNAME", "HDUNAME"):
        C.ob("FS-5", "reservedFitsKeyword", nm, reserved(pred, nm), pf.where(),
             "%s names an HDU for fits_movnam_hdu, by which the reader locates %s: as an auxiliary key it names the primary HDU, and the value %s "
             "makes the reader take the coefficient image for that extension" % (nm, ", ".join(sorted(set(str(m["name"]) for m in moves))), moves[0]["name"]))
    C.extra["reserved_predicate"] = ["%s %s/%s" % p for p in pred]


# what the predicate reserves today, confirmed by reading (one line of reason each).  The reader drops every card the predicate matches, so
# widening an entry silently loses auxiliary keys of existing files; narrowing an indexed family lets table metadata in as auxiliary keys.
RESERVED_TABLE = {
    "BITPIX": ("prefix", 6, "structural; historic prefix match (also refuses BITPIX-prefixed user keys, which only makes write_key stricter)"),
    "SIMPLE": ("prefix", 6, "structural; historic prefix match"),
    "TYPE": ("prefix", 4, "written by the writer itself; historic prefix match"),
    "ORDER": ("prefix", 5, "indexed family ORDER, ORDERn"),
    "NAXIS": ("prefix", 5, "indexed family NAXIS, NAXISn"),
    "PERIOD": ("prefix", 6, "indexed family PERIODn"),
    "EXTEND": ("prefix", 6, "structural; historic prefix match"),
    "COMMENT": ("prefix", 7, "commentary cards carry no value"),
    "END": ("exact", None, "terminates the header (D24); exact on purpose: ENDTIME, ENDCAP ... are ordinary user keys"),
    "HISTORY": ("exact", None, "commentary card without a value field (D46); exact: HISTORYX is an ordinary user key"),
    "CONTINUE": ("exact", None, "continuation card (D46); exact"),
    "PCOUNT": ("exact", None, "structural: parsed as an integer when the HDU is opened (D61); exact"),
    "GCOUNT": ("exact", None, "structural: parsed as an integer when the HDU is opened (D61); exact"),
    "EXTNAME": ("exact", None, "names the HDU for the reader's search by name (D54); exact"),
    "HDUNAME": ("exact", None, "cfitsio's fallback for EXTNAME in the search by name (D54); exact"),
}


def fs5b(P, C):
    C.rule("FS-5b", "reservedFitsKeyword reserves exactly the confirmed families, each with the confirmed kind of match (prefix of n characters or "
           "exact): the predicate filters the reader's header passes as well as write_key, so a wider match silently drops auxiliary keys of "
           "existing files and refuses valid keys, a narrower one admits table metadata as auxiliary keys", floor=9)
    pf, pred = parse_predicate(P)
    seen = {}
    for (kind, lit, n) in pred:
        seen.setdefault(lit, []).append((kind, n))
    for lit, (kind, n, why) in sorted(RESERVED_TABLE.items()):
        got = seen.get(lit, [])
        ok = got == [(kind, n)]
        C.ob("FS-5b", "reservedFitsKeyword", lit, ok, pf.where(),
             ("%s matched %s as confirmed (%s)" % (lit, "exactly" if kind == "exact" else "by its first %d characters" % n, why)) if ok else
             "%s is now matched %s (confirmed: %s; %s)" % (lit, ["%s/%s" % g for g in got] or "not at all", "exact" if kind == "exact" else "prefix/%d" % n, why))
    extra = sorted(set(seen) - set(RESERVED_TABLE))
    C.ob("FS-5b", "reservedFitsKeyword", "no-further-families", not extra, pf.where(),
         "no family beyond the confirmed ones is reserved" if not extra else "new reserved families %s: cards of that name in existing files will be dropped on reading" % extra)


def uw3(P, C):
    C.rule("UW-3", "write_key: no unsigned subtraction in the key/value length arithmetic can wrap: the right operand is bounded by a dominating "
           "throwing guard, or the variable was defined as (non-negative quantity) + constant", floor=3)
    for f in [g for g in P.fns("write_key") if g.cls == ts.CLS and g.unit == "driver"]:
        name = ts.fshort(f)
        # single-definition locals: keylen := strlen(key)+1, valuelen := valuedata.size()+1
        env = {}
        for i in f.walk():
            if f.k(i) == "DeclStmt":
                for d in f.nodes[i]["decls"]:
                    if d.get("dk") == "Var" and d.get("init", -1) >= 0 and d.get("ctype") in ("unsigned long", "unsigned int"):
                        # only if never reassigned
                        re_as = [x for x in f.walk() if ts.assign_parts(f, x) and f.k(f.strip(ts.assign_parts(f, x)[0])) == "DeclRefExpr"
                                 and f.nodes[f.strip(ts.assign_parts(f, x)[0])]["decl"]["id"] == d["id"]]
                        if not re_as:
                            env[d["id"]] = core.poly(f, d["init"])
        nonneg_atoms = lambda a: a.startswith("strlen(") or a.endswith(".size()")   # noqa: E731
        gs = vg.guards_of(f)
        pos = f.node_positions()
        dom = f.dominators()
        subs = [i for i in f.walk() if f.k(i) == "BinaryOperator" and f.nodes[i]["op"] == "-" and
                f.nodes[i].get("ct", f.nodes[i].get("t")) in ("unsigned long", "size_t", "unsigned int") and "cv" not in f.nodes[i]]
        for n_, i in enumerate(subs):
            R = core.poly(f, i, env=env)
            atoms = R.atoms()
            ok = all(nonneg_atoms(a) for a in atoms) and all(v >= 0 for k, v in R.t.items())
            det = "value %r" % R
            if not ok:
                # guard: throw if G < 0 with R - G a non-negative constant, dominating this subtraction
                blk = None
                for x in f.walk(i):
                    if x in pos:
                        blk = pos[x][0]
                        break
                for g in gs:
                    for lf in g["leaves"]:
                        if isinstance(lf[0], Poly) and lf[1] == "<0":
                            # re-express the guard over the same environment
                            cn = f.nodes[g["node"]]["cond"]
                            rc = core.rel_canon(f, core.cond_leaves(f, cn)[1][0], None)
                            G = None
                            cl = core.cond_leaves(f, cn)[1]
                            for leaf in cl:
                                c, neg = core.cond_polarity(f, leaf)
                                nn = f.nodes[c]
                                if nn["k"] == "BinaryOperator" and nn["op"] in ("<", "<=", ">", ">="):
                                    a, b = core.poly(f, nn["ch"][0], env=env), core.poly(f, nn["ch"][1], env=env)
                                    op = nn["op"]
                                    if neg:
                                        op = {"<": ">=", "<=": ">", ">": "<=", ">=": "<"}[op]
                                    one = Poly.const(1)
                                    G = {"<": a - b, "<=": a - b - one, ">": b - a, ">=": b - a - one}[op]   # throw if G < 0
                                    d = R - G
                                    gb = None
                                    for x in f.walk(cn):
                                        if x in pos:
                                            gb = pos[x][0]
                                            break
                                    # after the guard G >= 0 holds; R = G + d
                                    if d.is_const() and d.const_value() >= 0 and gb is not None and blk is not None and gb in dom[blk]:
                                        ok = True
                                        det = "value %r; dominated by guard `%s` (ensures %r >= 0)" % (R, g["text"][:60], G)
            C.ob("UW-3", name, "sub#%d:%s" % (n_, f.render(i)[:40]), ok, f.loc(i),
                 ("cannot wrap: " + det) if ok else "unsigned subtraction %s (= %r) has no dominating guard that bounds the right operand: "
                 "for long keys it wraps around and any value length is then accepted" % (f.render(i), R))


def ks1(P, C):
    C.rule("KS-1", "write_key applies the standard-keyword syntax rules to exactly the keys of at most 8 characters (the FITS keyword length) with "
           "68 characters for the value, and the HIERARCH rules and the shorter value limit to longer keys", floor=4)
    for f in [g for g in P.fns("write_key") if g.cls == ts.CLS and g.unit == "driver"]:
        name = ts.fshort(f)
        env = {}
        at = vg.atomizer(f, ())
        for i in f.walk():
            if f.k(i) == "DeclStmt":
                for d in f.nodes[i]["decls"]:
                    if d.get("dk") == "Var" and d.get("init", -1) >= 0 and any(
                            cal and cal["name"] == "strlen" for _x, cal in f.calls(d["init"])):
                        env[d["id"]] = core.poly(f, d["init"], at)      # keylen := strlen(key) + 1, whatever it is called
        branch = None
        for i in f.walk():
            if f.k(i) == "IfStmt" and any(cal and cal["name"] == "isupper" for _x, cal in f.calls(f.nodes[i]["then"])):
                branch = i
                break
        ok = False
        det = "no branch applying the standard-keyword character rules"
        if branch is not None:
            c, neg = core.cond_polarity(f, f.nodes[branch]["cond"])
            n = f.nodes[c]
            if n["k"] == "BinaryOperator" and n["op"] in ("<", "<=", ">", ">=") and not neg:
                a, b = core.poly(f, n["ch"][0], at, env), core.poly(f, n["ch"][1], at, env)
                one = Poly.const(1)
                G = {"<": a - b, "<=": a - b - one, ">": b - a, ">=": b - a - one}[n["op"]]     # branch taken iff G < 0
                want = Poly.atom("strlen($0)") - Poly.const(9)
                ok = G == want
                det = "standard-keyword branch taken iff %r < 0 (required strlen(key) - 9 < 0, i.e. at most 8 characters)" % G
        C.ob("KS-1", name, "short-key-boundary", ok, f.loc(branch) if branch is not None else f.where(), det)
        # the value-length limit: the local that is re-assigned `80 - (...)` in the long-key branch; its initial value serves short keys
        lim = None
        for i in f.walk():
            ap = ts.assign_parts(f, i)
            if ap and ap[1] is not None and f.k(f.strip(ap[0])) == "DeclRefExpr" and f.k(f.strip(ap[1])) == "BinaryOperator" \
                    and f.nodes[f.strip(ap[1])]["op"] == "-" and f.nodes[f.strip(f.nodes[f.strip(ap[1])]["ch"][0])].get("cv") == 80:
                lim = f.nodes[f.strip(ap[0])]["decl"]["id"]
        init = [f.nodes[d["init"]].get("cv") for i in f.walk() if f.k(i) == "DeclStmt" for d in f.nodes[i]["decls"] if d.get("id") == lim and d.get("init", -1) >= 0]
        if not init:
            # the value the local starts with may be a plain assignment of a constant (a declaration without initialiser, or one that a
            # folded helper's result variable was merged into)
            init = [f.nodes[f.strip(ts.assign_parts(f, i)[1])].get("cv") for i in f.walk()
                    if ts.assign_parts(f, i) and ts.assign_parts(f, i)[1] is not None and f.nodes[i].get("op", "=") == "=" and
                    f.k(f.strip(ts.assign_parts(f, i)[0])) == "DeclRefExpr" and f.nodes[f.strip(ts.assign_parts(f, i)[0])]["decl"].get("id") == lim and
                    "cv" in f.nodes[f.strip(ts.assign_parts(f, i)[1])]]
        C.ob("KS-1", name, "short-key-value-limit", init == [68], f.where(), "a standard card leaves 68 characters for a string value: %s" % init)


def ks2(P, C):
    """KS-2: write_key refuses the keys that cfitsio would alter; KS-3: the value limit counts what the card needs."""
    C.rule("KS-2", "write_key refuses, by a throwing guard that precedes every effect, the keys cfitsio does not store as given: the empty key (a "
           "card without keyword is commentary), a key that begins or ends with a blank (trimmed), and a key that begins with `HIERARCH ` "
           "(the prefix is the convention's own marker and is stripped) — every accepted entry has to come back under its own key", floor=4)
    C.rule("KS-3", "the length test of the value counts every single quote twice: on the card a quote inside a string is doubled, so a value "
           "that fits by its raw length can overflow the card and come back truncated", floor=1)
    for f in [g for g in P.fns("write_key") if g.cls == ts.CLS and g.unit == "driver"]:
        name = ts.fshort(f)
        at = vg.atomizer(f, ())
        env = {}
        for i in f.walk():
            if f.k(i) == "DeclStmt":
                for d in f.nodes[i]["decls"]:
                    if d.get("dk") == "Var" and d.get("init", -1) >= 0 and any(cal and cal["name"] == "strlen" for _x, cal in f.calls(d["init"])):
                        env[d["id"]] = core.poly(f, d["init"], at)
        leaves = []
        for g in vg.guards_of(f):
            conn, ls = core.cond_leaves(f, f.nodes[g["node"]]["cond"])
            if conn in ("||", "leaf"):
                leaves += [(x, g["node"]) for x in ls]
        key = f.params[0]["id"]

        def key_char(x):
            """x is key[e]: returns Poly of e, else None"""
            x = f.strip(x)
            if f.k(x) != "ArraySubscriptExpr":
                return None
            b = f.strip(f.nodes[x]["ch"][0])
            if f.k(b) == "DeclRefExpr" and f.nodes[b]["decl"].get("id") == key and f.nodes[b]["decl"].get("kind") == "ParmVar":
                return core.poly(f, f.nodes[x]["ch"][1], at, env)
            return None
        found = {"empty": None, "leading-blank": None, "trailing-blank": None, "hierarch-prefix": None}
        slen = Poly.atom("strlen($0)")
        for lf, gnode in leaves:
            n = f.nodes[f.strip(lf)]
            if n["k"] == "BinaryOperator" and n["op"] in ("==", "<", "<="):
                # character tests
                orr = f.oriented(lf, lambda x: key_char(x) is not None)
                if orr and orr[1] == "==":
                    e = key_char(orr[0])
                    cv = f.nodes[orr[2]].get("cv", f.nodes[f.strip(orr[2])].get("v"))
                    if cv == 32 and e == Poly.const(0):
                        found["leading-blank"] = gnode
                    if cv == 32 and e == slen - Poly.const(1):
                        found["trailing-blank"] = gnode
                    if cv == 0 and e == Poly.const(0):
                        found["empty"] = gnode
                # length tests: strlen(key) == 0, keylen < 2, keylen == 1 ...
                a, b = core.poly(f, n["ch"][0], at, env), core.poly(f, n["ch"][1], at, env)
                one = Poly.const(1)
                G = {"==": None, "<": a - b, "<=": a - b - one}[n["op"]]
                if G is not None and G == slen - one:                 # true iff strlen(key) < 1
                    found["empty"] = gnode
                if n["op"] == "==" and (a - b == slen or b - a == slen):
                    found["empty"] = gnode
                cal = f.nodes[f.strip(n["ch"][0])].get("callee") or f.nodes[f.strip(n["ch"][1])].get("callee")
                if n["op"] == "==" and cal and cal["name"] == "strncmp":
                    c_ = f.strip(n["ch"][0]) if f.nodes[f.strip(n["ch"][0])].get("callee") else f.strip(n["ch"][1])
                    a_ = f.args(c_)
                    lits = [f.nodes[f.strip(x)].get("v") for x in a_[:2] if f.k(f.strip(x)) == "StringLiteral"]
                    if lits == ["HIERARCH "] and f.nodes[f.strip(a_[2])].get("cv", f.nodes[a_[2]].get("cv")) == 9:
                        found["hierarch-prefix"] = gnode
        pos = f.node_positions()
        effects = [i for i in f.walk() if i in pos and (ts.member_writes(f, i) or (f.nodes[i].get("callee") or {}).get("name") == "allocate")]
        for what, gnode in sorted(found.items()):
            ok = gnode is not None
            if ok:
                # the leftmost leaf of the condition is evaluated first: its block dominates whatever follows the guard
                first = core.cond_leaves(f, f.nodes[gnode]["cond"])[1][0]
                pg = None
                for x in [first] + list(f.walk(first)):
                    if x in pos:
                        pg = pos[x]
                        break
                dom = f.dominators()
                ok = pg is not None and all(pg[0] in dom.get(pos[e][0], ()) for e in effects)
            C.ob("KS-2", name, "rejects:" + what, ok, f.loc(gnode) if gnode is not None else f.where(),
                 "a throwing guard refuses the %s key before anything is allocated or stored" % what.replace("-", " ") if ok else
                 "no throwing guard for the %s key before the first effect: the key is accepted, but the file holds it under another name or without "
                 "its value" % what.replace("-", " "))
        # KS-3
        lim = None
        for i in f.walk():
            ap = ts.assign_parts(f, i)
            if ap and ap[1] is not None and f.k(f.strip(ap[0])) == "DeclRefExpr" and f.k(f.strip(ap[1])) == "BinaryOperator" \
                    and f.nodes[f.strip(ap[1])]["op"] == "-" and f.nodes[f.strip(f.nodes[f.strip(ap[1])]["ch"][0])].get("cv") == 80:
                lim = f.nodes[f.strip(ap[0])]["decl"]["id"]
        ok3 = False
        det3 = "no guard compares the value length with the limit of the card"
        for g in vg.guards_of(f):
            c = f.strip(f.nodes[g["node"]]["cond"])
            n = f.nodes[c]
            if n["k"] != "BinaryOperator" or n["op"] not in ("<", "<="):
                continue
            sides = [f.strip(x) for x in n["ch"]]
            if not any(f.k(x) == "DeclRefExpr" and f.nodes[x]["decl"].get("id") == lim for x in sides):
                continue
            other = sides[0] if f.k(sides[1]) == "DeclRefExpr" and f.nodes[sides[1]]["decl"].get("id") == lim else sides[1]
            # the other side must add a count of quote characters of the value
            cnts = []
            for y in f.walk(other):
                yy = y
                if f.k(y) == "DeclRefExpr" and f.nodes[y]["decl"].get("kind") == "Var":
                    ds = [d["init"] for x in f.walk() if f.k(x) == "DeclStmt" for d in f.nodes[x]["decls"] if d.get("id") == f.nodes[y]["decl"]["id"] and d.get("init", -1) >= 0]
                    yy = f.strip(ds[0]) if ds else y
                cal = f.nodes[yy].get("callee")
                if cal and cal["name"] in ("count", "count_if") and any(f.nodes[f.strip(a)].get("cv", f.nodes[f.strip(a)].get("v")) == 39 for a in f.args(yy)):
                    cnts.append(yy)
            ok3 = bool(cnts)
            det3 = "the value length compared with the card's limit includes the number of quotes in the value: %s" % ok3
        C.ob("KS-3", name, "quotes-counted-twice", ok3, f.where(), det3 if ok3 else det3 + " — a value of the maximal raw length that contains a quote is accepted and truncated on the card")


def km1(P, C):
    C.rule("KM-1", "every search of the key store (get_aux_value, remove_key, write_key) matches keys with the same exact comparison "
           "strcmp(key, stored key) == 0 over all naux entries: the sibling implementations of 'find this key' agree", floor=3)
    sigs = {}
    for nm in ("get_aux_value", "remove_key", "write_key"):
        for f in [g for g in P.fns(nm) if g.cls == ts.CLS and g.unit == "driver"]:
            name = ts.fshort(f)
            hits = []
            for i, cal in f.calls():
                if cal and cal["name"] in ("strcmp", "strncmp", "strcasecmp", "memcmp", "strncasecmp") and "aux[" in f.render(i):
                    par = f.parent[i]
                    while par >= 0 and f.k(par) in core.IMPLICIT_ONLY:
                        par = f.parent[par]
                    cmp0 = par >= 0 and f.k(par) == "BinaryOperator" and f.nodes[par]["op"] == "==" and f.nodes[f.strip(f.nodes[par]["ch"][1])].get("cv") == 0
                    loop = next((a for a in f.ancestors(i) if f.k(a) == "ForStmt"), None)
                    lc = f.alpha(f.nodes[loop]["cond"])[0].replace(" ", "") if loop is not None else ""
                    hits.append((cal["name"], [f.alpha(a)[0].replace(" ", "") for a in f.args(i)], cmp0, lc))
            ok = len(hits) == 1 and hits[0][0] == "strcmp" and hits[0][1] == ["$0", "(&(*aux[v0][0]))"] and hits[0][2] and hits[0][3] == "(v0<naux)"
            sigs[name] = hits
            C.ob("KM-1", name, "exact-match", ok, f.where(), "key search: %s" % hits)


def km2(P, C):
    C.rule("KM-2", "the stored part of an auxiliary value read from a file is one (start, length) view: the pair handed to the copy is either "
           "cfitsio's buffer with its length, or the decoding buffer with the number of characters decoded into it; every subscript whose index "
           "involves the length uses that view's start pointer; the decoding loop reads only the raw buffer, inside the range it established, "
           "and writes each output position once", floor=3)
    C.rule("KM-3", "a quoted header value is decoded as the inverse of what fits_write_key(TSTRING) does: the enclosing quotes are left out and "
           "every doubled quote inside is collapsed into one (FITS escapes a quote by doubling it); nothing else is removed (blanks are kept: "
           "FITS padding and the user's blanks cannot be told apart)", floor=2)
    f = [g for g in P.fns("read_fits_core") if g.unit == "driver"][0]
    copies = []
    for i, cal in f.calls():
        if cal and cal["name"] == "copy":
            txt, order = f.alpha(i)
            if txt.replace(" ", "") == "copy(v0,(v0+v1),aux[v2][1])":
                copies.append((i, order))
    if len(copies) != 1:
        raise core.AnalysisBroken("KM-2: the copy of the kept part of an auxiliary value (copy(start, start+length, aux[i][1])) was not found")
    i, (B, L, _iv) = copies[0]
    # raw buffer: 4th argument of fits_read_keyn
    raw = None
    for c_, cal in f.calls():
        if cal and (f.call_macro(c_) or cal["name"]) in ("fits_read_keyn", "ffgkyn"):
            a_ = f.strip(f.args(c_)[3])
            if f.k(a_) == "DeclRefExpr":
                raw = f.nodes[a_]["decl"]["id"]
    if raw is None:
        raise core.AnalysisBroken("KM-2: the raw value buffer of fits_read_keyn was not found")

    def vid(x):
        x = f.strip(x)
        return f.nodes[x]["decl"]["id"] if f.k(x) == "DeclRefExpr" else None
    # definitions of the view
    bdefs = [y for y in f.walk() if ts.assign_parts(f, y) and vid(ts.assign_parts(f, y)[0]) == B and f.nodes[y].get("op") == "="]
    ldefs = [y for y in f.walk() if ts.assign_parts(f, y) and vid(ts.assign_parts(f, y)[0]) == L and f.nodes[y].get("op") == "="]
    binit = [d["init"] for y in f.walk() if f.k(y) == "DeclStmt" for d in f.nodes[y]["decls"] if d.get("id") == B and d.get("init", -1) >= 0]
    linit = [d["init"] for y in f.walk() if f.k(y) == "DeclStmt" for d in f.nodes[y]["decls"] if d.get("id") == L and d.get("init", -1) >= 0]
    starts = [vid(x) for x in binit] + [vid(ts.assign_parts(f, y)[1]) for y in bdefs]
    ok_start = len(binit) == 1 and starts[0] == raw and all(s_ is not None for s_ in starts) and len(set(starts)) <= 2
    dec = [s_ for s_ in starts if s_ != raw]
    D = dec[0] if dec else None
    # pairing: where the view switches to the decoding buffer, the length switches to the decoded count in the same block
    paired = True
    N = None
    for y in bdefs:
        comp = next((a for a in f.ancestors(y) if f.k(a) == "CompoundStmt"), None)
        sib = [z for z in ldefs if comp is not None and comp == next((a for a in f.ancestors(z) if f.k(a) == "CompoundStmt"), None)]
        if len(sib) != 1 or vid(ts.assign_parts(f, sib[0])[1]) is None:
            paired = False
        else:
            N = vid(ts.assign_parts(f, sib[0])[1])
    def is_end_blank_trim(y):
        """`length--` under a test that the last character of the view (start[length-1]) is a blank: the property lets trailing blanks go"""
        if not (f.k(y) == "UnaryOperator" and f.nodes[y]["op"] == "--" and vid(f.nodes[y]["ch"][0]) == L):
            return False
        for a in f.ancestors(y):
            if f.k(a) in ("WhileStmt", "IfStmt", "ForStmt") and f.nodes[a].get("cond", -1) >= 0:
                for z in f.walk(f.nodes[a]["cond"]):
                    if f.k(z) == "BinaryOperator" and f.nodes[z]["op"] == "==" and f.nodes[f.strip(f.nodes[z]["ch"][1])].get("cv") == 32:
                        l_ = f.strip(f.nodes[z]["ch"][0])
                        if f.k(l_) == "ArraySubscriptExpr" and vid(f.nodes[l_]["ch"][0]) == B and \
                                f.alpha(f.nodes[l_]["ch"][1])[0].replace(" ", "") == "(v0-1)" and f.alpha(f.nodes[l_]["ch"][1])[1] == [L]:
                            return True
        return False
    others = [y for y in f.walk() if f.k(y) in ("UnaryOperator", "CompoundAssignOperator") and ts.assign_parts(f, y) and vid(ts.assign_parts(f, y)[0]) in (B, L)
              and not is_end_blank_trim(y)]
    C.ob("KM-2", "read_fits_core", "one-view", ok_start and paired and not others and len(ldefs) == len(bdefs), f.loc(i),
         "the view starts as (raw buffer, its length) and is switched as a pair to (decoding buffer, decoded count); neither half is adjusted alone: "
         "starts %s, paired %s, lone adjustments %d" % ([f.var_name(s_) if s_ else None for s_ in starts], paired, len(others)))
    # subscripts indexed through the length of the view use the view's start
    bad = []
    for x in f.walk():
        if f.k(x) != "ArraySubscriptExpr":
            continue
        if not any(f.k(y) == "DeclRefExpr" and f.nodes[y]["decl"]["id"] == L for y in f.walk(f.nodes[x]["ch"][1])):
            continue
        base = f.strip(f.nodes[x]["ch"][0])
        if vid(base) == B or (ts.root_member(f, base) and ts.root_member(f, base)[0] == "aux"):
            continue
        bad.append(x)
    C.ob("KM-2", "read_fits_core", "length-with-its-start", not bad, f.loc(bad[0]) if bad else f.loc(i),
         "every subscript indexed through the view's length is on the view's start pointer (or the terminator of the copy)" if not bad else
         "%s is indexed with the length of the view but is not its start pointer" % f.render(bad[0]))
    # the decoding loop
    okd = okq = oke = False
    detd = "no decoding buffer: quoted values are stored as they stand in the header"
    if D is not None and N is not None:
        stores = [y for y in f.walk() if ts.assign_parts(f, y) and f.k(f.strip(ts.assign_parts(f, y)[0])) == "ArraySubscriptExpr" and
                  vid(f.nodes[f.strip(ts.assign_parts(f, y)[0])]["ch"][0]) == D]
        loops = [a for y in stores for a in f.ancestors(y) if f.k(a) == "ForStmt"][:1]
        if len(stores) == 1 and loops:
            Lp = loops[0]
            st = stores[0]
            txt, order = f.alpha(st)
            # unquoted[n++] = value[k]
            shape = txt.replace(" ", "") == "(v0[(v1++)]=v2[v3])"
            cl = f.alpha(f.nodes[Lp]["cond"])
            ini = f.nodes[Lp].get("init", -1)
            iv = f.nodes[ini]["decls"][0] if ini >= 0 and f.k(ini) == "DeclStmt" else None
            kid = iv["id"] if iv else None
            from1 = iv is not None and iv.get("init", -1) >= 0 and f.nodes[f.strip(iv["init"])].get("cv") == 1
            endv = cl[1][1] if cl[0].replace(" ", "") == "(v0<v1)" and len(cl[1]) == 2 else None
            okd = shape and len(order) == 4 and order[0] == D and order[1] == N and order[2] == raw and order[3] == kid and from1 and endv is not None
            # the end excludes a closing quote: end starts as the raw length and is decremented under value[end-1] == quote
            eini = [d["init"] for y in f.walk() if f.k(y) == "DeclStmt" for d in f.nodes[y]["decls"] if d.get("id") == endv and d.get("init", -1) >= 0]
            edec = [y for y in f.walk() if f.k(y) == "UnaryOperator" and f.nodes[y]["op"] == "--" and vid(f.nodes[y]["ch"][0]) == endv]
            oke = len(eini) == 1 and vid(eini[0]) == L and len(edec) == 1
            if oke:
                g = [a for a in f.ancestors(edec[0]) if f.k(a) == "IfStmt"]
                ct = f.alpha(f.nodes[g[0]]["cond"])[0].replace(" ", "") if g else ""
                oke = ct == "((1<v0)&&(v1[(v0-1)]==39))" or ("[(v0-1)]==" in ct and "1<v0" in ct)
            # collapse: inside the loop, k++ under value[k]==quote && k+1<end && value[k+1]==quote
            skips = [y for y in f.walk(f.nodes[Lp]["body"]) if f.k(y) == "UnaryOperator" and f.nodes[y]["op"] == "++" and vid(f.nodes[y]["ch"][0]) == kid]
            if len(skips) == 1:
                g = [a for a in f.ancestors(skips[0]) if f.k(a) == "IfStmt" and a in set(f.walk(f.nodes[Lp]["body"]))]
                if len(g) == 1:
                    conn, leaves = core.cond_leaves(f, f.nodes[g[0]]["cond"])
                    ls = sorted(f.alpha(lf)[0].replace(" ", "") for lf in leaves)
                    ids = [f.alpha(lf)[1] for lf in leaves]
                    okq = conn == "&&" and ls == sorted(["(v0[v1]==39)", "((v0+1)<v1)", "(v0[(v1+1)]==39)"]) and \
                        all(set(x) <= {raw, kid, endv} for x in ids)
            nstart = [d["init"] for y in f.walk() if f.k(y) == "DeclStmt" for d in f.nodes[y]["decls"] if d.get("id") == N and d.get("init", -1) >= 0]
            okd = okd and len(nstart) == 1 and f.nodes[f.strip(nstart[0])].get("cv") == 0
            detd = "decoding loop: out[n++] = raw[k] for k = 1 .. end-1 (%s), end excludes the closing quote (%s), a doubled quote advances k once more (%s)" % (okd, oke, okq)
    C.ob("KM-2", "read_fits_core", "decoding-loop", okd, f.loc(i), detd)
    C.ob("KM-3", "read_fits_core", "enclosing-quotes-left-out", okd and oke, f.loc(i),
         "the opening quote is skipped (k starts at 1) and the closing one excluded from the range" if okd and oke else
         "the enclosing quotes of a FITS string value are not both left out")
    C.ob("KM-3", "read_fits_core", "doubled-quotes-collapsed", okq, f.loc(i),
         "inside the value, a quote followed by a quote is copied once" if okq else
         "doubled quotes inside a string value are copied as they stand: a value such as it's comes back as it''s (FITS escapes a quote by doubling it "
         "when fits_write_key writes a string, and fits_read_keyn returns the raw card value)")
    # nothing else is compared or removed: character comparisons on the raw buffer are with the quote only
    cmps = []
    for x in f.walk():
        if f.k(x) == "BinaryOperator" and f.nodes[x]["op"] in ("==", "!="):
            l = f.strip(f.nodes[x]["ch"][0])
            if f.k(l) == "ArraySubscriptExpr" and vid(f.nodes[l]["ch"][0]) is not None and vid(f.nodes[l]["ch"][0]) in (raw, B, D):
                cv = f.nodes[f.strip(f.nodes[x]["ch"][1])].get("cv")
                at_end = vid(f.nodes[l]["ch"][0]) == B and f.alpha(f.nodes[l]["ch"][1])[0].replace(" ", "") == "(v0-1)" and f.alpha(f.nodes[l]["ch"][1])[1] == [L]
                cmps.append(39 if (cv == 32 and at_end) else cv)      # a blank at the very end of the view may be examined (and dropped)
    C.ob("KM-3", "read_fits_core", "only-quotes-examined", bool(cmps) and all(c == 39 for c in cmps), f.loc(i),
         "characters of the value are compared with the quote only, or with the blank at the end of the view (%d comparisons)" % len(cmps))


def km4(P, C):
    C.rule("KM-4", "the key store keeps insertion order: remove_key copies the surviving entries in ascending source order into consecutive slots "
           "(one store new[k++] = aux[j] in a counting loop over all j, guarded by j != removed index), write_key copies slot j to slot j for "
           "every j and puts the new entry into the last slot; no routine swaps or moves entries inside the store; an overwrite replaces the value in the entry the search found", floor=5)
    for name in ("remove_key", "write_key"):
        fs_ = [g for g in P.fns(name) if g.unit == "driver" and "splinetable<" in g.qname]
        if not fs_:
            raise core.AnalysisBroken("KM-4: %s not found" % name)
        f = fs_[0]
        # entry moves inside the store: aux[a] = aux[b], swap(aux[..], ..)
        inplace = []
        for y in f.walk():
            ap = ts.assign_parts(f, y)
            if ap and ap[1] is not None:
                l, r = ts.root_member(f, ap[0]), ts.root_member(f, ap[1])
                if l and r and l[0] == "aux" and r[0] == "aux" and l[1] == 1 and r[1] == 1:
                    inplace.append(y)
            cal = f.nodes[y].get("callee")
            if cal and cal["name"] in ("swap", "iter_swap", "rotate", "reverse", "swap_ranges", "sort") and \
                    any(ts.root_member(f, a) and ts.root_member(f, a)[0] == "aux" for a in f.args(y)):
                inplace.append(y)
        C.ob("KM-4", name, "no-moves-inside-the-store", not inplace, f.loc(inplace[0]) if inplace else f.where(),
             "entries are never swapped or moved inside the store" if not inplace else "%s reorders entries of the store" % f.render(inplace[0])[:80])
        # stores of store entries into the replacement array
        moves = []
        for y in f.walk():
            ap = ts.assign_parts(f, y)
            if ap and ap[1] is not None and f.nodes[y].get("op") == "=":
                r = ts.root_member(f, ap[1])
                l = f.strip(ap[0])
                if r and r[0] == "aux" and r[1] == 1 and f.k(l) == "ArraySubscriptExpr" and ts.root_member(f, l) is None:
                    moves.append(y)
        bulk = [y for y, cal in f.calls() if cal and cal["name"] in ("copy", "copy_n", "move", "copy_backward", "memcpy", "memmove") and f.args(y) and
                ts.root_member(f, f.args(y)[0]) and ts.root_member(f, f.args(y)[0])[0] == "aux" and ts.root_member(f, f.args(y)[0])[1] == 0]
        ok = False
        det = "%d element copies, %d bulk copies of the store" % (len(moves), len(bulk))
        if len(moves) == 1 and not bulk:
            y = moves[0]
            txt, order = f.alpha(y)
            txt = txt.replace(" ", "")
            from . import gw
            L = next((a for a in f.ancestors(y) if f.k(a) == "ForStmt"), None)
            if name == "remove_key":
                g = [a for a in f.ancestors(y) if f.k(a) == "IfStmt"]
                ct = f.alpha(f.nodes[g[0]]["cond"]) if g else ("", [])
                # new[k++] = aux[j] under (j != i), j over 0..naux
                cl = uw_canonical(f, L)
                ok = txt == "(v0[(v1++)]=aux[v2])" and len(g) == 1 and ct[0].replace(" ", "") == "(v0!=v1)" and ct[1][0] == order[2] and \
                    cl is not None and cl[0] == order[2] and cl[1] == "naux" and counter_starts_at_zero(f, order[1])
                det = "new[k++] = aux[j] for j = 0..naux-1, j != removed index: %s" % ok
            else:
                cl = uw_canonical(f, L)
                ok = txt == "(v0[v1]=aux[v1])" and cl is not None and cl[0] == order[1] and cl[1] == "naux" and not [a for a in f.ancestors(y) if f.k(a) == "IfStmt" and L in set(f.ancestors(a))]
                last = [z for z in f.walk() if ts.assign_parts(f, z) and f.alpha(z)[0].replace(" ", "") == "(v0[naux]=v1)" and f.alpha(z)[1][0] == order[0]]
                ok = ok and len(last) == 1
                det = "new[j] = aux[j] for every j, new entry into slot naux: %s" % ok
        if not moves and bulk and name == "remove_key":
            # the bulk form: the entries before the removed one go to the same slots, the ones after it one slot down —
            # copy(aux, aux+i, new) and copy(aux+i+1, aux+naux, new+i) with one index variable i and one target array
            sig = sorted((f.alpha(y)[0].replace(" ", ""), tuple(f.alpha(y)[1])) for y in bulk)
            want = sorted(["copy(((aux+v0)+1),(aux+naux),(v1+v0))", "copy(aux,(aux+v0),v1)"])
            ok = len(bulk) == 2 and [t for t, _ in sig] == want and sig[0][1] == sig[1][1]
            det = "two bulk copies: [0, i) to the same slots and (i, naux) one slot down, same index and target: %s" % ok
        elif not moves and bulk and name == "write_key":
            sig = [(f.alpha(y)[0].replace(" ", ""), f.alpha(y)[1]) for y in bulk]
            ok = len(bulk) == 1 and sig[0][0] == "copy(aux,(aux+naux),v0)"
            last = [z for z in f.walk() if ts.assign_parts(f, z) and f.alpha(z)[0].replace(" ", "") == "(v0[naux]=v1)" and ok and f.alpha(z)[1][0] == sig[0][1][0]]
            ok = ok and len(last) == 1
            det = "one bulk copy of all entries to the same slots, new entry into slot naux: %s" % ok
        C.ob("KM-4", name, "order-preserving-copy", ok, f.loc(moves[0]) if moves else f.where(), det)
        if name == "write_key":
            # an overwrite keeps the key where it is: the new value goes into the value slot of the entry the search found, under the
            # test that the search found one, and write_key hands the store to no other member that restructures it (removing the key
            # and appending it again moves it to the end — and loses it when the append fails)
            others = [y for y, cal in f.calls() if cal and cal.get("cls") and cal.get("cls") == f.cls and not cal.get("isConst", False) and
                      not cal.get("isStatic") and cal.get("mkind") not in ("ctor",) and cal.get("name") not in ("allocate", "deallocate")]
            slot = []
            for y in f.walk():
                ap = ts.assign_parts(f, y)
                if not ap or ap[1] is None or f.nodes[y].get("op") != "=":
                    continue
                t_, o_ = f.alpha(y)
                if t_.replace(" ", "") == "(aux[v0][1]=v1)":
                    g = [a_ for a_ in f.ancestors(y) if f.k(a_) == "IfStmt"]
                    found = any(f.alpha(f.nodes[a_]["cond"])[0].replace(" ", "") in ("(v0!=naux)", "(v0<naux)", "(naux!=v0)") and
                                f.alpha(f.nodes[a_]["cond"])[1][:1] == o_[:1] and f.nodes[a_]["then"] in [y] + list(f.ancestors(y)) for a_ in g)
                    if found:
                        slot.append(y)
            ok2 = not others and len(slot) == 1
            C.ob("KM-4", name, "overwrite-keeps-position", ok2, f.loc(others[0]) if others else (f.loc(slot[0]) if slot else f.where()),
                 "the value of an existing key is replaced in its entry (aux[i][1] = new value under `i != naux`: %d store(s)); members that "
                 "restructure the store called from write_key: %s" % (len(slot), [f.nodes[y]["callee"]["name"] for y in others] or "none"))


def uw_canonical(f, L):
    from . import uw
    if L is None:
        return None
    cl = uw.canonical_loop(f, L)
    if cl is None:
        # for (T j=0, k=0; ...): two declarations in the init
        n = f.nodes[L]
        ini = f.nodes[n["init"]] if n.get("init", -1) >= 0 else None
        if ini and ini["k"] == "DeclStmt" and len(ini["decls"]) == 2:
            c = f.nodes[f.strip(n["cond"])]
            inc = f.nodes[f.strip(n["inc"])]
            if c["k"] == "BinaryOperator" and c["op"] == "<" and inc["k"] == "UnaryOperator" and inc["op"] == "++":
                v = f.strip(c["ch"][0])
                iv = f.strip(inc["ch"][0])
                if f.k(v) == "DeclRefExpr" and f.k(iv) == "DeclRefExpr" and f.nodes[v]["decl"]["id"] == f.nodes[iv]["decl"]["id"] and \
                        f.nodes[v]["decl"]["id"] in [d["id"] for d in ini["decls"]]:
                    d0 = [d for d in ini["decls"] if d["id"] == f.nodes[v]["decl"]["id"]][0]
                    if d0.get("init", -1) >= 0 and f.nodes[f.strip(d0["init"])].get("cv") == 0:
                        return f.nodes[v]["decl"]["id"], f.render(c["ch"][1]).replace("this->", "").replace(" ", "")
    return cl


def counter_starts_at_zero(f, vid):
    for y in f.walk():
        if f.k(y) == "DeclStmt":
            for d in f.nodes[y]["decls"]:
                if d.get("id") == vid:
                    return d.get("init", -1) >= 0 and f.nodes[f.strip(d["init"])].get("cv") == 0
    return False


def run(P, C):
    api1(P, C)
    ks1(P, C)
    ks2(P, C)
    ks4(P, C)
    ks5(P, C)
    km1(P, C)
    km2(P, C)
    km4(P, C)
    ts1w(P, C)
    fs4(P, C)
    fs5(P, C)
    fs5b(P, C)
    uw3(P, C)


def ks4(P, C):
    """KS-4: only printable ASCII goes into a card."""
    C.rule("KS-4", "write_key refuses, by a throwing guard inside a loop over the whole string, every key and every value that contains a "
           "character outside printable ASCII (below 0x20 or above 0x7e): a FITS card holds nothing else and cfitsio writes a blank in its "
           "place, so the entry would come back under another key or with another value. For short keys the stricter upper-case/digit test "
           "stands in", floor=6)
    for f in [g for g in P.fns("write_key") if g.cls == ts.CLS and g.unit == "driver"]:
        name = ts.fshort(f)
        key = f.params[0]["id"]
        vid = None
        for i in f.walk():
            if f.k(i) == "DeclStmt":
                for d in f.nodes[i]["decls"]:
                    if d.get("dk") == "Var" and d.get("init", -1) >= 0 and any(cal and cal["name"] == "str" for _x, cal in f.calls(d["init"])):
                        vid = d["id"]
        if vid is None:
            raise core.AnalysisBroken("KS-4: the local holding the formatted value (… = ss.str()) was not found in %s" % name)
        range_vars = {}
        for L in f.walk():
            if f.k(L) == "CXXForRangeStmt":
                ri = f.nodes[L].get("rangeInit", -1)
                if ri >= 0 and any(f.k(x) == "DeclRefExpr" and f.nodes[x]["decl"].get("id") == vid for x in f.walk(ri)):
                    lv = f.nodes[L].get("loopVarStmt", -1)
                    if lv >= 0:
                        for d in f.nodes[lv]["decls"]:
                            range_vars[d["id"]] = L

        def subject(x):
            x = f.strip(x)
            # integral promotions / casts to unsigned char in front of the character
            while f.k(x) in ("CStyleCastExpr", "CXXStaticCastExpr", "CXXFunctionalCastExpr") and f.ch(x):
                x = f.strip(f.ch(x)[0])
            if f.k(x) == "ArraySubscriptExpr":
                b = f.strip(f.nodes[x]["ch"][0])
                if f.k(b) == "DeclRefExpr" and f.nodes[b]["decl"].get("id") == key and f.nodes[b]["decl"].get("kind") == "ParmVar":
                    return "key"
            if f.k(x) == "DeclRefExpr" and f.nodes[x]["decl"].get("id") in range_vars:
                return "value"
            if f.k(x) == "CXXOperatorCallExpr" and f.nodes[x].get("opcall") == "[]":
                b = f.strip(f.nodes[x]["ch"][1])
                if f.k(b) == "DeclRefExpr" and f.nodes[b]["decl"].get("id") == vid:
                    return "value"
            return None
        found = {}
        for g in vg.guards_of(f):
            conn, ls = core.cond_leaves(f, f.nodes[g["node"]]["cond"])
            if conn not in ("||", "leaf"):
                continue
            if not any(f.k(a) in ("ForStmt", "CXXForRangeStmt", "WhileStmt") for a in f.ancestors(g["node"])):
                continue
            # enclosing branches: only the else-arm of the short-key test (whose then-arm applies the upper-case/digit test)
            ok_branch = True
            for a in f.ancestors(g["node"]):
                if f.k(a) == "IfStmt":
                    th, el = f.nodes[a].get("then", -1), f.nodes[a].get("else", -1)
                    in_else = el >= 0 and g["node"] in set(f.walk(el))
                    strict = th >= 0 and any(cal and cal["name"] in ("isupper",) for _x, cal in f.calls(th))
                    if not (in_else and strict):
                        ok_branch = False
            if not ok_branch:
                continue
            for lf in ls:
                c, neg = core.cond_polarity(f, lf)
                n = f.nodes[c]
                cal = n.get("callee")
                if cal and cal["name"] in ("isprint",) and neg:
                    s_ = subject(f.args(c)[0]) if f.args(c) else None
                    if s_:
                        found[(s_, "lower")] = found[(s_, "upper")] = g["node"]
                    continue
                if neg or n["k"] != "BinaryOperator" or n["op"] not in ("<", "<="):
                    continue
                a, b = n["ch"]
                cva, cvb = f.nodes[f.strip(a)].get("cv"), f.nodes[f.strip(b)].get("cv")
                if cvb is not None and subject(a):          # X < 32, X <= 31
                    if (n["op"] == "<" and cvb == 32) or (n["op"] == "<=" and cvb == 31):
                        found[(subject(a), "lower")] = g["node"]
                if cva is not None and subject(b):          # 126 < X, 127 <= X
                    if (n["op"] == "<" and cva == 126) or (n["op"] == "<=" and cva == 127):
                        found[(subject(b), "upper")] = g["node"]
        for s_ in ("key", "value"):
            for side, what in (("lower", "below 0x20 (control characters; bytes above 0x7f where char is signed)"), ("upper", "above 0x7e (DEL and beyond)")):
                gn = found.get((s_, side))
                C.ob("KS-4", name, "rejects:%s-character-%s" % (s_, "below-0x20" if side == "lower" else "above-0x7e"), gn is not None,
                     f.loc(gn) if gn is not None else f.where(),
                     "a throwing guard in a loop over the %s refuses characters %s" % (s_, what) if gn is not None else
                     "no throwing guard refuses a %s character %s: cfitsio stores a blank in its place and the entry comes back altered" % (s_, what))


def ks5(P, C):
    """KS-5: the reserved-name test applies to every key."""
    C.rule("KS-5", "write_key refuses a reserved name whatever the key's length: the throwing guard on reservedFitsKeyword(key) is not nested in any "
           "branch (in particular not in the short-key branch) and precedes every effect. The reader drops every card the same predicate "
           "matches — by prefix for the indexed families — so a long key such as `ORDERING SCHEME`, accepted and written as a HIERARCH card, is "
           "silently lost when the file is read back", floor=3)
    for f in [g for g in P.fns("write_key") if g.cls == ts.CLS and g.unit == "driver"]:
        name = ts.fshort(f)
        key = f.params[0]["id"]
        gs = [g for g in vg.guards_of(f) if any(cal and cal["name"] == "reservedFitsKeyword" and
                                                any(f.k(y) == "DeclRefExpr" and f.nodes[y]["decl"].get("id") == key for a in f.args(x) for y in f.walk(a))
                                                for x, cal in f.calls(f.nodes[g["node"]]["cond"]))]
        ok, det, where = False, "no throwing guard on reservedFitsKeyword(key)", f.where()
        if gs:
            g = gs[0]
            where = f.loc(g["node"])
            nest = [a for a in f.ancestors(g["node"]) if f.k(a) in ("IfStmt", "SwitchStmt", "ForStmt", "WhileStmt", "DoStmt", "ConditionalOperator", "CXXTryStmt")]
            conn, leaves = core.cond_leaves(f, f.nodes[g["node"]]["cond"])
            alone = conn in ("leaf", "||")
            ok = not nest and alone
            det = "if(reservedFitsKeyword(key)) throw, at the top level of the function" if ok else \
                ("the reserved-name test is nested in `%s`: keys outside that branch are never tested" % f.render(f.nodes[nest[0]].get("cond", nest[0]))[:80] if nest else
                 "the reserved-name test is combined with other conditions (%s): it does not reject every reserved name" % f.render(f.nodes[g["node"]]["cond"])[:80])
        C.ob("KS-5", name, "reserved-test-unconditional", ok, where, det)


def km5(P, C):
    """KM-5: a stored key or value is never modified in place."""
    C.rule("KM-5", "the key operations treat a stored key or value as immutable: in write_key and remove_key no character of `aux[i][k][..]` is "
           "stored to, and no pointer to those characters is handed to a routine as a mutable `char*` (string::copy, strcpy, memcpy, an "
           "algorithm's destination) — a value changes by installing a newly allocated, terminated string and releasing the old one. Writing "
           "a shorter value into the old storage leaves the tail of the old value (no terminator is written), and every release passes "
           "strlen()+1 of what is stored", floor=4)
    n = 0
    for f in [g for g in P.functions.values() if g.cls == ts.CLS and g.unit == "driver" and g.name in ("write_key", "remove_key")]:
        name = ts.fshort(f)
        bad = []
        for i in f.walk():
            ap = ts.assign_parts(f, i)
            if ap:
                r = ts.root_member(f, ap[0])
                if r and r[0] == "aux" and r[1] >= 3:
                    bad.append((i, "store"))
                continue
            cal = f.nodes[i].get("callee")
            if not cal or cal["name"] in ("deallocate",):
                continue
            for a in f.args(i):
                r = ts.root_member(f, a)
                if not r or r[0] != "aux" or r[1] < 2:
                    continue
                # how the callee takes it: the type of the argument after the implicit conversions applied at the call
                t = f.nodes[a].get("t", "") if f.k(a) in ("ImplicitCastExpr",) else f.nodes[f.strip(a, casts=False)].get("t", "")
                if "char" in t and "const char" not in t:
                    bad.append((i, "%s receives the stored string as `%s`" % (cal["name"], t)))
            if f.k(i) == "CXXMemberCallExpr" and cal["name"] in ("copy",):
                for a in f.args(i)[:1]:
                    r = ts.root_member(f, a)
                    if r and r[0] == "aux" and r[1] >= 2:
                        bad.append((i, "std::string::copy writes into the stored string"))
        n += 1
        C.ob("KM-5", name, "stored-strings-immutable", not bad, f.loc(bad[0][0]) if bad else f.where(),
             "no key operation writes into a stored key or value" if not bad else
             "%s: %s — the stored string is modified in place; a shorter value keeps the tail of the old one" % (f.render(bad[0][0])[:80], bad[0][1]))
    if n == 0:
        raise core.AnalysisBroken("KM-5: write_key / remove_key not found")


def km6(P, C):
    """KM-6: the string read returns the stored value as it is."""
    C.rule("KM-6", "`read_key(key, std::string&)` hands back exactly what `get_aux_value(key)` points at: its result parameter is written once — "
           "assigned from that pointer — and nothing else touches it (no erase / resize / trim, no algorithm over it). The two lookups of one "
           "key agree, and a value that ends in blanks is a value", floor=1)
    fs_ = [g for g in P.fns("read_key") if g.cls == ts.CLS and g.unit == "driver" and len(g.params) == 2 and "string" in g.params[1].get("type", "") and not g.targs]
    if not fs_:
        raise core.AnalysisBroken("KM-6: the string overload of read_key was not found")
    f = fs_[0]
    rid = f.params[1]["id"]
    src = None
    for i in f.walk():
        if f.k(i) == "DeclStmt":
            for d in f.nodes[i]["decls"]:
                if d.get("init", -1) >= 0 and (f.nodes[f.strip(d["init"])].get("callee") or {}).get("name") == "get_aux_value":
                    src = d["id"]
    touches = []
    for i in f.walk():
        n = f.nodes[i]
        if n["k"] in ("CXXOperatorCallExpr", "CXXMemberCallExpr", "CallExpr") or ts.assign_parts(f, i):
            if n["k"] == "CXXMemberCallExpr":
                me = f.strip(n["ch"][0])
                o = f.strip(f.ch(me)[0]) if f.ch(me) else -1
                if o >= 0 and f.k(o) == "DeclRefExpr" and f.nodes[o]["decl"].get("id") == rid:
                    cname = (n.get("callee") or {}).get("name", "")
                    if cname not in ("size", "length", "empty", "c_str", "data", "begin", "end", "find", "find_last_not_of", "find_first_not_of", "back", "front", "at", "compare"):
                        touches.append((i, "member call %s" % cname))
                    continue
            ap = ts.assign_parts(f, i)
            if ap and f.k(f.strip(ap[0])) == "DeclRefExpr" and f.nodes[f.strip(ap[0])]["decl"].get("id") == rid:
                from_src = ap[1] is not None and any(f.k(y) == "DeclRefExpr" and f.nodes[y]["decl"].get("id") == src for y in f.walk(ap[1])) and \
                    not any("callee" in f.nodes[y] and (f.nodes[y]["callee"] or {}).get("name") not in ("operator=", "basic_string") for y in f.walk(ap[1]))
                touches.append((i, "assign-from-stored" if from_src else "assignment from something else"))
                continue
            if n["k"] == "CallExpr":
                for a in f.args(i):
                    if any(f.k(y) == "DeclRefExpr" and f.nodes[y]["decl"].get("id") == rid for y in f.walk(a)):
                        touches.append((i, "passed to %s" % (n.get("callee") or {}).get("name")))
    good = [t for t in touches if t[1] == "assign-from-stored"]
    bad = [t for t in touches if t[1] != "assign-from-stored"]
    ok = len(good) == 1 and not bad and src is not None
    C.ob("KM-6", "read_key(std::string)", "stored-value-returned-as-is", ok, f.loc(bad[0][0]) if bad else f.where(),
         "the result is assigned once, from the pointer get_aux_value returned" if ok else
         "the string handed back is not the stored value as it is: %s" % (", ".join("%s at %s" % (t[1], f.loc(t[0])) for t in bad) or "no assignment from the stored value"))


def km7(P, C):
    """KM-7: release sizes of the key store."""
    C.rule("KM-7", "every release of a stored key or value passes `strlen(<that string>) + 1` — the size it was obtained with (TS-4c) — in clear(), "
           "remove_key and the overwrite path of write_key; an entry (a pair of pointers) is released with 2; and the key array that write_key "
           "installs is obtained with exactly the count `naux` takes when it is installed (`allocate(naux + 1)` with one `naux++`, the old "
           "array released with the old count)", floor=8)
    n = 0
    for f in sorted(P.functions.values(), key=lambda g: (g.name, str(g.targs))):
        if f.unit != "driver" or f.cls != ts.CLS or f.name not in ("clear", "remove_key", "write_key"):
            continue
        name = ts.fshort(f)
        at = vg.atomizer(f, ())
        for i, cal in f.calls():
            if not cal or cal["name"] != "deallocate":
                continue
            a = f.args(i)
            r = ts.root_member(f, a[0])
            if not r or r[0] != "aux":
                continue
            t0 = core.atom_text(f, a[0])
            if r[1] == 2:           # a key or value string
                want = "strlen((&%s[0]))" % t0
                got = f.render(a[1]).replace("this->", "").replace(" ", "")
                ok = got in ("(%s+1)" % want, "(1+%s)" % want, "(strlen(&%s[0])+1)" % t0)
                n += 1
                C.ob("KM-7", name, "string-release-size@%s" % t0[-14:], ok, f.loc(i),
                     "released with strlen + 1" if ok else "%s is released with `%s`, not with the strlen()+1 it was obtained with" % (t0, f.render(a[1])[:60]))
            elif r[1] == 0:         # the key array itself
                # it exists whenever the pointer is non-null — the reader installs an array of zero entries for a file without keys — so
                # the only test its release may depend on is a null test of the pointer (a test of the count abandons that array)
                guards = [g for g in f.ancestors(i) if f.k(g) == "IfStmt" and f.nodes[g].get("then") in [i] + list(f.ancestors(i))]
                texts = [f.render(f.nodes[g]["cond"]).replace("this->", "").replace(" ", "") for g in guards]
                NULLTESTS = ("aux", "(aux!=nullptr)", "(aux!=0)", "(aux!=NULL)", "(nullptr!=aux)", "(aux!=__null)")
                bad_g = [t for t in texts if t not in NULLTESTS]
                size_ok = core.atom_text(f, a[1]) == "naux"
                n += 1
                C.ob("KM-7", name, "key-array-release", size_ok and not bad_g, f.loc(i),
                     "the key array is released with naux entries, under no test other than a null test of the pointer" if size_ok and not bad_g else
                     "the release of the key array depends on `%s` (size argument `%s`): an array of zero entries — what the reader installs for a "
                     "file without keys — is never returned to the allocator" % (", ".join(bad_g) or "-", f.render(a[1])))
            elif r[1] == 1:         # an entry
                ok = f.nodes[f.strip(a[1])].get("cv", f.nodes[f.strip(a[1])].get("v")) == 2
                n += 1
                C.ob("KM-7", name, "entry-release-size@%s" % t0[-10:], ok, f.loc(i), "an entry is released as 2 pointers: %s" % f.render(a[1]))
        if f.name == "write_key":
            # the append path: new array obtained with naux + 1
            news = [i for i, cal in f.calls() if cal and cal["name"] == "allocate" and "char **" in (f.nodes[i].get("t", "") + str(cal.get("targs", ""))) or
                    (cal and cal["name"] == "allocate" and f.parent[i] >= 0 and "new_aux" in f.render(f.parent[f.parent[i]] if f.parent[f.parent[i]] >= 0 else f.parent[i])[:40])]
            arr = [i for i in news if core.poly(f, f.args(i)[0], at) == Poly.atom("naux") + Poly.const(1)]
            incs = [x for x in f.walk() if f.k(x) == "UnaryOperator" and f.nodes[x].get("op") == "++" and core.atom_text(f, f.nodes[x]["ch"][0]) == "naux"]
            n += 1
            C.ob("KM-7", name, "key-array-count", bool(arr) and len(incs) == 1, f.loc(arr[0]) if arr else f.where(),
                 "the new key array has naux + 1 entries and naux is incremented once" if arr and len(incs) == 1 else
                 "the key array installed by the append path is not obtained with exactly naux + 1 entries (allocations seen: %s; increments of naux: %d): "
                 "it is later released with naux" % ([f.render(f.args(i)[0]) for i in news][:3], len(incs)))
    if n < 11:
        raise core.AnalysisBroken("KM-7: expected the releases of clear(), remove_key and write_key, found %d" % n)
