"""VG — required validation guards (serves C13 and C07).

A guard is an `if` whose taken branch throws.  Its condition is reduced to a
set of canonical relations over resolved entities (parameters by position,
members by field name, loop indices abstracted), so that `a < 2*b+2`,
`2*b+2 > a`, `!(a >= 2*b+2)` and `a <= 2*b+1` are the same guard.
"""
import re

from .. import core
from ..core import Poly
from . import ts


def atomizer(f, index_vars=()):
    pidx = {p["id"]: k for k, p in enumerate(f.params)}

    def atomize(ff, j):
        n = ff.nodes[j]
        k = n["k"]
        if k == "ConditionalOperator":
            # a selection written out where a local used to name it (`porder` = one entry broadcast, or one per dimension): the same atom
            # as the local's single definition gives
            s = _render_norm(ff, j, pidx)
            for v in index_vars:
                s = re.sub(r"\[%s\]" % re.escape(v), "[#]", s)
            return "{%s}" % s.replace(" ", "")
        if k in ("MemberExpr", "ArraySubscriptExpr", "DeclRefExpr", "CXXMemberCallExpr", "CXXOperatorCallExpr", "CallExpr"):
            if k == "DeclRefExpr" and n["decl"]["kind"] == "EnumConstant":
                return None
            if k == "DeclRefExpr" and n["decl"]["kind"] == "Var" and "cv" in n and n["decl"]["name"] not in index_vars:
                return None
            if k == "DeclRefExpr" and n["decl"]["kind"] == "Var" and n["decl"]["name"] not in index_vars:
                # a local with a single initialising definition and no later assignment stands for that definition (name-independent)
                d = _single_def(ff, n["decl"]["id"])
                if d is not None:
                    s = _render_norm(ff, d, pidx)
                    for v in index_vars:
                        s = re.sub(r"\[%s\]" % re.escape(v), "[#]", s)
                    return "{%s}" % s.replace(" ", "")
            if k in ("CXXOperatorCallExpr",) and n.get("opcall") not in ("[]", "()"):
                return None
            s = _render_norm(ff, j, pidx)
            for v in index_vars:
                s = re.sub(r"\[%s\]" % re.escape(v), "[#]", s)
            return s
        return None
    return atomize


def _single_def(f, vid):
    init = None
    for i in f.walk():
        if f.k(i) == "DeclStmt":
            for d in f.nodes[i]["decls"]:
                if d.get("id") == vid and d.get("init", -1) >= 0:
                    init = d["init"]
        ap = ts.assign_parts(f, i)
        if ap:
            l = f.strip(ap[0])
            if f.k(l) == "DeclRefExpr" and f.nodes[l]["decl"].get("id") == vid:
                return None
    if init is None:
        return None
    # only definitions that are more than a constant or another plain variable
    j = f.strip(init)
    if f.k(j) in ("IntegerLiteral", "DeclRefExpr", "CXXBoolLiteralExpr", "FloatingLiteral"):
        return None
    return init


def _render_norm(f, j, pidx):
    """render with parameters replaced by $position and this-> dropped"""
    s = f.render(j)
    for pid, k in pidx.items():
        nm = f.params[k]["name"]
        if nm:
            s = re.sub(r"(?<![\w$.>])%s(?![\w])" % re.escape(nm), "$%d" % k, s)
    s = s.replace("this->", "")
    return s


def guards_of(f, index_hint=("i", "j", "dim", "n")):
    """all throwing guards of f: list of dict(node, conn, leaves:[(Poly,rel)|('call',text)], loop, text)."""
    out = []
    for i in f.walk():
        if f.k(i) != "IfStmt" or not core.then_throws(f, i):
            continue
        cond = f.nodes[i]["cond"]
        conn, leaves = core.cond_leaves(f, cond)
        loops = [a for a in f.ancestors(i) if f.k(a) == "ForStmt"]
        ivars = []
        for L in loops:
            init = f.nodes[L].get("init", -1)
            if init >= 0 and f.k(init) == "DeclStmt":
                ivars += [d["name"] for d in f.nodes[init]["decls"] if d.get("dk") == "Var"]
            elif init >= 0:
                ap = ts.assign_parts(f, f.strip(init))
                if ap and f.k(f.strip(ap[0])) == "DeclRefExpr":
                    ivars.append(f.nodes[f.strip(ap[0])]["decl"]["name"])
        at = atomizer(f, tuple(ivars))
        canon = []
        for lf in leaves:
            rc = core.rel_canon(f, lf, at)
            if rc is not None:
                canon.append(rc)
            else:
                c, neg = core.cond_polarity(f, lf)
                pidx = {p["id"]: k for k, p in enumerate(f.params)}
                s = _render_norm(f, c, pidx)
                for v in ivars:
                    s = re.sub(r"\[%s\]" % re.escape(v), "[#]", s)
                canon.append(("call", ("!" if neg else "") + s))
        out.append(dict(node=i, conn=conn, leaves=canon, loops=loops, ivars=ivars, text=f.render(cond)))
    return out


def P_(s):
    """tiny parser for required forms: 'a - 2*b - 2' with atoms separated by top-level + / - (text inside {...} is one atom)."""
    p = Poly()
    s = s.replace(" ", "")
    terms = []
    cur = ""
    depth = 0
    for ch in s:
        if ch in "{([":
            depth += 1
        elif ch in "})]":
            depth -= 1
        if ch in "+-" and depth == 0 and cur:
            terms.append(cur)
            cur = ch
        else:
            cur += ch
    if cur:
        terms.append(cur)
    for t in terms:
        sign = -1 if t.startswith("-") else 1
        t = t.lstrip("+-")
        m = re.match(r"(\d+)\*(.+)$", t)
        c = sign
        atom = t
        if m:
            c = sign * int(m.group(1))
            atom = m.group(2)
        if re.fullmatch(r"\d+", atom):
            p = p + Poly.const(c * int(atom))
        else:
            p = p + Poly({(atom,): c})
    return p


def full_range_loop(f, L, bound_atoms):
    """ForStmt L runs its index from 0 while < one of bound_atoms, incrementing by one."""
    n = f.nodes[L]
    pidx = {p["id"]: k for k, p in enumerate(f.params)}
    init = _render_norm(f, n["init"], pidx) if n.get("init", -1) >= 0 else ""
    cond = _render_norm(f, n["cond"], pidx) if n.get("cond", -1) >= 0 else ""
    inc = f.render(n["inc"]) if n.get("inc", -1) >= 0 else ""
    ok_init = bool(re.search(r"=\s*0\)?$", init.strip()))
    m = re.match(r"\((\w+) < (.+)\)$", cond)
    ok_cond = bool(m) and m.group(2) in bound_atoms
    ok_inc = inc.replace(" ", "") in ("(%s++)" % (m.group(1) if m else "?"), "(++%s)" % (m.group(1) if m else "?"))
    return ok_init and ok_cond and ok_inc, "%s; %s; %s" % (init, cond, inc)


NAMED_CONSTANTS = {"no_monodim": 4294967295}        # splinetable::no_monodim = PHOTOSPLINE_GLAM_NO_MONODIM = (uint32_t)-1: the name and the value are one thing


def _named_constants(leaf):
    if isinstance(leaf[0], Poly) and any(a in NAMED_CONSTANTS for a in leaf[0].atoms()):
        p = leaf[0].subst({a: Poly.const(v) for a, v in NAMED_CONSTANTS.items()})
        return (core.eq_norm(p) if leaf[1] in ("==0", "!=0") else p, leaf[1])
    return leaf


def match_guard(gs, conn, wanted):
    """find a guard whose leaf set equals `wanted` (list of (Poly,rel) / ('call',text))."""
    wanted = [_named_constants(w) for w in wanted]
    for g in gs:
        if len(g["leaves"]) != len(wanted):
            continue
        if len(wanted) > 1 and g["conn"] != conn:
            continue
        rest = [_named_constants(l) for l in g["leaves"]]
        ok = True
        for w in wanted:
            if isinstance(w[0], Poly) and w[1] in ("==0", "!=0"):
                w = (core.eq_norm(w[0]), w[1])
            if w in rest:
                rest.remove(w)
            else:
                ok = False
                break
        if ok:
            return g
    return None


# ---------------------------------------------------------------- VG-1: fit
# parameters of fit by position: $0 data, $1 weights, $2 coords, $3 splineOrder, $4 knots, $5 smoothing, $6 penaltyOrder, $7 monodim
FIT_OBLIGATIONS = [
    # id, hazard, connective, leaves, per-dimension loop bound atoms (or None)
    ("weights-count", "weights.data() is read for data.rows entries", "leaf",
     [(P_("$0.rows - $1.size()"), "!=0")], None),
    ("coords-count", "coords[i] indexed up to data.ndim", "leaf", [(P_("$2.size() - $0.ndim"), "!=0")], None),
    ("orders-count", "splineOrder[i] indexed up to data.ndim", "leaf", [(P_("$3.size() - $0.ndim"), "!=0")], None),
    ("knots-count", "knots[i] indexed up to data.ndim", "leaf", [(P_("$4.size() - $0.ndim"), "!=0")], None),
    ("smoothing-count", "smoothing[i] / smoothing[0]", "&&",
     [(P_("$5.size() - $0.ndim"), "!=0"), (P_("$5.size() - 1"), "!=0")], None),
    ("penalty-count", "penaltyOrder[i] / penaltyOrder[0]", "&&",
     [(P_("$6.size() - $0.ndim"), "!=0"), (P_("$6.size() - 1"), "!=0")], None),
    ("index-range", "data.i[i][.] must be below data.ranges[i] (basis matrix rows)", "leaf",
     [(P_("$0.ranges[#] - {(*max_element($0.i[#],($0.i[#]+$0.rows)))} - 1"), "<0")], ("$0.ndim",)),
    ("coords-length", "bsplinebasis reads data.ranges[i] abscissae from coords[i]", "leaf",
     [(P_("$2[#].size() - $0.ranges[#]"), "<0")], ("$0.ndim",)),
    ("knots-vs-order", "naxes = nknots-order-1 is unsigned and sizes every array; evaluation needs 2*order+2 knots", "leaf",
     [(P_("$4[#].size() - 2*$3[#] - 2"), "<0")], ("$0.ndim",)),
    ("knots-sorted", "knot vectors must be non-decreasing", "leaf",
     [("call", "!is_sorted($4[#].begin(), $4[#].end())")], ("$0.ndim",)),
    ("monodim-range", "monodim indexes the dimensions", "&&",
     [(P_("$7 - no_monodim"), "!=0"), (P_("$0.ndim - $7 - 1"), "<0")], None),
    ("penalty-vs-order", "divided_diffs: order-sized stack arrays indexed by the penalty order, division by order-(porder-1)", "leaf",
     [(P_("$3[#] - {((1<$6.size())?$6[#]:$6[0])}"), "<0")], ("$0.ndim",)),
    ("non-empty", "max_element of an empty range / strides[ndim-1]", "||",
     [(P_("$0.ndim"), "==0"), (P_("$0.rows"), "==0")], None),
]


def vg1(P, C):
    C.rule("VG-1", "fit: every hazardous use of an argument is dominated by a throwing guard whose condition is (a canonical equivalent of) "
           "the required relation, per-dimension guards run over the full range of dimensions, and every guard precedes the first store "
           "to a member", floor=2 * len(FIT_OBLIGATIONS))
    fits = [f for f in P.fns("fit") if f.cls == ts.CLS and f.unit == "driver"]
    if len(fits) < 2:
        raise core.AnalysisBroken("fit: expected two instantiations in the driver unit, found %d" % len(fits))
    for f in fits:
        name = ts.fshort(f)
        gs = guards_of(f)
        # first member store
        pos = f.node_positions()
        dom = f.dominators()
        first_store = None
        for b in sorted(f.reachable_blocks(), reverse=True):
            pass
        stores = [i for i in f.walk() if ts.assign_parts(f, i) and ts.root_member(f, ts.assign_parts(f, i)[0]) and i in pos]
        # the earliest store in dominance order: one that dominates all others
        first_store = None
        for s in stores:
            if all(pos[s][0] in dom[pos[t][0]] and (pos[s][0] != pos[t][0] or pos[s][1] <= pos[t][1]) for t in stores):
                first_store = s
        if first_store is None:
            raise core.AnalysisBroken("fit: no dominating first member store found")
        fb = pos[first_store][0]
        for (oid, hazard, conn, leaves, bound) in FIT_OBLIGATIONS:
            g = match_guard(gs, conn, leaves)
            ok = g is not None
            detail = "required guard: throw if %s %s — hazard: %s" % (" %s " % conn if conn != "leaf" else "", leaves, hazard)
            where = f.where()
            if g is not None:
                where = f.loc(g["node"])
                cb = None
                cn = f.nodes[g["node"]]["cond"]
                # block of the guard's condition
                for x in f.walk(cn):
                    if x in pos:
                        cb = pos[x][0]
                        break
                if bound is not None:
                    if not g["loops"]:
                        ok = False
                        detail += "; guard is not inside a loop over the dimensions"
                    else:
                        L = g["loops"][-1] if len(g["loops"]) == 1 else g["loops"][0]
                        okl, txt = full_range_loop(f, L, bound)
                        if not okl:
                            ok = False
                            detail += "; enclosing loop does not cover all dimensions (%s)" % txt
                        # the loop statement dominates the first store: its condition block dominates fb
                        hdr = None
                        for x in f.walk(f.nodes[L]["cond"]):
                            if x in pos:
                                hdr = pos[x][0]
                                break
                        if hdr is None or hdr not in dom[fb]:
                            ok = False
                            detail += "; the guard loop does not dominate the first member store"
                        # guard must not be nested under another condition inside the loop
                        inner = [a for a in f.ancestors(g["node"]) if f.k(a) == "IfStmt" and L in set(f.ancestors(a))]
                        if inner:
                            ok = False
                            detail += "; guard is conditional on %s" % f.render(f.nodes[inner[0]]["cond"])
                else:
                    if cb is None or cb not in dom[fb]:
                        ok = False
                        detail += "; the guard does not dominate the first member store (%s)" % f.loc(first_store)
                if ok:
                    detail = "guard `%s` throws; dominates the first member store at %s" % (g["text"][:80], f.loc(first_store))
            C.ob("VG-1", name, oid, ok, where, detail)
        # VG-1b: a container argument is indexed per dimension only after its element count has been checked against data.ndim
        count_guard = {2: "coords-count", 3: "orders-count", 4: "knots-count", 5: "smoothing-count", 6: "penalty-count"}
        gb = {}
        for (oid, hazard, conn, leaves, bound) in FIT_OBLIGATIONS:
            if oid in count_guard.values():
                g = match_guard(gs, conn, leaves)
                if g is not None:
                    gb[oid] = next((pos[x][0] for x in f.walk(f.nodes[g["node"]]["cond"]) if x in pos), None)
        pid = {p["id"]: k for k, p in enumerate(f.params)}
        early = {}
        for i in f.walk():
            n_ = f.nodes[i]
            base = idx = None
            if n_["k"] == "CXXOperatorCallExpr" and n_.get("opcall") == "[]":
                base, idx = f.strip(n_["ch"][1]), n_["ch"][2]
            elif n_["k"] == "ArraySubscriptExpr":
                base, idx = f.strip(n_["ch"][0]), n_["ch"][1]
            if base is None or f.k(base) != "DeclRefExpr" or f.nodes[base]["decl"].get("id") not in pid:
                continue
            k = pid[f.nodes[base]["decl"]["id"]]
            if k not in count_guard or "cv" in f.nodes[f.strip(idx)]:
                continue
            ub = next((pos[x][0] for x in f.walk(i) if x in pos), None)
            y = i
            while ub is None and y >= 0:            # a node the normal form created: the position of what holds it
                y = f.parent[y]
                ub = pos[y][0] if y >= 0 and y in pos else None
            g_b = gb.get(count_guard[k])
            if ub is None or g_b is None or g_b not in dom[ub] or g_b == ub:
                early.setdefault(k, []).append(f.loc(i))
        for k, oid in sorted(count_guard.items()):
            C.ob("VG-1", name, "indexed-after-%s" % oid, k not in early, early.get(k, [f.where()])[0],
                 "argument %d (%s) is indexed per dimension only where its element count has already been checked%s"
                 % (k, f.params[k]["name"], "" if k not in early else ": indexed at %s before the count guard — with too few elements this reads past the container" % early[k][:3]))
        # the penalty order that is checked is the expression that is passed on to the fitter
        want = "((1<$6.size())?$6[#]:$6[0])"
        passed = [re.sub(r"\[[a-z]\w*\]", "[#]", _render_norm(f, f.args(i)[5], {p["id"]: k for k, p in enumerate(f.params)})).replace(" ", "")
                  for i, cal in f.calls() if cal and cal["name"] == "add_penalty_term"]
        C.ob("VG-1", name, "porder-passed", passed == [want], f.where(),
             "the penalty order selected per dimension (one entry broadcast, or one per dimension) is what add_penalty_term receives: %s" % passed)


# ---------------------------------------------------------------- VG-2: reader
READ_OBLIGATIONS = [
    ("knots-vs-order", "lookup/evaluation need 2*order+2 knots", [(P_("nknots[#] - 2*order[#] - 2"), "<0")], 1),
    ("axes-vs-knots", "coefficient count must equal nknots-order-1", [(P_("naxes[#] - nknots[#] + order[#] + 1"), "!=0")], 1),
    ("knots-finite", "knots must be finite", [("call", "!isfinite(knots[#][#])")], 2),
    ("knots-sorted", "knots must be non-decreasing", None, 2),
]


def status_known_zero(f):
    """dataflow: set of int locals known to be 0 (status variables).  Used to prune `if (error != 0) return` on paths where error is 0."""
    def transfer(st, e, b, j):
        if e.get("kind") != "stmt":
            return st
        i = e["n"]
        n = f.nodes[i]
        if n["k"] == "DeclStmt":
            for d in n["decls"]:
                if d.get("dk") == "Var" and d.get("ctype") == "int" and d.get("init", -1) >= 0 and f.nodes[d["init"]].get("cv") == 0:
                    st = st | {d["id"]}
        ap = ts.assign_parts(f, i)
        if ap and ap[1] is not None:
            l = f.strip(ap[0])
            if f.k(l) == "DeclRefExpr":
                vid = f.nodes[l]["decl"]["id"]
                st = (st | {vid}) if f.nodes[ap[1]].get("cv") == 0 and n.get("op") == "=" else (st - {vid})
        if "callee" in n:
            for a in f.args(i):
                a = f.strip(a)
                if f.k(a) == "UnaryOperator" and f.nodes[a]["op"] == "&":
                    t = f.strip(f.ch(a)[0])
                    if f.k(t) == "DeclRefExpr":
                        st = st - {f.nodes[t]["decl"]["id"]}
        return st

    def edge(st, b, k, s, cond):
        if cond is None or cond < 0:
            return st
        c, neg = core.cond_polarity(f, cond)
        n = f.nodes[c]
        var = None
        nz_when_true = None
        if n["k"] == "DeclRefExpr" and n["decl"]["type"] == "int":
            var, nz_when_true = n["decl"]["id"], True
        elif n["k"] == "BinaryOperator" and n["op"] in ("!=", "=="):
            l, r = (f.strip(x) for x in n["ch"])
            if f.k(l) == "DeclRefExpr" and f.nodes[r].get("cv") == 0:
                var, nz_when_true = f.nodes[l]["decl"]["id"], n["op"] == "!="
        if var is None:
            return st
        if neg:
            nz_when_true = not nz_when_true
        zero_edge = 1 if nz_when_true else 0
        if k == zero_edge:
            return st | {var}
        # non-zero edge: infeasible if known zero
        if var in st:
            return None
        return st
    IN, OUT = core.dataflow(f, frozenset(), transfer, lambda a, b: a & b, edge)
    return IN


def vg2(P, C, exact=False):
    C.rule("VG-2", "read_fits_core: every feasible normal exit is dominated by throwing guards, executed for every dimension, for "
           "nknots >= 2*order+2, naxes == nknots-order-1, knots finite and non-decreasing", floor=4)
    f = [g for g in P.fns("read_fits_core") if g.unit == "driver"]
    if len(f) != 1:
        raise core.AnalysisBroken("read_fits_core: expected one instantiation")
    f = f[0]
    gs = guards_of(f)
    pos = f.node_positions()
    dom = f.dominators()
    IN = status_known_zero(f)
    # feasible normal exits
    exits = []
    for b in f.blocks:
        if f.cfg["exit"] in f.blocks[b]["succ"] and b in IN:
            es = [e for e in f.blocks[b]["elems"] if e.get("kind") == "stmt"]
            if any(f.k(e["n"]) == "CXXThrowExpr" for e in es):
                continue
            exits.append(b)
    if not exits:
        raise core.AnalysisBroken("read_fits_core: no feasible normal exit found")
    C.extra["reader_feasible_normal_exits"] = len(exits)
    strict_sorted = False
    if exact:
        C.rule("VG-2x", "the reader's validations are not stricter than well-formedness where the statement says what is well-formed: knots are "
               "non-decreasing, so equal neighbours must be accepted", floor=1)
    for (oid, hazard, leaves, depth) in READ_OBLIGATIONS:
        g = None
        if leaves is not None:
            g = match_guard(gs, "leaf", leaves)
        else:
            # knots[i][j] < knots[i][j-1] possibly with a `j > 0 &&` conjunct
            for cand in gs:
                for lf in cand["leaves"]:
                    if isinstance(lf[0], Poly):
                        d, rel = lf
                        txt = repr(d)
                        if rel == "<0" and d.t.get((), 0) == -1:
                            # `a <= b` is normalised as a - b - 1 < 0 (integer form); for the knot values it is the non-strict comparison
                            d, rel = d + Poly.const(1), "<=0"
                        if rel in ("<0", "<=0") and sorted(d.t.values()) == [-1, 1]:
                            atoms = sorted(d.atoms())
                            if any(len(a) != 1 for a in d.t):
                                continue
                            pos_a = [a[0] for a, v in d.t.items() if v == 1][0]
                            neg_a = [a[0] for a, v in d.t.items() if v == -1][0]
                            # throw if knots[i][j] - knots[i][j-1] < 0  (index forms: [#][#] vs [#][(# - 1)] after abstraction)
                            if pos_a.startswith("knots[#][") and neg_a.startswith("knots[#][") and pos_a != neg_a and "- 1" in neg_a + pos_a:
                                later, earlier = (pos_a, neg_a) if "- 1" in neg_a else (neg_a, pos_a)
                                if (later == pos_a):
                                    g = cand
                                    strict_sorted = (rel == "<0")
        ok = g is not None
        detail = "no throwing guard for: %s" % hazard
        where = f.where()
        if g is not None:
            where = f.loc(g["node"])
            detail = "guard `%s`" % g["text"][:90]
            loops = g["loops"]          # innermost first
            if len(loops) < depth:
                ok = False
                detail += "; not inside %d nested loop(s)" % depth
            else:
                outer = loops[depth - 1]
                okl, txt = full_range_loop(f, outer, ("ndim", "this->ndim"))
                if not okl:
                    ok = False
                    detail += "; dimension loop does not cover 0..ndim-1 (%s)" % txt
                if depth == 2:
                    inner = loops[0]
                    n = f.nodes[inner]
                    cond = f.render(n["cond"]).replace("this->", "")
                    init = f.render(n["init"])
                    m = re.match(r"\((\w+) < nknots\[\w+\]\)$", cond)
                    full = bool(m) and bool(re.search(r"= 0$", init.strip("() ")))
                    if oid == "knots-sorted" and bool(m) and bool(re.search(r"= 1$", init.strip("() "))):
                        full = True
                    if not full or f.render(n["inc"]).replace(" ", "") not in ("(%s++)" % m.group(1), "(++%s)" % m.group(1)):
                        ok = False
                        detail += "; knot loop does not cover every knot (%s; %s)" % (init, cond)
                hdr = None
                for x in f.walk(f.nodes[outer]["cond"]):
                    if x in pos:
                        hdr = pos[x][0]
                        break
                for xb in exits:
                    if hdr is None or hdr not in dom[xb]:
                        ok = False
                        detail += "; a feasible normal exit (block %d) is not dominated by the validation loop" % xb
                        break
                # inside the loop the guard is unconditional (apart from the conjunct inside its own condition)
                inner_ifs = [a for a in f.ancestors(g["node"]) if f.k(a) == "IfStmt" and outer in set(f.ancestors(a))]
                if inner_ifs:
                    ok = False
                    detail += "; guard is conditional on %s" % f.render(f.nodes[inner_ifs[0]]["cond"])
        C.ob("VG-2", "read_fits_core", oid, ok, where, detail)
        if exact and oid == "knots-sorted" and g is not None:
            # the other direction (C06): the reader must not refuse what is well-formed and what the writer writes — repeated knots are legal
            # (clamped end knots, a doubled interior knot), so the rejection has to be of a strictly smaller successor only
            C.ob("VG-2x", "read_fits_core", "repeated-knots-accepted", strict_sorted, where,
                 "the order test rejects knots[j] < knots[j-1] only: equal neighbours pass" if strict_sorted else
                 "the order test also rejects knots[j] == knots[j-1]: a table with a repeated knot, which the writer writes and the fitter accepts, cannot be read back")


def vg2c(P, C):
    """VG-2c: the order is checked against the knot count before the first allocation sized with it; VG-2d: out-arguments initialised."""
    C.rule("VG-2c", "in the reader's knot loop a throwing guard equivalent to nknots < 2*order+2, evaluated in 64 bits on the count just read, "
           "dominates the allocation of the padded knot vector (allocate(nknots + 2*order) + order) and the pixel read into it: with an "
           "unchecked ORDERn the 32-bit padding arithmetic wraps and the read lands outside the block", floor=1)
    C.rule("VG-2d", "every local whose address is handed to fits_get_img_size as the size output is initialised where it is declared: cfitsio "
           "writes min(NAXIS, requested) values, so an extension without axes leaves the variable untouched", floor=2)
    for name in ("read_fits_core", "estimateMemory"):
        f = [g for g in P.functions.values() if g.unit == "driver" and g.name == name and "splinetable<" in g.qname][0]
        for i, cal in f.calls():
            if cal and (f.call_macro(i) or cal["name"]) in ("fits_get_img_size", "ffgisz"):
                a = f.strip(f.args(i)[2])
                if f.k(a) == "UnaryOperator" and f.nodes[a]["op"] == "&" and f.k(f.strip(f.nodes[a]["ch"][0])) == "DeclRefExpr":
                    vid = f.nodes[f.strip(f.nodes[a]["ch"][0])]["decl"]["id"]
                    init = None
                    for y in f.walk():
                        if f.k(y) == "DeclStmt":
                            for d in f.nodes[y]["decls"]:
                                if d.get("id") == vid:
                                    init = d.get("init", -1)
                    C.ob("VG-2d", name, "out-argument:" + f.var_name(vid), init is not None and init >= 0, f.loc(i),
                         "%s is initialised at its declaration" % f.var_name(vid) if init is not None and init >= 0 else
                         "%s is declared without a value; if the extension has NAXIS = 0, fits_get_img_size writes nothing and the garbage is then "
                         "compared and used as a size" % f.var_name(vid))
    f = [g for g in P.fns("read_fits_core") if g.unit == "driver"][0]
    # the padded allocation: knots[i] = allocate<double>(nknots[i] + 2*order[i]) + order[i]
    allocs = [y for y in f.walk() if ts.assign_parts(f, y) and ts.root_member(f, ts.assign_parts(f, y)[0]) and
              ts.root_member(f, ts.assign_parts(f, y)[0])[:2] == ("knots", 1) and "allocate" in f.render(ts.assign_parts(f, y)[1])]
    reads = [i for i, cal in f.calls() if cal and (f.call_macro(i) or cal["name"]) in ("fits_read_pix", "ffgpxv") and
             any(ts.root_member(f, a) and ts.root_member(f, a)[0] == "knots" for a in f.args(i))]
    if len(allocs) != 1 or len(reads) != 1:
        raise core.AnalysisBroken("VG-2c: padded knot allocation / knot pixel read not found (%d, %d)" % (len(allocs), len(reads)))
    gs = guards_of(f)
    # required relation on the freshly read count: (count) - 2*order[#] - 2 < 0, count = the local just read or nknots[#]
    want = [core.rel_canon(f, g["node"], None) for g in []]
    cand = None
    for g in gs:
        for lf in g["leaves"]:
            if isinstance(lf[0], Poly) and lf[1] == "<0":
                # -2 + <count> - 2*order[#]: coefficient check on the polynomial, whatever the count variable is called
                d = lf[0]
                consts = [v for a, v in d.t.items() if a == ()]
                ords = [v for a, v in d.t.items() if a == ("order[#]",)]
                cnts = [(a, v) for a, v in d.t.items() if a not in ((), ("order[#]",))]
                if consts == [-2] and ords == [-2] and len(cnts) == 1 and cnts[0][1] == 1 and len(cnts[0][0]) == 1:
                    # the count must be the local just read (not yet stored in nknots) or nknots[#]; take the first such guard in the loop
                    if cand is None or f.nodes[g["node"]]["loc"] < f.nodes[cand["node"]]["loc"]:
                        cand = g
    pos = f.node_positions()
    dom = f.dominators()

    def at(i):
        while i >= 0 and i not in pos:
            i = f.parent[i]
        return pos.get(i)
    ok = False
    det = "no throwing guard for nknots < 2*order+2 in the knot loop"
    if cand is not None:
        pg = at(f.strip(f.nodes[cand["node"]]["cond"]))
        late = []
        for x in allocs + reads:
            px = at(x)
            if not (pg and px and ((pg[0] == px[0] and pg[1] < px[1]) or (pg[0] != px[0] and pg[0] in dom.get(px[0], ())))):
                late.append(x)
        wide = "uint64_t" in f.render(f.nodes[cand["node"]]["cond"]) or "unsigned long" in f.render(f.nodes[cand["node"]]["cond"])
        ok = not late and wide
        det = "guard `%s` dominates the padded allocation and the pixel read: %s; evaluated in 64 bits: %s" % (cand["text"][:80], not late, wide)
    C.ob("VG-2c", "read_fits_core", "order-checked-before-padding", ok, f.loc(allocs[0]), det)


def vg2e(P, C):
    """VG-2e: the number of coefficients announced by the image axes is representable before it sizes the array."""
    C.rule("VG-2e", "in the reader the product of the image axis lengths — numbers taken from the file — sizes the coefficient array and the pixel "
           "read; a throwing guard that bounds the running product (`product > LIMIT / axis`, or a checked multiplication builtin), evaluated "
           "for every axis, dominates the allocation of the coefficients: four axes of 65536 multiply to 2^64 = 0, the array has no element, "
           "every per-dimension check passes, and evaluation reads outside it", floor=1)
    f = [g for g in P.fns("read_fits_core") if g.unit == "driver"][0]
    allocs = [y for y in f.walk() if ts.assign_parts(f, y) and ts.assign_parts(f, y)[1] is not None and ts.root_member(f, ts.assign_parts(f, y)[0]) and
              ts.root_member(f, ts.assign_parts(f, y)[0])[:2] == ("coefficients", 0) and "allocate" in f.render(ts.assign_parts(f, y)[1])]
    if len(allocs) != 1:
        raise core.AnalysisBroken("VG-2e: allocation of the coefficient array not found (%d)" % len(allocs))
    pos = f.node_positions()
    dom = f.dominators()

    def at(i):
        while i >= 0 and i not in pos:
            i = f.parent[i]
        return pos.get(i)

    def axis_rooted(x):
        t = f.render(x).replace("this->", "")
        return bool(re.search(r"\bnaxes(_temp)?\b", t))
    cand = None
    for g in guards_of(f):
        cond = f.nodes[g["node"]]["cond"]
        hit = False
        for x in f.walk(cond):
            n = f.nodes[x]
            if n["k"] == "BinaryOperator" and n.get("op") == "/" and axis_rooted(n["ch"][1]):
                hit = True
            if (n.get("callee") or {}).get("name", "").startswith(("__builtin_mul_overflow", "__builtin_umul")) and any(axis_rooted(a) for a in f.args(x)):
                hit = True
        if hit and g["loops"]:
            cand = g
            break
    ok, det = False, "no throwing guard bounds the product of the axis lengths before it sizes the coefficient array"
    if cand is not None:
        # the leftmost leaf of the condition is evaluated in every iteration: its block is the one that has to dominate
        first = f.strip(f.nodes[cand["node"]]["cond"])
        while f.k(first) == "BinaryOperator" and f.nodes[first].get("op") in ("&&", "||"):
            first = f.strip(f.nodes[first]["ch"][0])
        pg = None
        for x in [first] + list(f.walk(first)):
            if x in pos:
                pg = pos[x]
                break
        px = at(allocs[0])
        # the guard sits in a loop that runs before the allocation: the loop's head dominates the allocation, the guard is evaluated
        # in every iteration (its first leaf is dominated by nothing but the head inside the body: it is a statement of the body itself)
        L = cand["loops"][0]
        ph = None
        if f.nodes[L].get("cond", -1) >= 0:
            for x in [f.strip(f.nodes[L]["cond"])] + list(f.walk(f.nodes[L]["cond"])):
                if x in pos:
                    ph = pos[x]
                    break
        body = f.nodes[L].get("body", -1)
        top_level = body >= 0 and (cand["node"] == body or (f.k(body) == "CompoundStmt" and cand["node"] in f.ch(body)))
        ok = bool(ph and px and ph[0] in dom.get(px[0], ()) and top_level and px[0] not in {pos[y][0] for y in f.walk(L) if y in pos})
        pg = ph
        full = re.match(r"\(?\s*\w+\s*<\s*(this->)?ndim\s*\)?$", f.render(f.nodes[L]["cond"]).strip()) is not None if f.nodes[L].get("cond", -1) >= 0 else False
        ok = ok and full
        det = "guard `%s`, evaluated for every axis (%s), dominates the allocation of the coefficients (%s)" % (cand["text"][:90], full, bool(pg and px and pg[0] in dom.get(px[0], ())))
    C.ob("VG-2e", "read_fits_core", "axis-product-bounded", ok, f.loc(allocs[0]), det)


def vg2f(P, C):
    """VG-2f/VG-2g: the first-pixel array handed to fits_read_pix is as long as the image has axes, and no longer than cfitsio handles."""
    C.rule("VG-2f", "fits_read_pix copies one first-pixel entry per axis of the CURRENT image from the array it is handed. Where the reader "
           "passes the address of a single `long` (the KNOTSn and EXTENTS extensions), a test of that image's axis count — the out-argument of "
           "a fits_get_img_dim made after the move to the extension, compared with 1 — dominates the read: an extension stored as a 2-d "
           "image otherwise makes cfitsio read past the variable", floor=2)
    C.rule("VG-2g", "cfitsio's pixel interface addresses an image through 9-element axis arrays: a throwing guard that bounds the table's "
           "dimension count by a constant <= 9 precedes the first pixel read of the coefficient image (a well-formed 20-dimensional file "
           "overruns those arrays inside fits_read_pix)", floor=1)
    f = [g for g in P.fns("read_fits_core") if g.unit == "driver"][0]
    pos = f.node_positions()
    dom = f.dominators()

    def at(i):
        while i >= 0 and i not in pos:
            i = f.parent[i]
        return pos.get(i)
    reads = [i for i, cal in f.calls() if cal and (f.call_macro(i) or cal["name"]) in ("fits_read_pix", "ffgpxv")]
    if len(reads) < 3:
        raise core.AnalysisBroken("VG-2f: expected three pixel reads in the reader, found %d" % len(reads))
    dims = []
    for i, cal in f.calls():
        if cal and (f.call_macro(i) or cal["name"]) in ("fits_get_img_dim", "ffgidm"):
            a = f.strip(f.args(i)[1])
            if f.k(a) == "UnaryOperator" and f.nodes[a].get("op") == "&" and f.k(f.strip(f.nodes[a]["ch"][0])) == "DeclRefExpr":
                dims.append((i, f.nodes[f.strip(f.nodes[a]["ch"][0])]["decl"]["id"]))
    moves = [i for i, cal in f.calls() if cal and (f.call_macro(i) or cal["name"]) in ("fits_movnam_hdu", "ffmnhd", "fits_movabs_hdu", "ffmahd")]
    n_scalar = 0
    for r in reads:
        fp = f.strip(f.args(r)[2])
        scalar = f.k(fp) == "UnaryOperator" and f.nodes[fp].get("op") == "&" and f.k(f.strip(f.nodes[fp]["ch"][0])) == "DeclRefExpr" and \
            "[" not in f.nodes[f.strip(f.nodes[fp]["ch"][0])].get("t", "")
        pr = at(r)
        if scalar:
            n_scalar += 1
            ok, det = False, "no test of the extension's axis count before the read"
            # the nearest move that precedes the read in source order, and a fits_get_img_dim between the two
            before = [m for m in moves if f.seq(m) < f.seq(r)]
            mv = max(before, key=f.seq) if before else None
            for (d, vid) in dims:
                if mv is None or not (f.seq(mv) < f.seq(d) < f.seq(r)):
                    continue
                for x in f.walk():
                    n = f.nodes[x]
                    if n["k"] == "BinaryOperator" and n.get("op") in ("==", "!=") and f.seq(d) < f.seq(x) < f.seq(r):
                        a, b = (f.strip(y) for y in n["ch"])
                        isv = lambda y: f.k(y) == "DeclRefExpr" and f.nodes[y]["decl"].get("id") == vid     # noqa: E731
                        one = lambda y: f.nodes[y].get("cv", f.nodes[y].get("v")) == 1                          # noqa: E731
                        if (isv(a) and one(b)) or (isv(b) and one(a)):
                            px = at(x)
                            if px and pr and (px[0] in dom.get(pr[0], ())):
                                ok, det = True, "the axis count read by fits_get_img_dim after the move is compared with 1 (`%s`) before the read" % f.render(x)
            C.ob("VG-2f", "read_fits_core", "single-first-pixel@%s" % f.render(f.args(r)[5])[:40], ok, f.loc(r), det if ok else
                 "fits_read_pix is handed the address of one `long` as first-pixel array, but nothing establishes that the current image has one "
                 "axis: for an extension stored with NAXIS = 2 cfitsio copies two entries from it")
        else:
            # the coefficient image: first-pixel vector of ndim entries
            g_ok = None
            for g in guards_of(f):
                for x in f.walk(f.nodes[g["node"]]["cond"]):
                    n = f.nodes[x]
                    if n["k"] == "BinaryOperator" and n.get("op") in ("<", "<=", ">", ">="):
                        a, b = (f.strip(y) for y in n["ch"])
                        ta, tb = f.render(a).replace("this->", ""), f.render(b).replace("this->", "")
                        K = None
                        if re.match(r"^(ndim|temp_dim|\w*dim\w*)$", tb) and "cv" in f.nodes[a] and n["op"] in ("<", "<="):
                            K = f.nodes[a]["cv"] + (1 if n["op"] == "<=" else 0) - 1 + (0 if n["op"] == "<" else 0)
                            K = f.nodes[a]["cv"] if n["op"] == "<" else f.nodes[a]["cv"] - 1
                        elif re.match(r"^(ndim|temp_dim|\w*dim\w*)$", ta) and "cv" in f.nodes[b] and n["op"] in (">", ">="):
                            K = f.nodes[b]["cv"] if n["op"] == ">" else f.nodes[b]["cv"] - 1
                        if K is not None and 1 <= K <= 9:
                            pg = at(f.strip(f.nodes[g["node"]]["cond"]))
                            if pg and pr and pg[0] in dom.get(pr[0], ()):
                                g_ok = (g, K)
            C.ob("VG-2g", "read_fits_core", "dimension-count-bounded", g_ok is not None, f.loc(r),
                 "tables of more than %d dimensions are refused before the pixel read (`%s`)" % (g_ok[1], g_ok[0]["text"][:60]) if g_ok else
                 "the reader accepts any NAXIS >= 1: fits_read_pix addresses the image through 9-element axis arrays, which a file with more axes overruns")
    if n_scalar < 2:
        raise core.AnalysisBroken("VG-2f: expected the knot and extent reads with a single first pixel, found %d" % n_scalar)


def vg6(P, C):
    """VG-6: the stacking order is one the number of tables can support."""
    C.rule("VG-6", "stacking N tables gives the new dimension N+2 coefficients (two padding tables); a well-formed dimension has at least order+1 "
           "(its knot count N+2+order+1 must reach 2*order+2), or evaluation has no fully supported interval and the reader refuses the "
           "table the writer has just written. The stacking constructor therefore refuses, by a throwing guard ahead of any allocation, "
           "exactly the combinations with N + 2 < stackOrder + 1 (the guard's condition is evaluated for N = 2..7, order 0..9)", floor=1)
    fs_ = [g for g in P.fns("splinetable") if g.unit == "driver" and g.cls == ts.CLS and g.kind == "ctor" and len(g.params) >= 3]
    if not fs_:
        raise core.AnalysisBroken("VG-6: stacking constructor not found")
    f = fs_[0]
    tn, on = f.params[0]["name"], f.params[2]["name"]
    best = None
    for g in guards_of(f):
        txt = f.render(f.nodes[g["node"]]["cond"])
        if on not in txt or "%s.size()" % tn not in txt.replace(" ", ""):
            continue
        ok = True
        why = ""
        for N in range(2, 8):
            for k in range(0, 10):
                try:
                    v = core.truth(core.expr_value(f, f.nodes[g["node"]]["cond"], {"%s.size()" % tn: N, on: k}))
                except core.Unknown as e:
                    ok, why = False, "cannot be evaluated (%s)" % e
                    break
                if v != (N + 2 < k + 1):
                    ok, why = False, "for %d tables and order %d it %s" % (N, k, "refuses a combination that is well-formed" if v else "lets an order through that %d coefficients cannot support" % (N + 2))
                    break
            if not ok:
                break
        best = (g, ok, why)
        if ok:
            break
    if best is None:
        C.ob("VG-6", "stacking constructor", "order-supported-by-the-number-of-tables", False, f.where(),
             "no throwing guard relates the number of tables to the stacking order: two tables stacked with order 4 give 4 coefficients on 9 knots")
        return
    g, ok, why = best
    pos = f.node_positions()
    dom = f.dominators()
    allocs = [i for i, cal in f.calls() if cal and cal["name"] == "allocate" and i in pos]
    pg = None
    c0 = f.strip(f.nodes[g["node"]]["cond"])
    while f.k(c0) == "BinaryOperator" and f.nodes[c0].get("op") in ("&&", "||"):
        c0 = f.strip(f.nodes[c0]["ch"][0])
    for x in [c0] + list(f.walk(c0)):
        if x in pos:
            pg = pos[x]
            break
    first = bool(pg) and all(pg[0] in dom.get(pos[a][0], ()) for a in allocs)
    C.ob("VG-6", "stacking constructor", "order-supported-by-the-number-of-tables", ok and first, f.loc(g["node"]),
         "`%s` refuses exactly N + 2 < order + 1, before anything is allocated" % g["text"][:70] if ok and first else
         "the guard `%s` %s%s" % (g["text"][:70], why or "is right", "" if first else "; it does not precede every allocation"))
