"""GE — grid evaluation wiring (serves C17, one structural clause): the grid route feeds each dimension's own knots, order and
coordinates through the same basis function as the reference, addresses results row-major with the grid lengths as ranges."""
import re

from .. import core
from . import ts


GE3_TEXT = ("bsplinebasis fills a (points x nknots-order-1) column-major matrix with bspline(knots, x[row], col, order) — every entry, in a "
            "perfect nest of two counting loops, whatever the values or the order of the points — and its local Cox-de Boor recursion is a "
            "clone of the library's reference bspline()")


def run(P, C):
    C.rule("GE-1", "grideval turns the coefficient array into a sparse n-tuple by row-major decomposition with the table's strides (index = "
           "coord / strides[dim], coord %= strides[dim]), inserts exactly the non-zero coefficients, and sets each range to the axis length", floor=4)
    C.rule("GE-2", "for every dimension i the basis matrix is bsplinebasis(knots[i], nknots[i], coords[i].data(), coords[i].size(), order[i]), it is "
           "transposed, and slicemultiply is applied along the same i; the loop covers all dimensions; the dimension count of the argument is checked", floor=4)
    C.rule("GE-3", GE3_TEXT, floor=3)
    gs = [f for f in P.fns("grideval") if f.cls == ts.CLS and f.unit == "driver"]
    if len(gs) < 2:
        raise core.AnalysisBroken("grideval: expected two instantiations (vector, array_view), found %d" % len(gs))
    for f in gs:
        name = "grideval<%s>" % ("array_view" if "array_view" in f.qname else "vector")
        # GE-1
        idx = [f.alpha(i)[0].replace(" ", "") for i in f.walk() if ts.assign_parts(f, i) and f.render(ts.assign_parts(f, i)[0]).startswith("indices[")]
        mod = [f.alpha(i)[0].replace(" ", "") for i in f.walk() if f.k(i) == "BinaryOperator" and f.nodes[i]["op"] == "=" and
               f.k(f.strip(f.nodes[i]["ch"][1])) == "BinaryOperator" and f.nodes[f.strip(f.nodes[i]["ch"][1])]["op"] == "%"]
        C.ob("GE-1", name, "row-major-decomposition", idx == ["(v0[v1]=(v2/strides[v1]))"] and mod == ["(v0=(v0%strides[v1]))"], f.where(),
             "indices[dim] = coord / strides[dim]; coord = coord %% strides[dim]: %s %s" % (idx, mod))
        ins = [i for i, cal in f.calls() if cal and cal["name"] == "insertEntry"]
        ok = False
        if len(ins) == 1:
            # what holds on every path to the insertion (enclosing if, or an earlier `if (...) continue;`): the inserted coefficient is non-zero
            from .dp import path_facts
            a0 = f.render(f.args(ins[0])[0]).replace(" ", "")
            facts = path_facts(f, ins[0])
            nonzero = any((a == a0 and op == "!=" and b in ("0", "0.0")) or (b == a0 and op == "!=" and a in ("0", "0.0")) for (a, op, b) in facts)
            args = [f.alpha(a)[0].replace(" ", "") for a in f.args(ins[0])]
            ok = nonzero and len(facts) == 1 and args[0] == "coefficients[v0]" and args[1].endswith(".data()")
        C.ob("GE-1", name, "non-zero-entries", ok, f.loc(ins[0]) if ins else f.where(), "exactly the non-zero coefficients are inserted with their index tuple")
        rng = [f.alpha(i)[0].replace(" ", "") for i in f.walk() if ts.assign_parts(f, i) and "ranges[" in f.render(ts.assign_parts(f, i)[0])]
        C.ob("GE-1", name, "ranges", len(rng) == 1 and rng[0].endswith("->ranges[v1]=naxes[v1])") and "v0" in rng[0], f.where(),
             "each range starts as the axis length: %s" % rng)
        sz = [f.render(d["init"]).replace("this->", "").replace(" ", "") for i in f.walk() if f.k(i) == "DeclStmt" for d in f.nodes[i]["decls"]
              if d.get("name") == "size" and d.get("init", -1) >= 0]
        # ... or the bound written out in the loop that visits the coefficients
        direct = []
        if ins:
            for L in [a for a in f.ancestors(ins[0]) if f.k(a) == "ForStmt"][-1:]:
                c = f.nodes[L].get("cond", -1)
                ini = f.render(f.nodes[L]["init"]).replace(" ", "") if f.nodes[L].get("init", -1) >= 0 else ""
                if c >= 0 and f.k(f.strip(c)) == "BinaryOperator" and f.nodes[f.strip(c)].get("op") == "<" and ini.endswith("=0"):
                    direct.append(f.render(f.nodes[f.strip(c)]["ch"][1]).replace("this->", "").replace(" ", ""))
        C.ob("GE-1", name, "coefficient-count", sz == ["(naxes[0]*strides[0])"] or (not sz and direct == ["(naxes[0]*strides[0])"]), f.where(),
             "all coefficients are visited: %s" % (sz or direct))
        # GE-2
        bb = [i for i, cal in f.calls() if cal and cal["name"] == "bsplinebasis"]
        sm = [i for i, cal in f.calls() if cal and cal["name"] == "slicemultiply"]
        tr = [i for i, cal in f.calls() if cal and cal["name"] == "cholmod_l_transpose"]
        ok = len(bb) == 1 and len(sm) == 1 and len(tr) == 1
        det = "calls: bsplinebasis %d, transpose %d, slicemultiply %d" % (len(bb), len(tr), len(sm))
        if ok:
            loop = next((a for a in f.ancestors(bb[0]) if f.k(a) == "ForStmt"), None)
            lt = f.alpha(loop)[0] if loop is not None else ""
            m = re.match(r"ForStmt\(unsigned int v0 = 0, \(v0 < ndim\), \(v0\+\+\)", lt)
            iv = f.nodes[f.nodes[loop]["init"]]["decls"][0]["name"] if loop is not None and f.k(f.nodes[loop]["init"]) == "DeclStmt" else "?"
            a = [f.render(x).replace("this->", "").replace(" ", "") for x in f.args(bb[0])]
            cv = None
            for d in f.walk():
                if f.k(d) == "DeclStmt":
                    for dd in f.nodes[d]["decls"]:
                        if dd.get("name") and dd.get("init", -1) >= 0 and f.render(dd["init"]).replace(" ", "") == "coords[%s]" % iv:
                            cv = dd["name"]
            want = ["knots[%s]" % iv, "nknots[%s]" % iv, "%s.data()" % cv, "%s.size()" % cv, "order[%s]" % iv]
            s_args = [f.render(x).replace("this->", "").replace(" ", "") for x in f.args(sm[0])]
            t_args = [f.render(x).replace(" ", "") for x in f.args(tr[0])]
            ok = bool(m) and a[:5] == want and s_args[1:3] == ["basist", iv] and t_args[0] == "basis" and t_args[1] == "1" and loop in set(f.ancestors(sm[0]))
            det = "loop %s; bsplinebasis(%s); transpose(%s); slicemultiply(%s)" % (lt[:60], ", ".join(a[:5]), ", ".join(t_args[:2]), ", ".join(s_args[:3]))
        C.ob("GE-2", name, "per-dimension-wiring", ok, f.loc(bb[0]) if bb else f.where(), det)
        from . import vg
        g = [x for x in vg.guards_of(f)]
        okg = any(len(x["leaves"]) == 1 and x["leaves"][0] == (core.eq_norm(vg.P_("$0.size() - ndim")), "!=0") for x in g)
        C.ob("GE-2", name, "dimension-count-checked", okg, f.where(), "coords.size() != ndim is rejected")
    ge3(P, C, declare=False)


def ge3(P, C, declare=True):
    """GE-3: bsplinebasis fills basis(row, col) = bspline(knots, x[row], col, order) for every point and basis function, column-major; the
    fitter's private bspline() is a clone of the library's reference."""
    if declare:
        C.rule("GE-3", GE3_TEXT, floor=4)
    B = P.one("bsplinebasis", file_endswith="splineutil.c")
    fill = [B.alpha(i)[0].replace(" ", "") for i in B.walk() if ts.assign_parts(B, i) and "->x" in B.render(ts.assign_parts(B, i)[0])]
    ns = [B.alpha(i)[0].replace(" ", "") for i in B.walk() if ts.assign_parts(B, i) and B.render(ts.assign_parts(B, i)[0]) == "nsplines"]
    # roles of the two loop variables by their bounds: the one bounded by the number of points indexes x, the one bounded by the number of
    # basis functions is the basis index (alpha renaming alone cannot tell them apart)
    role = {}
    for L in [i for i in B.walk() if B.k(i) == "ForStmt"]:
        cn = B.strip(B.nodes[L]["cond"])
        if B.k(cn) == "BinaryOperator" and B.nodes[cn]["op"] == "<":
            v = B.strip(B.nodes[cn]["ch"][0])
            bnd = B.strip(B.nodes[cn]["ch"][1])
            if B.k(v) == "DeclRefExpr" and B.k(bnd) == "DeclRefExpr":
                role[B.nodes[v]["decl"]["id"]] = "points" if B.nodes[bnd]["decl"]["kind"] == "ParmVar" and B.nodes[bnd]["decl"]["id"] == B.params[3]["id"] else "functions"
    roles_ok = False
    for i in B.walk():
        if ts.assign_parts(B, i) and "->x" in B.render(ts.assign_parts(B, i)[0]):
            txt, order = B.alpha(i)
            if txt.replace(" ", "") == "((double*)v0->x[v1]=bspline($0,$2[v2],v3,$4))" and len(order) == 4:
                roles_ok = role.get(order[2]) == "points" and role.get(order[3]) == "functions"
    C.ob("GE-3", "bsplinebasis", "fill", fill == ["((double*)v0->x[v1]=bspline($0,$2[v2],v3,$4))"] and roles_ok, B.where(),
         "basis(row, col) = bspline(knots, x[row], col, order) with row running over the points and col over the basis functions: %s (roles ok: %s)" % (fill, roles_ok))
    # every entry is filled: the store sits in a perfect nest of two counting loops (no branch, break or continue on the way)
    from . import gw as _gw
    st = [i for i in B.walk() if ts.assign_parts(B, i) and "->x" in B.render(ts.assign_parts(B, i)[0])]
    perfect = False
    detp = "no fill store"
    if len(st) == 1:
        Ls = [a for a in B.ancestors(st[0]) if B.k(a) in ("ForStmt", "WhileStmt", "DoStmt")]
        between = [a for a in B.ancestors(st[0]) if B.k(a) in ("IfStmt", "SwitchStmt", "ConditionalOperator")]
        jumps = [x for L in Ls[-1:] for x in B.walk(L) if B.k(x) in ("BreakStmt", "ContinueStmt", "GotoStmt", "ReturnStmt")]
        canon = [_gw._c_canonical_loop(B, L) for L in Ls]
        perfect = len(Ls) == 2 and all(c is not None for c in canon) and not between and not jumps
        detp = "%d enclosing loop(s), canonical counting loops: %s, conditional on the way: %s, jumps out of the nest: %s" % (
            len(Ls), [c is not None for c in canon], bool(between), [B.k(x) for x in jumps])
    C.ob("GE-3", "bsplinebasis", "every-entry-filled", perfect, B.loc(st[0]) if st else B.where(),
         "basis(row, col) is computed for every point and every basis function, whatever the order of the points: " + detp)
    C.ob("GE-3", "bsplinebasis", "column-count", ns == ["(v0=(($1-$4)-1))"], B.where(), "nknots-order-1 basis functions: %s" % ns)
    loops = [i for i in B.walk() if B.k(i) == "ForStmt"]
    order_ok = len(loops) == 2 and "col" in B.render(B.nodes[loops[0]]["cond"]) and "row" in B.render(B.nodes[loops[1]]["cond"]) and \
        "k++" in B.render(B.nodes[loops[1]]["inc"]).replace(" ", "").replace("(", "").replace(")", "")
    C.ob("GE-3", "bsplinebasis", "column-major-order", order_ok, B.where(), "columns outer, rows inner, linear index advanced with the row (CHOLMOD dense matrices are column-major)")
    loc = [f for f in P.fns("bspline") if f.file.endswith("splineutil.c")]
    ref = [f for f in P.fns("bspline") if f.file.endswith("core/bspline.cpp")]
    if len(loc) != 1 or len(ref) != 1:
        raise core.AnalysisBroken("bspline: fitter copy %d, reference %d" % (len(loc), len(ref)))
    a, b = loc[0].alpha(loc[0].body, effects=True)[0], ref[0].alpha(ref[0].body, effects=True)[0]
    C.ob("GE-3", "bspline@splineutil.c", "clone-of-reference", a == b, loc[0].where(),
         "the fitter's private bspline() is %s the library's reference bspline()" % ("identical to" if a == b else "NOT identical to"))


def ge4(P, C):
    """GE-4: slicemultiply leaves the n-d array describing the product on every successful return."""
    C.rule("GE-4", "slicemultiply stores the product's entry count (a->rows) and the new range of the multiplied dimension (a->ranges[dim] = "
           "b->ncol) on every path to a `return 0`: a successful return always describes the product, also when the product is empty", floor=1)
    f = P.one("slicemultiply", file_endswith="splineutil.c")
    a_id, dim_id, b_id = f.params[0]["id"], f.params[2]["id"], f.params[1]["id"]

    def field_store(i):
        ap = ts.assign_parts(f, i)
        if not ap or ap[1] is None or f.nodes[i].get("op") != "=":
            return None
        l = f.strip(ap[0])
        sub = None
        if f.k(l) == "ArraySubscriptExpr":
            sub = f.strip(f.nodes[l]["ch"][1])
            l = f.strip(f.nodes[l]["ch"][0])
        if f.k(l) == "MemberExpr" and f.nodes[l].get("ch") and f.k(f.strip(f.nodes[l]["ch"][0])) == "DeclRefExpr" and \
                f.nodes[f.strip(f.nodes[l]["ch"][0])]["decl"]["id"] == a_id:
            m = f.nodes[l]["member"]
            if m == "rows" and sub is None:
                return "rows"
            if m == "ranges" and sub is not None and f.k(sub) == "DeclRefExpr" and f.nodes[sub]["decl"]["id"] == dim_id:
                r = f.strip(ap[1])
                if f.k(r) == "MemberExpr" and f.nodes[r]["member"] == "ncol" and f.k(f.strip(f.nodes[r]["ch"][0])) == "DeclRefExpr" and \
                        f.nodes[f.strip(f.nodes[r]["ch"][0])]["decl"]["id"] == b_id:
                    return "ranges"
        return None

    def transfer(st, e, b, j):
        if e.get("kind") != "stmt":
            return st
        k = field_store(e["n"])
        return st | {k} if k else st
    IN, OUT = core.dataflow(f, frozenset(), transfer, lambda x, y: x & y)
    pos = f.node_positions()
    rets = [i for i in f.walk() if f.k(i) == "ReturnStmt" and f.nodes[i].get("value", -1) >= 0 and f.nodes[f.strip(f.nodes[i]["value"])].get("cv") == 0]
    bad = []
    for r in rets:
        if r not in pos:
            continue
        st = core.state_before(f, IN, transfer, *pos[r])
        if st is not None and not {"rows", "ranges"} <= st:
            bad.append((r, sorted({"rows", "ranges"} - st)))
    C.ob("GE-4", "slicemultiply", "shape-updated-on-success", bool(rets) and not bad, f.loc(bad[0][0]) if bad else f.where(),
         ("%d successful return(s), each after a->rows and a->ranges[dim] = b->ncol were stored" % len(rets)) if not bad else
         "`return 0` at %s is reached without storing %s: the array still describes the operand, and the caller goes on as if it were the product"
         % (f.loc(bad[0][0]), " and ".join("a->" + x for x in bad[0][1])))


def ge5(P, C):
    """GE-5: grid evaluation is linear in the coefficients: no absolute threshold on the way."""
    C.rule("GE-5", "grid evaluation scales with the table: bsplinebasis, slicemultiply and grideval contain no floating constant other than 0 and "
           "+-1, compare floating values only with 0 or with each other, and call none of CHOLMOD's thresholding routines (cholmod_l_drop): an "
           "absolute tolerance makes small-scale tables lose grid points that pointwise evaluation still returns", floor=3)
    fns = [("bsplinebasis", P.one("bsplinebasis", file_endswith="splineutil.c")), ("slicemultiply", P.one("slicemultiply", file_endswith="splineutil.c"))] + \
          [("grideval", g) for g in P.fns("grideval") if g.cls == ts.CLS and g.unit == "driver"][:1]
    _no_absolute_threshold(C, "GE-5", fns, "entries below an absolute size are dropped, so the grid values of a table of small scale are not the values pointwise evaluation returns")


def _no_absolute_threshold(C, rule, fns, consequence):
    for name, f in fns:
        bad = []
        for i in f.walk():
            n = f.nodes[i]
            if n["k"] == "FloatingLiteral" and n.get("v") not in (0, 1, -1, 0.0, 1.0, -1.0):
                bad.append((i, "floating constant %s%s" % (n.get("v"), " (%s)" % n["macros"][-1] if n.get("macros") else "")))
            if n["k"] == "BinaryOperator" and n["op"] in ("<", ">", "<=", ">="):
                l, r = f.strip(n["ch"][0], casts=True), f.strip(n["ch"][1], casts=True)
                if any("double" in f.nodes[x].get("t", "") or "float" in f.nodes[x].get("t", "") for x in (n["ch"][0], n["ch"][1], l, r)):
                    for side in (l, r):
                        sn = f.nodes[side]
                        if sn["k"] in ("FloatingLiteral", "IntegerLiteral") and sn.get("v") not in (0, 0.0):
                            bad.append((i, "comparison %s" % f.render(i)))
            cal = n.get("callee")
            if cal and cal["name"] in ("cholmod_l_drop", "cholmod_drop"):
                bad.append((i, "%s(%s, ...)" % (cal["name"], f.render(f.args(i)[0]))))
        C.ob(rule, name, "no-absolute-threshold", not bad, f.loc(bad[0][0]) if bad else f.where(),
             "no absolute constant, no thresholding call" if not bad else "%s: %s" % (bad[0][1], consequence))


def gw8(P, C):
    """GW-8: the assembly of the normal equations is homogeneous in the weights and in the data."""
    C.rule("GW-8", "the unconstrained fit scales with its input: multiplying all weights by s leaves the minimiser unchanged (for zero smoothing) and "
           "multiplying the data by s multiplies it by s. The routines that assemble and solve the system — glamfit_complex, bsplinebasis, box, "
           "slicemultiply, flatten_ndarray_to_sparse, kronecker_product, calc_penalty, add_penalty_term, divided_diffs, cholesky_solve — "
           "contain no floating constant other than 0 and +-1, compare floating values only with 0 or with each other and call none of "
           "CHOLMOD's thresholding routines: an absolute cutoff (cholmod_l_drop(DBL_EPSILON, ...)) removes entries of F and R once weights "
           "or data are small in absolute terms, and the result is no longer the weighted least-squares minimiser", floor=8)
    names = ("glamfit_complex", "bsplinebasis", "box", "slicemultiply", "flatten_ndarray_to_sparse", "kronecker_product", "calc_penalty",
             "add_penalty_term", "divided_diffs", "cholesky_solve")
    fns = []
    for nm in names:
        gs = [g for g in P.fns(nm) if g.unit.startswith("fitter/")]
        if not gs:
            raise core.AnalysisBroken("GW-8: %s not found in the fitter" % nm)
        fns.append((nm, gs[0]))
    _no_absolute_threshold(C, "GW-8", fns, "entries of the normal matrix / right-hand side below an absolute size are dropped; with small weights or data the fit is not the weighted least-squares minimiser any more")


def ge6(P, C):
    """GE-6: the Cox-de Boor recursion takes 0/0 as 0."""
    C.rule("GE-6", "in the recursion bspline() — the fitter's private copy, which fills the basis matrices of fit and grideval, and the library's "
           "reference — every division by a knot span knots[a] - knots[b] is executed only under a test that this very span is positive "
           "(or non-zero): over a repeated knot, which a well-formed table may have, the numerator is zero as well and the term is zero by "
           "convention; 0/0 = NaN otherwise poisons the whole basis column (grid values NaN where pointwise evaluation is finite)", floor=4)
    fs_ = [f for f in P.fns("bspline") if f.file.endswith("splineutil.c") or f.file.endswith("core/bspline.cpp")]
    if len(fs_) != 2:
        raise core.AnalysisBroken("GE-6: expected the fitter's and the reference bspline(), found %d" % len(fs_))
    n = 0
    for f in sorted(fs_, key=lambda g: g.file):
        tag = "bspline@%s" % f.file.rsplit("/", 1)[-1]
        divs = [i for i in f.walk() if f.k(i) in ("BinaryOperator", "CompoundAssignOperator") and f.nodes[i].get("op") in ("/", "/=")]
        if not divs:
            raise core.AnalysisBroken("GE-6: no division in %s" % tag)
        for k, d in enumerate(sorted(divs, key=f.seq)):
            den = core.poly(f, f.nodes[d]["ch"][1])
            ok, how = False, None
            for a in f.ancestors(d):
                if f.k(a) != "IfStmt" or d not in set(f.walk(f.nodes[a]["then"])):
                    continue
                conn, leaves = core.cond_leaves(f, f.nodes[a]["cond"])
                if conn not in ("&&", "leaf"):
                    continue
                for lf in leaves:
                    c, neg = core.cond_polarity(f, lf)
                    nn = f.nodes[c]
                    if neg or nn["k"] != "BinaryOperator" or nn.get("op") not in ("<", "!="):
                        continue
                    l, r = core.poly(f, nn["ch"][0]), core.poly(f, nn["ch"][1])
                    # a < b  with  b - a == den   |   a != b with +-(a-b) == den
                    if nn["op"] == "<" and (r - l) == den:
                        ok, how = True, f.render(c)
                    if nn["op"] == "!=" and ((r - l) == den or (l - r) == den):
                        ok, how = True, f.render(c)
            n += 1
            C.ob("GE-6", tag, "span-positive-before-division#%d" % k, ok, f.loc(d),
                 "division by %s only under %s" % (f.render(f.nodes[d]["ch"][1]), how) if ok else
                 "division by the knot span %s without a test that it is positive: over a repeated knot this is 0/0" % f.render(f.nodes[d]["ch"][1]))
    return n


def ge7(P, C):
    """GE-7: after the product every index column of every entry is written."""
    C.rule("GE-7", "slicemultiply rebuilds the n-tuple after the product: the index columns have just been realloc'ed to the new entry count "
           "(their contents beyond the old count are indeterminate), so for every entry the column of the multiplied dimension and, in a "
           "plain loop over all the other dimensions (no branch, no continue/break), every other column is stored. A column that is skipped "
           "for some axis (`an axis of length one only ever has index 0`) keeps stale indices or heap garbage for the new entries", floor=2)
    f = P.one("slicemultiply", file_endswith="splineutil.c")
    stores = []
    for i in f.walk():
        ap = ts.assign_parts(f, i)
        if not ap or ap[1] is None or f.nodes[i].get("op", "=") != "=":
            continue
        l = f.strip(ap[0])
        # a->i[<col>][<row>]
        if f.k(l) == "ArraySubscriptExpr":
            inner = f.strip(f.nodes[l]["ch"][0])
            if f.k(inner) == "ArraySubscriptExpr":
                m = f.strip(f.nodes[inner]["ch"][0])
                if f.k(m) == "MemberExpr" and f.nodes[m].get("member") == "i" and "ndsparse" in f.nodes[m].get("fieldOf", ""):
                    stores.append((i, f.render(f.nodes[inner]["ch"][1]).replace(" ", ""), f.render(f.nodes[l]["ch"][1]).replace(" ", "")))
    # only the stores after the realloc (the unflattening) matter
    re_ = [i for i, cal in f.calls() if cal and cal["name"] == "realloc"]
    if not re_:
        raise core.AnalysisBroken("GE-7: the reallocation of the index columns was not found in slicemultiply")
    last_re = max(f.seq(i) for i in re_)
    after = [s_ for s_ in stores if f.seq(s_[0]) > last_re]
    own = [s_ for s_ in after if s_[1] == "dim"]
    other = [s_ for s_ in after if s_[1] != "dim"]
    C.ob("GE-7", "slicemultiply", "multiplied-dimension-column", len(own) == 1 and not any(f.k(a) in ("IfStmt", "SwitchStmt") for a in f.ancestors(own[0][0])),
         f.loc(own[0][0]) if own else f.where(), "a->i[dim][row] is stored for every entry: %s" % [f.render(s_[0])[:50] for s_ in own])
    ok, det = False, "no store into the other index columns after the reallocation"
    if len(other) == 1:
        i = other[0][0]
        loops = [a for a in f.ancestors(i) if f.k(a) in ("ForStmt", "WhileStmt", "DoStmt")]
        branches = [a for a in f.ancestors(i) if f.k(a) in ("IfStmt", "SwitchStmt", "ConditionalOperator")]
        jumps = [x for x in f.walk(f.nodes[loops[0]]["body"]) if f.k(x) in ("ContinueStmt", "BreakStmt", "GotoStmt")] if loops else []
        kcond = f.render(f.nodes[loops[0]]["cond"]).replace(" ", "") if loops else ""
        kinit = f.render(f.nodes[loops[0]]["init"]).replace(" ", "") if loops and f.nodes[loops[0]].get("init", -1) >= 0 else ""
        full = len(loops) == 2 and kinit in ("(k=(dim+1))",) and kcond in ("(k<(dim+a->ndim))", "(k<(a->ndim+dim))")
        ok = full and not branches and not jumps
        det = "columns (k %% ndim) for k = dim+1 .. dim+ndim-1, each stored for every entry (inner loop %s; %s; no branch, no jump)" % (kinit, kcond) if ok else \
            "the store %s is not executed for every other dimension of every entry (inner loop `%s; %s`, enclosing branches: %d, continue/break in the loop: %d): " \
            "the skipped columns keep what realloc left there" % (f.render(i)[:50], kinit, kcond, len(branches), len(jumps))
    C.ob("GE-7", "slicemultiply", "other-columns", ok, f.loc(other[0][0]) if other else f.where(), det)


def ge8(P, C):
    """GE-8: the basis matrix applied along dimension i is computed for dimension i."""
    C.rule("GE-8", "inside the loop over the dimensions of grideval every path from the loop head to slicemultiply passes through the "
           "bsplinebasis call and the transposition of that iteration (their blocks dominate the multiplication and lie in the same loop): the "
           "matrix applied along dimension i has one row per abscissa of coords[i]. A matrix kept from an earlier iteration has the earlier "
           "axis' number of rows — the grid lengths are then no longer the index ranges of the result", floor=2)
    gs = [f for f in P.fns("grideval") if f.cls == ts.CLS and f.unit == "driver"]
    if len(gs) < 2:
        raise core.AnalysisBroken("grideval: expected two instantiations (vector, array_view), found %d" % len(gs))
    for f in gs:
        name = "grideval<%s>" % ("array_view" if "array_view" in f.qname else "vector")
        pos = f.node_positions()
        dom = f.dominators()
        sm = [i for i, cal in f.calls() if cal and cal["name"] == "slicemultiply" and i in pos]
        bb = [i for i, cal in f.calls() if cal and cal["name"] == "bsplinebasis" and i in pos]
        tr = [i for i, cal in f.calls() if cal and cal["name"] == "cholmod_l_transpose" and i in pos]
        if not sm:
            raise core.AnalysisBroken("GE-8: no slicemultiply call in %s" % name)
        loops = core.natural_loops(f)
        for k, s in enumerate(sm):
            sb = pos[s][0]
            # innermost loop (smallest body) that contains the multiplication
            inl = sorted([L for L in loops if sb in L[1]], key=lambda L: len(L[1]))
            ok, det = False, "slicemultiply is not inside a loop"
            if inl:
                body = inl[0][1]

                def covered(calls):
                    return any(pos[c][0] in body and (pos[c][0] in dom.get(sb, ()) and (pos[c][0] != sb or pos[c][1] < pos[s][1])) for c in calls)
                ok = covered(bb) and covered(tr)
                det = "bsplinebasis and the transposition of the same iteration dominate the multiplication" if ok else \
                    "slicemultiply can be reached in an iteration that did not compute its own basis matrix (bsplinebasis on every path: %s, transpose: %s): " \
                    "the matrix of another axis, with that axis' number of grid points, is applied" % (covered(bb), covered(tr))
            C.ob("GE-8", name, "basis-of-this-iteration#%d" % k, ok, f.loc(s), det)


def ge9(P, C):
    """GE-9: slicemultiply un-flattens the column number with the axis order it flattened it with."""
    C.rule("GE-9", "slicemultiply rotates dimension `dim` to the front and flattens the other axes into a column number with axis dim+n-1 running "
           "fastest (`col += stride*idx[k%n]; stride *= range[k%n]` for k from dim+n-1 down to dim+1), and after the product recovers the "
           "indices with the inverse map: either dividing down from the slowest axis (`stride /= range[k%n]; idx[k%n] = j/stride; j %= stride` "
           "for k ascending from dim+1, stride starting as the product of all other ranges) or taking remainders from the fastest "
           "(`idx[k%n] = j % range[k%n]; j /= range[k%n]` for k DESCENDING from dim+n-1). With two or fewer dimensions the loop runs at most "
           "once and any order passes; from three dimensions on a mismatched order permutes the other axes' indices", floor=2)
    f = P.one("slicemultiply")
    R = lambda x: f.render(x).replace(" ", "")        # noqa: E731

    def loop_shape(L):
        n = f.nodes[L]
        ini = R(n["init"]) if n.get("init", -1) >= 0 else ""
        cond = R(n["cond"]) if n.get("cond", -1) >= 0 else ""
        inc = R(n["inc"]) if n.get("inc", -1) >= 0 else ""
        m = re.match(r"^\(?(\w+)=(.*?)\)?$", ini)
        v = m.group(1) if m else "?"
        start = m.group(2) if m else "?"
        desc = inc in ("(%s--)" % v,) and re.match(r"^\(dim<%s\)$" % v, cond) is not None and re.sub(r"[()]", "", start) in ("dim+a->ndim-1", "a->ndim+dim-1", "dim+a->ndim-1")
        asc = inc in ("(%s++)" % v,) and re.match(r"^\(%s<\(?(dim\+a->ndim|a->ndim\+dim)\)?\)$" % v, cond) is not None and re.sub(r"[()]", "", start) == "dim+1"
        return v, ("descending" if desc else "ascending" if asc else None)
    flat = unflat = None
    for L in f.walk():
        if f.k(L) != "ForStmt":
            continue
        body = f.nodes[L]["body"]
        kids = f.ch(body) if f.k(body) == "CompoundStmt" else [body]
        texts = [R(x) for x in kids]
        v, direction = loop_shape(L)
        if any(re.match(r"^\(\(?\(long\*\)\(?section->j\)?\)?\[i\]\+=\(stride\*a->i\[\(%s%%a->ndim\)\]\[i\]\)\)$" % v, t) for t in texts):
            ok = direction == "descending" and len(texts) == 2 and texts[1] == "(stride*=a->ranges[(%s%%a->ndim)])" % v
            flat = (L, ok, "flatten: %s over %s: %s" % (direction, v, texts))
        else:
            # the column number accumulated in a local that starts at 0 and is stored into section->j[i] after the loop
            m_ = next((re.match(r"^\((\w+)\+=\(stride\*a->i\[\(%s%%a->ndim\)\]\[i\]\)\)$" % v, t) for t in texts
                       if re.match(r"^\((\w+)\+=\(stride\*a->i\[\(%s%%a->ndim\)\]\[i\]\)\)$" % v, t)), None)
            if m_ and flat is None:
                acc = m_.group(1)
                sibs = f.ch(f.parent[L]) if f.k(f.parent[L]) == "CompoundStmt" else []
                k0 = sibs.index(L) if L in sibs else -1
                before = [R(x) for x in sibs[:k0]] if k0 >= 0 else []
                after = [R(x) for x in sibs[k0 + 1:]] if k0 >= 0 else []
                stored = any(re.match(r"^\(\(?\(long\*\)\(?section->j\)?\)?\[i\]=%s\)$" % acc, t) for t in after)
                zeroed = "(%s=0)" % acc in before and not any(t.startswith("(%s" % acc) and t != "(%s=0)" % acc for t in before)
                ok = direction == "descending" and len(texts) == 2 and texts[1] == "(stride*=a->ranges[(%s%%a->ndim)])" % v and stored and zeroed
                flat = (L, ok, "flatten into %s (zeroed before: %s, stored to section->j[i] after: %s): %s over %s: %s" % (acc, zeroed, stored, direction, v, texts))
        stores = [t for t in texts if re.match(r"^\(a->i\[\(%s%%a->ndim\)\]\[i\]=" % v, t)]
        if stores:
            t = stores[0]
            if re.search(r"=\(j/stride\)\)$", t):
                ok = direction == "ascending" and texts == ["(stride/=a->ranges[(%s%%a->ndim)])" % v, t, "(j=(j%stride))"]
                # stride starts as the product of all the other ranges
                def product_loop(M, var):
                    return f.k(M) == "ForStmt" and loop_shape(M)[1] == "descending" and \
                        [R(x) for x in (f.ch(f.nodes[M]["body"]) if f.k(f.nodes[M]["body"]) == "CompoundStmt" else [f.nodes[M]["body"]])] == \
                        ["(%s*=a->ranges[(%s%%a->ndim)])" % (var, loop_shape(M)[0])]
                outer = lambda x: next((a for a in f.ancestors(x) if f.k(a) == "ForStmt"), None)        # noqa: E731
                def starts_at_one(M, var):
                    ps = f.ch(f.parent[M])
                    return M in ps and ps.index(M) > 0 and R(ps[ps.index(M) - 1]) == "(%s=1)" % var
                prod = any(product_loop(M, "stride") and f.seq(M) < f.seq(L) and outer(M) == outer(L) and starts_at_one(M, "stride") for M in f.walk())
                if not prod:
                    # the product hoisted out of the row loop: `p = 1; for(k descending) p *= ranges[k%n];` once, `stride = p` per row; p has no
                    # other store
                    sibs = f.ch(f.parent[L]) if f.k(f.parent[L]) == "CompoundStmt" else []
                    before = [R(x) for x in sibs[:sibs.index(L)]] if L in sibs else []
                    m = next((re.match(r"^\(stride=(\w+)\)$", t) for t in reversed(before) if t.startswith("(stride")), None)
                    if m:
                        pv = m.group(1)
                        writes = [R(x) for x in f.walk() if f.k(x) in ("BinaryOperator", "CompoundAssignOperator", "UnaryOperator") and
                                  re.match(r"^\(%s(=|\*=|\+=|-=|/=|\+\+|--)" % pv, R(x)) and not R(x).startswith("(%s==" % pv)]
                        loops = [M for M in f.walk() if product_loop(M, pv) and f.seq(M) < f.seq(L) and outer(M) is None]
                        if len(loops) == 1 and sorted(writes) == sorted(["(%s=1)" % pv, "(%s*=a->ranges[(%s%%a->ndim)])" % (pv, loop_shape(loops[0])[0])]):
                            ps = f.ch(f.parent[loops[0]])
                            k0 = ps.index(loops[0])
                            prod = k0 > 0 and R(ps[k0 - 1]) == "(%s=1)" % pv
                unflat = (L, ok and prod, "un-flatten by dividing down: %s over %s, stride = product of the other ranges: %s" % (direction, v, prod))
            elif re.search(r"=\(j%%a->ranges\[\(%s%%a->ndim\)\]\)\)$" % v, t):
                ok = direction == "descending" and texts == [t, "(j/=a->ranges[(%s%%a->ndim)])" % v]
                unflat = (L, ok, "un-flatten by remainders: %s over %s (must descend from the fastest axis)" % (direction, v))
            else:
                unflat = (L, False, "un-flatten store not recognised: %s" % t[:80])
    C.ob("GE-9", "slicemultiply", "flatten", bool(flat and flat[1]), f.loc(flat[0]) if flat else f.where(), flat[2] if flat else "the flattening loop was not found")
    C.ob("GE-9", "slicemultiply", "unflatten-is-the-inverse", bool(unflat and unflat[1]), f.loc(unflat[0]) if unflat else f.where(),
         unflat[2] if unflat else "the un-flattening loop was not found")


def ge10(P, C):
    """GE-10: ndsparse::insertEntry stores the value and every index of the entry in the slot it then advances past."""
    C.rule("GE-10", "ndsparse::insertEntry refuses a full array, stores the value in x[entriesInserted] and, for every dimension j < ndim, the index "
           "in i[j][entriesInserted] (growing ranges[j] to cover it), and advances entriesInserted once, after the stores: the sparse arrays "
           "that grid evaluation and the fit read hold each entry's value and its whole index tuple in the same slot", floor=5)
    fs_ = [f for f in P.fns("insertEntry") if (f.cls or "").endswith("ndsparse")]
    if len(fs_) != 1:
        raise core.AnalysisBroken("GE-10: ndsparse::insertEntry: %d definitions" % len(fs_))
    f = fs_[0]
    R = lambda x: f.alpha(x)[0].replace(" ", "").replace("this->", "")      # noqa: E731
    kids = f.ch(f.body) if f.k(f.body) == "CompoundStmt" else []
    guard = [x for x in kids if f.k(x) == "IfStmt" and core.then_throws(f, x)]
    gtxt = [R(f.nodes[x]["cond"]) for x in guard]
    C.ob("GE-10", "insertEntry", "full-array-refused", any(t in ("(!(entriesInserted<rows))", "(rows<=entriesInserted)", "(entriesInserted==rows)") for t in gtxt) and
         bool(guard) and kids.index(guard[0]) == 0, f.loc(guard[0]) if guard else f.where(), "throws when entriesInserted is not below rows, before any store: %s" % gtxt)
    stores = [x for x in f.walk() if f.k(x) in ("BinaryOperator",) and f.nodes[x].get("op") == "="]
    texts = {x: R(x) for x in stores}
    val = [x for x, t in texts.items() if t == "(x[entriesInserted]=$0)"]
    C.ob("GE-10", "insertEntry", "value-stored", len(val) == 1, f.loc(val[0]) if val else f.where(), "x[entriesInserted] = value: %s" % sorted(texts.values()))
    idx = [x for x, t in texts.items() if re.match(r"^\(i\[v0\]\[entriesInserted\]=\$1\[v0\]\)$", t)]
    loop = next((a for a in f.ancestors(idx[0]) if f.k(a) == "ForStmt"), None) if idx else None
    lok = False
    if loop is not None:
        n = f.nodes[loop]
        ini, cond, inc = (f.alpha(n[k])[0].replace(" ", "").replace("this->", "") if n.get(k, -1) >= 0 else "" for k in ("init", "cond", "inc"))
        lok = ini.endswith("v0=0)") or ini.endswith("v0=0")
        lok = lok and cond in ("(v0<ndim)", "(v0!=ndim)") and inc in ("(v0++)",)
    C.ob("GE-10", "insertEntry", "every-index-stored", len(idx) == 1 and lok, f.loc(idx[0]) if idx else f.where(),
         "i[j][entriesInserted] = indices[j] for j = 0 .. ndim-1 (store found: %s, loop over all dimensions: %s)" % (bool(idx), lok))
    rng = [x for x, t in texts.items() if t in ("(ranges[v0]=max(ranges[v0],(i[v0][entriesInserted]+1)))", "(ranges[v0]=max(ranges[v0],($1[v0]+1)))",
                                                  "(ranges[v0]=max((i[v0][entriesInserted]+1),ranges[v0]))")]
    C.ob("GE-10", "insertEntry", "range-covers-index", len(rng) == 1 and loop is not None and loop in list(f.ancestors(rng[0])), f.loc(rng[0]) if rng else f.where(),
         "ranges[j] grows to index+1")
    adv = [x for x in f.walk() if (f.k(x) == "UnaryOperator" and f.nodes[x].get("op") in ("++", "--") and "entriesInserted" in f.render(x)) or
           (f.k(x) in ("BinaryOperator", "CompoundAssignOperator") and f.nodes[x].get("op", "").endswith("=") and f.nodes[x]["op"] not in ("==", "<=", ">=", "!=")
            and f.render(f.nodes[x]["ch"][0]).replace("this->", "") == "entriesInserted")]
    ok = len(adv) == 1 and adv[0] in kids and kids.index(adv[0]) == len(kids) - 1 and R(adv[0]) == "(entriesInserted++)"
    C.ob("GE-10", "insertEntry", "advanced-once-after-the-stores", ok, f.loc(adv[0]) if adv else f.where(),
         "entriesInserted++ is the last statement and the only change of the counter: %d change(s)" % len(adv))
