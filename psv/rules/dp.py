"""DP / CL — evaluator dispatch table and clone agreement (serves C03, C02).

DP-1..6 dispatch arms of get_evaluator, DP-7 constexpr chunk helpers,
CL-1 core clones, CL-2 entry-point clones, CL-3 order-0 special case of the kernels,
CL-4 kernel selection in the entry points.
"""
import os
import re

from .. import core
from . import ts, kb

GENERIC = ("ndsplineeval_core", "ndsplineeval_multibasis_core")
PER_D = ("ndsplineeval_coreD", "ndsplineeval_multibasis_coreD")
FIXED = ("ndsplineeval_coreD_FixedOrder", "ndsplineeval_multibasis_coreD_FixedOrder")
KNOWN = ("ndsplineeval_core_KnownOrder", "ndsplineeval_multibasis_core_KnownOrder")


def governing_label(f, i, switch):
    """label (int value or 'default') of the case arm of `switch` that statement i belongs to."""
    body = f.nodes[switch]["body"]
    # top-level statement of the switch body containing i
    top = i
    for a in f.ancestors(i):
        if a == body:
            break
        top = a
    kids = f.ch(body)
    if top not in kids:
        return None
    k = kids.index(top)
    for j in range(k, -1, -1):
        s = kids[j]
        # nested case labels: case 1: case 2: stmt
        while f.k(s) in ("CaseStmt", "DefaultStmt"):
            if j < k or i in set(f.walk(s)):
                return f.nodes[f.nodes[s]["lhs"]].get("cv") if f.k(s) == "CaseStmt" else "default"
            s = f.nodes[s]["sub"]
    return None


def assignments(f):
    out = []
    for i in f.walk():
        n = f.nodes[i]
        if n["k"] == "BinaryOperator" and n["op"] == "=":
            l = f.strip(n["ch"][0])
            if f.k(l) == "MemberExpr" and f.nodes[l]["member"] in ("eval_ptr", "v_eval_ptr"):
                r = f.strip(n["ch"][1])
                t = f.strip(f.ch(r)[0]) if f.k(r) == "UnaryOperator" and f.nodes[r]["op"] == "&" else r
                fn = (f.nodes[t].get("decl") or {}).get("fn")
                out.append(dict(node=i, ptr=f.nodes[l]["member"], fn=fn, text=f.render(i)))
    return out


def dp(P, C, variant=None):
    tag = "" if variant is None else "[NO_EVAL_TEMPLATES]"
    C.rule("DP-1", "get_evaluator: under `case O` / `case D` the targets are the fixed-order cores <Float,D,O>; under default/`case D` the "
           "per-dimension cores <Float,D>; under default the generic cores; the scalar and the vector pointer of one arm name the same "
           "(D, O); Float is the function's own; switches are on the constant order and on ndim", floor=58 if variant is None else 2)
    C.rule("DP-2", "both pointers are assigned on every path to the return (evaluator_type's constructor leaves them uninitialised), and no "
           "arm falls through into another arm's assignments", floor=2)
    C.rule("DP-3", "known mixed-order arms: the guard list orders_are(*this,{o...}) and the template list <Float,o...> are identical, for both pointers", floor=2 if variant is None else 0)
    C.rule("DP-4", "the constant order fed to the dispatch is order[0] when all orders agree and 0 otherwise", floor=2)
    if variant is None:
        dp8(P, C)
    funcs = P.variants.get(variant, {}).values() if variant else P.functions.values()
    fs = sorted([f for f in funcs if f.name == "get_evaluator" and f.unit == (variant or "driver")], key=lambda f: str(f.targs))
    if len(fs) != 2:
        raise core.AnalysisBroken("get_evaluator%s: expected float and double instantiations, found %d" % (tag, len(fs)))
    for f in fs:
        Float = f.targs[0]
        name = "get_evaluator<%s>%s" % (Float, tag)
        sws = [i for i in f.walk() if f.k(i) == "SwitchStmt"]
        outer = [s for s in sws if not any(f.k(a) == "SwitchStmt" for a in f.ancestors(s))]
        if len(outer) != 1:
            raise core.AnalysisBroken("%s: expected one outer switch" % name)
        outer = outer[0]
        oc = f.strip(f.nodes[outer]["cond"])
        ocv = f.nodes[oc]["decl"]["id"] if f.k(oc) == "DeclRefExpr" else None
        asg = assignments(f)
        pairs = {}
        for a in asg:
            i = a["node"]
            inner = next((s for s in f.ancestors(i) if f.k(s) == "SwitchStmt"), None)
            if inner is None:
                a["labels"] = None
                continue
            if inner == outer:
                a["labels"] = (governing_label(f, i, outer), None)
            else:
                a["labels"] = (governing_label(f, inner, outer), governing_label(f, i, inner))
                ic = f.render(f.nodes[inner]["cond"]).replace("this->", "")
                a["inner_cond"] = ic
            fn = a["fn"]
            vec = a["ptr"] == "v_eval_ptr"
            O, D = a["labels"]
            ok = fn is not None
            want = None
            if ok:
                ta = fn.get("targs", [])
                if O != "default" and D not in (None, "default"):
                    want = (FIXED[vec], [Float, D, O])
                elif O == "default" and D not in (None, "default"):
                    want = (PER_D[vec], [Float, D])
                else:
                    want = (GENERIC[vec], [Float])
                ok = fn["name"] == want[0] and ta == want[1] and a.get("inner_cond", "ndim") == "ndim"
            C.ob("DP-1", name, "%s@case(%s,%s)" % (a["ptr"], O, D), ok, f.loc(i),
                 "assigned &%s<%s>; required %s<%s>" % (fn["name"] if fn else "?", ",".join(str(t) for t in (fn.get("targs", []) if fn else [])),
                                                        want[0] if want else "?", ",".join(str(t) for t in want[1]) if want else "?"))
            pairs.setdefault(a["labels"], {})[a["ptr"]] = fn
        # scalar/vector pair agreement per arm
        for lab, d in sorted(pairs.items(), key=str):
            ok = set(d) == {"eval_ptr", "v_eval_ptr"} and d["eval_ptr"] and d["v_eval_ptr"] and \
                d["eval_ptr"].get("targs") == d["v_eval_ptr"].get("targs")
            C.ob("DP-1", name, "pair@case%s" % (lab,), ok, f.where(), "scalar and vector pointer of the arm agree on (Float, D, O): %s / %s" % (
                d.get("eval_ptr", {}).get("targs") if d.get("eval_ptr") else None, d.get("v_eval_ptr", {}).get("targs") if d.get("v_eval_ptr") else None))
        # DP-2 definite assignment + no fall-through
        def transfer(st, e, b, j):
            if e.get("kind") != "stmt":
                return st
            if f.k(e["n"]) == "CXXThrowExpr":
                return frozenset({"eval_ptr", "v_eval_ptr"})     # a path that throws (refusal of an empty table) does not reach the return
            for a in asg:
                if a["node"] == e["n"]:
                    return st | {a["ptr"]}
            return st
        IN, OUT = core.dataflow(f, frozenset(), transfer, lambda a, b: a & b)
        at_exit = IN.get(f.cfg["exit"], frozenset())
        C.ob("DP-2", name, "definitely-assigned", at_exit >= {"eval_ptr", "v_eval_ptr"}, f.where(),
             "pointers assigned on every path to the return: %s" % sorted(at_exit))
        pos = f.node_positions()
        ft = []
        inside = [a for a in asg if a["labels"] is not None]
        for a in inside:
            for b2 in inside:
                if a is b2 or a["ptr"] != b2["ptr"]:
                    continue
                (ba, ja), (bb, jb) = pos[a["node"]], pos[b2["node"]]
                if (ba == bb and ja < jb) or (ba != bb and bb in f.reachable_blocks(ba)):
                    ft.append((a, b2))
        C.ob("DP-2", name, "no-fall-through", not ft, f.loc(ft[0][0]["node"]) if ft else f.where(),
             "no dispatch arm runs on into another arm's assignment of the same pointer: %s" % [(f.loc(a["node"]), f.loc(b["node"])) for a, b in ft][:2])
        # DP-3 known order arms
        for a in [a for a in asg if a["labels"] is None]:
            i = a["node"]
            ifs = [x for x in f.ancestors(i) if f.k(x) == "IfStmt"]
            ok = False
            det = "assignment outside the switch without a guard"
            if ifs and a["fn"]:
                # the innermost if whose then-branch contains the assignment
                g = next((x for x in ifs if i in set(f.walk(f.nodes[x]["then"]))), None)
                if g is not None:
                    cnd = f.strip(f.nodes[g]["cond"])
                    cal = f.nodes[cnd].get("callee")
                    lst = []
                    if cal and cal["name"] == "orders_are":
                        for x in f.walk(f.args(cnd)[1]):
                            if f.k(x) == "InitListExpr":
                                lst = [f.nodes[y].get("cv") for y in f.ch(x)]
                                break
                    vec = a["ptr"] == "v_eval_ptr"
                    ta = a["fn"].get("targs", [])
                    tl = ta[1] if len(ta) > 1 and isinstance(ta[1], list) else ta[1:]
                    ok = a["fn"]["name"] == KNOWN[vec] and ta and ta[0] == Float and list(tl) == lst and len(lst) > 0
                    det = "guard orders_are{%s}, target %s<%s>" % (lst, a["fn"]["name"], ta)
            C.ob("DP-3", name, "%s@known" % a["ptr"] + str(a["fn"].get("targs") if a["fn"] else ""), ok, f.loc(i), det)
        # DP-4 constOrder computation
        init = None
        for i in f.walk():
            if f.k(i) == "DeclStmt":
                for d in f.nodes[i]["decls"]:
                    if d.get("id") == ocv and d.get("init", -1) >= 0:
                        init = f.render(d["init"]).replace("this->", "")
        loops = [i for i in f.walk() if f.k(i) == "ForStmt"]
        okc = False
        det = "init %s" % init
        if loops and init == "order[0]":
            L = loops[0]
            txt, order = f.alpha(L)
            want = "ForStmt(unsigned int v0 = 1, (v0 < ndim), (v0++), IfStmt((order[v0] != v1), CompoundStmt((v1 = 0), BreakStmt)))"
            okc = txt == want and order[1] == ocv
            det = "constant order = order[0] unless some order[j] differs, then 0: %s" % txt[:150]
        if not okc:
            # the same computation in a helper or a local lambda that returns early: `first = A[0]; for (j = 1; j < N; j++) if (A[j] != first)
            # return 0; return first;` called with (order, ndim) — or, for a lambda / member helper, reading this->order and this->ndim itself
            helper = _common_order_helper(P, f, ocv)
            if helper:
                okc, det = True, "constant order from %s: order[0] when every order[j], 1 <= j < ndim, equals it, else 0" % helper
        if not okc:
            okc2, det2 = _common_order_all_of(P, f, ocv)
            if okc2:
                okc, det = okc2, det2
        C.ob("DP-4", name, "constant-order", okc, f.where(), det)


def _common_order_all_of(P, f, ocv):
    """`u = std::all_of(order + 1, order + ndim, [first](o){ return o == first; }); constOrder = u ? first : 0;` with first = order[0]"""
    R = lambda x: f.render(x).replace("this->", "").replace(" ", "")       # noqa: E731
    decl = {d["id"]: d for i in f.walk() if f.k(i) == "DeclStmt" for d in f.nodes[i]["decls"] if "id" in d}
    d = decl.get(ocv)
    if not d or d.get("init", -1) < 0:
        return False, ""
    c = f.strip(d["init"])
    if f.k(c) != "ConditionalOperator" or len(f.ch(c)) != 3:
        return False, ""
    cond, a, b = (f.strip(x) for x in f.ch(c))

    def value_of(x):
        """the expression a never-reassigned local stands for (one step), else its own text"""
        if f.k(x) == "DeclRefExpr" and f.nodes[x]["decl"].get("kind") == "Var":
            dd = decl.get(f.nodes[x]["decl"].get("id"))
            stores = [y for y in f.walk() if ts.assign_parts(f, y) and f.k(f.strip(ts.assign_parts(f, y)[0])) == "DeclRefExpr" and
                      f.nodes[f.strip(ts.assign_parts(f, y)[0])]["decl"].get("id") == f.nodes[x]["decl"].get("id") and f.k(y) != "DeclStmt"]
            if dd and dd.get("init", -1) >= 0 and not stores:
                return f.strip(dd["init"])
        return x
    if R(value_of(a)) != "order[0]" or R(b) != "0":
        return False, ""
    call = value_of(cond)
    cal = f.nodes[call].get("callee") or {}
    if call == cond or cal.get("name") != "all_of" or not str(cal.get("qname", "")).startswith("std::"):
        return False, ""
    args = f.args(call)
    if len(args) != 3 or R(args[0]) not in ("(order+1)", "(&order[1])") or R(args[1]) not in ("(order+ndim)", "(&order[ndim])"):
        return False, "std::all_of over %s .. %s: not the orders of dimensions 1 .. ndim-1" % (R(args[0]) if args else "?", R(args[1]) if len(args) > 1 else "?")
    lam = next((x for x in f.walk(args[2]) if f.k(x) == "LambdaExpr"), None)
    g = P.functions.get(f.nodes[lam].get("lambdaUsr")) if lam is not None else None
    if g is None or len(g.params) != 1 or g.body is None:
        return False, "the predicate of std::all_of cannot be inspected"
    kids = [x for x in g.ch(g.body)] if g.k(g.body) == "CompoundStmt" else []
    if len(kids) != 1 or g.k(kids[0]) != "ReturnStmt" or not g.ch(kids[0]):
        return False, "the predicate of std::all_of is not a single comparison"
    e = g.strip(g.ch(kids[0])[0])
    if g.k(e) != "BinaryOperator" or g.nodes[e].get("op") != "==":
        return False, "the predicate of std::all_of is not an equality"
    l, r = (g.strip(x) for x in g.nodes[e]["ch"])
    sides = []
    for x in (l, r):
        if g.k(x) == "DeclRefExpr" and g.nodes[x]["decl"].get("id") == g.params[0]["id"]:
            sides.append("element")
        elif g.k(x) == "DeclRefExpr" and g.nodes[x]["decl"].get("kind") == "Var":
            # a captured local of the caller: what it stands for there
            cap = next((y for y in range(len(f.nodes)) if f.k(y) == "DeclStmt" and not f.nodes[y].get("foldedFrom")
                        for dd in f.nodes[y]["decls"] if dd.get("name") == g.nodes[x]["decl"].get("name")), None)     # also one that N6 took out of the tree
            dd = next((dd for dd in f.nodes[cap]["decls"] if dd.get("name") == g.nodes[x]["decl"].get("name")), None) if cap is not None else None
            sides.append(R(dd["init"]) if dd and dd.get("init", -1) >= 0 and "const" in dd.get("type", "") else "?")
        else:
            sides.append(g.render(x).replace("this->", "").replace(" ", ""))
    ok = sorted(sides) == sorted(["element", "order[0]"])
    return ok, "constant order = order[0] when std::all_of(order+1, order+ndim, o == order[0]), else 0: %s" % sides


def _common_order_helper(P, f, ocv):
    init = None
    for i in f.walk():
        if f.k(i) == "DeclStmt":
            for d in f.nodes[i]["decls"]:
                if d.get("id") == ocv and d.get("init", -1) >= 0:
                    init = f.strip(d["init"])
    if init is None:
        return None
    n = f.nodes[init]
    cal = n.get("callee")
    if not cal:
        return None
    g = None
    for cand in P.functions.values():
        if cand.usr == cal.get("usr") and cand.body is not None and cand.body >= 0:
            g = cand
    if g is None:
        for fm in P.variants.values():
            if cal.get("usr") in fm:
                g = fm[cal["usr"]]
    if g is None:
        return None
    args = [f.render(a).replace("this->", "").replace(" ", "") for a in (f.args(init) if n["k"] != "CXXOperatorCallExpr" else n["ch"][2:])]
    # names of the array and the count inside the helper
    if len(g.params) == 2:
        if args != ["order", "ndim"]:
            return None
        A, N = g.params[0]["name"], g.params[1]["name"]
    elif len(g.params) == 0:
        A, N = "order", "ndim"
    else:
        return None
    kids = [x for x in g.ch(g.body)]
    R = lambda x: g.render(x).replace("this->", "").replace(" ", "")       # noqa: E731
    if len(kids) == 3 and g.k(kids[0]) == "DeclStmt" and g.k(kids[1]) == "ForStmt" and g.k(kids[2]) == "ReturnStmt":
        d0 = g.nodes[kids[0]]["decls"][0]
        if d0.get("init", -1) < 0 or R(d0["init"]) != "%s[0]" % A:
            return None
        first = d0["name"]
    elif len(kids) == 2 and g.k(kids[0]) == "ForStmt" and g.k(kids[1]) == "ReturnStmt":
        first = "%s[0]" % A            # the local naming A[0] was a const and has been replaced by what it names (N6)
        kids = [None] + kids
    else:
        return None
    L = g.nodes[kids[1]]
    iv = g.nodes[L["init"]]["decls"][0] if L.get("init", -1) >= 0 and g.k(L["init"]) == "DeclStmt" else None
    if iv is None or g.nodes[g.strip(iv["init"])].get("cv", g.nodes[g.strip(iv["init"])].get("v")) != 1:
        return None
    j = iv["name"]
    if R(L["cond"]) != "(%s<%s)" % (j, N) or R(L["inc"]) != "(%s++)" % j:
        return None
    body = L["body"]
    st = g.ch(body)[0] if g.k(body) == "CompoundStmt" and len(g.ch(body)) == 1 else body
    if g.k(st) != "IfStmt" or g.nodes[st].get("else", -1) >= 0 or R(g.nodes[st]["cond"]) not in ("(%s[%s]!=%s)" % (A, j, first), "(%s!=%s[%s])" % (first, A, j)):
        return None
    rets = [x for x in g.walk(g.nodes[st]["then"]) if g.k(x) == "ReturnStmt"]
    if len(rets) != 1 or g.nodes[g.strip(g.ch(rets[0])[0])].get("cv", g.nodes[g.strip(g.ch(rets[0])[0])].get("v")) != 0:
        return None
    if R(g.ch(kids[2])[0]) not in (first, "(%s)" % first):
        return None
    return "%s()" % (g.name if g.kind != "lambda" else "a local lambda")


def dp7(P, C):
    C.rule("DP-7", "for each instantiated known-order core the constexpr nchunks / chunk (clang's constant evaluator) equal the product of "
           "(o_i+1) over all but the last dimension and o_last+1; D equals the pack length", floor=4)
    cores = [f for f in P.functions.values() if f.unit == "driver" and f.name in KNOWN]
    if len(cores) < 4:
        raise core.AnalysisBroken("known-order cores: %d instantiations" % len(cores))
    for f in sorted(cores, key=lambda f: (f.name, str(f.targs))):
        ta = f.targs
        orders = ta[1] if len(ta) > 1 and isinstance(ta[1], list) else ta[1:]
        vals = {}
        core_signature(f)                 # establishes the roles of the locals (by what they do, not by their names)
        roles = getattr(f, "_core_roles", {})
        for i in f.walk():
            if f.k(i) == "DeclStmt":
                for d in f.nodes[i]["decls"]:
                    role = roles.get(d.get("id"), d.get("name"))
                    if role in ("nchunks", "chunk", "D") and d.get("init", -1) >= 0:
                        vals[role] = f.nodes[d["init"]].get("cv")
        prod = 1
        for o in orders[:-1]:
            prod *= (o + 1)
        ok = vals.get("nchunks") == prod and vals.get("chunk") == orders[-1] + 1 and vals.get("D") == len(orders)
        C.ob("DP-7", "%s<%s>" % (f.name, ",".join(str(t) for t in ta)), "constexpr", ok, f.where(),
             "nchunks=%s (required %d), chunk=%s (required %d), D=%s (required %d)" % (vals.get("nchunks"), prod, vals.get("chunk"), orders[-1] + 1, vals.get("D"), len(orders)))


def dp8(P, C):
    C.rule("DP-8", "orders_are, the predicate that admits a table to a known-order specialisation, compares position by position: false on a length "
           "mismatch, false at the first dimension whose order differs from the list element at the same position (one counter from 0, "
           "advanced once per element), true otherwise — the known-order cores fix the order of each *position* at compile time", floor=3)
    fs = [g for g in P.fns("orders_are") if g.unit == "driver"]
    if not fs:
        raise core.AnalysisBroken("DP-8: orders_are not found")
    f = fs[0]
    kids = [c for c in f.ch(f.body) if c >= 0]
    txt = [f.alpha(c)[0].replace(" ", "") for c in kids]
    ok1 = len(kids) >= 1 and txt[0] == "IfStmt(($1.size()!=$0.get_ndim()),return0)"
    C.ob("DP-8", "orders_are", "length-first", ok1, f.loc(kids[0]) if kids else f.where(), "first statement rejects a list of the wrong length: %s" % (txt[0] if txt else None))
    loops = [c for c in kids if f.k(c) == "CXXForRangeStmt"]
    ok2 = False
    det = "no range-for over the list"
    if len(loops) == 1:
        whole, order = f.alpha(f.body)
        whole = whole.replace(" ", "")
        # numbering over the whole body: v0 the counter, v1..v3 the range-for's hidden range/begin/end, v4 the element
        m = re.search(r"CXXForRangeStmt\((.*)\),return1\)$", whole)
        loop_txt = m.group(1) if m else ""
        head_ok = loop_txt.startswith("conststd::initializer_list<unsignedint>&v1=$1,") and ",(v2!=v3),(++v2)," in loop_txt
        body_ok = loop_txt.endswith("CompoundStmt(IfStmt(($0.get_order(v0)!=v4),return0),(v0++))") or \
            loop_txt.endswith("CompoundStmt(IfStmt(($0.get_order(v0)!=v4),return0),(++v0))")
        elem_ok = "v4=(*v2)" in loop_txt
        cnt = order[0] if order else None
        ini = None
        for c in kids:
            if f.k(c) == "DeclStmt":
                for d in f.nodes[c]["decls"]:
                    if d.get("id") == cnt and d.get("init", -1) >= 0:
                        ini = f.nodes[f.strip(d["init"])].get("cv")
        ok2 = head_ok and body_ok and elem_ok and ini == 0
        det = "range-for over the list (%s); element = *iterator (%s); body compares get_order(counter) with the element and advances the counter (%s); counter starts at %s" % (
            head_ok, elem_ok, body_ok, ini)
    C.ob("DP-8", "orders_are", "position-wise", ok2, f.loc(loops[0]) if loops else f.where(), det)
    rets = [f.alpha(i)[0].replace(" ", "") for i in f.walk() if f.k(i) == "ReturnStmt"]
    calls_ = sorted(set(cal["name"] for i, cal in f.calls() if cal))
    ok3 = txt and txt[-1] == "return1" and rets.count("return1") == 1 and set(calls_) <= {"size", "get_ndim", "get_order", "begin", "end", "operator!=", "operator++", "operator*"}
    C.ob("DP-8", "orders_are", "true-only-at-the-end", bool(ok3), f.where(),
         "returns true only after every position matched; no other comparison routine is called (calls: %s)" % calls_)


# ------------------------------------------------------------------ CL-1 core clones
def canon_stmt(f, i, lane=None, subst=None):
    """canonical text of a statement of an evaluation core."""
    t, order = f.alpha(i)
    # restore constexpr / template names that alpha() numbered (they are rendered by name through SubstNTTP already)
    names = {}
    for k, vid in enumerate(order):
        nm = f.var_name(vid)
        names["v%d" % k] = nm
    return t, names


def core_roles(f, lane_vars=()):
    """declaration id -> canonical role name for the locals and parameters of an evaluation core, found by what each does (not by its
    name): the position accumulator is what indexes `coefficients`, the result is what the accumulate statement adds to, and so on.
    A declaration whose role cannot be established keeps its own name (and then fails the phase comparison, which is the alarm)."""
    roles = {}

    def vid(i):
        i = f.strip(i)
        return f.nodes[i]["decl"]["id"] if f.k(i) == "DeclRefExpr" else None

    def raw_sub(i):
        n = f.nodes[i]
        if n["k"] == "ArraySubscriptExpr":
            return f.strip(n["ch"][0]), f.strip(n["ch"][1])
        if n["k"] == "CXXOperatorCallExpr" and n.get("opcall") == "[]":
            return f.strip(n["ch"][1]), f.strip(n["ch"][2])
        return None

    def is_lane(i):
        r = raw_sub(i)
        return bool(r) and f.k(r[1]) == "DeclRefExpr" and f.nodes[r[1]]["decl"].get("id") in lane_vars

    def sub_parts(i):
        """(base node, index node) of a subscript, for plain arrays and operator[]; SIMD lane subscripts are transparent"""
        if i < 0:
            return None
        while is_lane(i):
            i = raw_sub(i)[0]
        r = raw_sub(i)
        if not r:
            return None
        b = r[0]
        while is_lane(b):
            b = raw_sub(b)[0]
        return b, r[1]

    def base_member(i):
        sp = sub_parts(i)
        return f.nodes[sp[0]].get("member") if sp and f.k(sp[0]) == "MemberExpr" else None
    coef_reads = [i for i in f.walk() if base_member(i) == "coefficients"]
    for c in coef_reads:
        idx = sub_parts(c)[1]
        if f.k(idx) == "BinaryOperator" and f.nodes[idx]["op"] == "+":
            a, b = vid(f.nodes[idx]["ch"][0]), vid(f.nodes[idx]["ch"][1])
            if a is not None:
                roles.setdefault(a, "tablepos")
            if b is not None:
                roles.setdefault(b, "i")
        # weights := coefficients[...]
        par = f.parent[c]
        while par >= 0 and f.k(par) in core.IMPLICIT_ONLY:
            par = f.parent[par]
        if par >= 0 and f.k(par) == "CallExpr" and (f.nodes[par].get("callee") or {}).get("name") == "init":
            w = vid(f.args(par)[0])
            if w is not None:
                roles.setdefault(w, "weights")
    wid = [k for k, v in roles.items() if v == "weights"]
    # accumulate statement: `R += ... * (coefficient read | weights)`
    for i in f.walk():
        n = f.nodes[i]
        if n["k"] == "CompoundAssignOperator" and n["op"] == "+=" or (n["k"] == "CXXOperatorCallExpr" and n.get("opcall") == "+="):
            lhs, rhs = (n["ch"][0], n["ch"][1]) if n["k"] == "CompoundAssignOperator" else (n["ch"][1], n["ch"][2])
            inner = set(f.walk(rhs))
            if not (any(c in inner for c in coef_reads) or any(vid(x) in wid for x in inner if f.k(x) == "DeclRefExpr")):
                continue
            t = f.strip(lhs)
            while sub_parts(t):
                t = sub_parts(t)[0]
            if vid(t) is not None:
                roles.setdefault(vid(t), "result")
            for x in inner:
                sp = sub_parts(x)
                if not sp:
                    continue
                if sub_parts(sp[0]):                               # two levels: localbasis[d][i]
                    b = sub_parts(sp[0])[0]
                    if vid(b) is not None:
                        roles.setdefault(vid(b), "localbasis")
                elif vid(sp[0]) is not None and vid(sp[0]) not in roles and base_member(x) is None and not is_lane(x):
                    # one level only: not itself the base of a further (non-lane) subscript
                    par = f.parent[x]
                    while par >= 0 and (f.k(par) in core.IMPLICIT_ONLY or f.k(par) == "ParenExpr" or is_lane(par)):
                        par = f.parent[par]
                    if not (par >= 0 and raw_sub(par) and not is_lane(par)):
                        roles.setdefault(vid(sp[0]), "basis_tree")
    tp = [k for k, v in roles.items() if v == "tablepos"]
    # position seed: tablepos += (P[n] - order)*strides[n]; sibling A[n] = 0; the enclosing loop's variable
    for i in f.walk():
        n = f.nodes[i]
        if n["k"] == "CompoundAssignOperator" and n["op"] == "+=" and vid(n["ch"][0]) in tp:
            for x in f.walk(n["ch"][1]):
                sp = sub_parts(x)
                if sp and vid(sp[0]) is not None and f.nodes[f.strip(sp[0])]["decl"]["kind"] == "ParmVar" and vid(sp[0]) not in roles:
                    roles[vid(sp[0])] = "centers"
                    L = next((a for a in f.ancestors(i) if f.k(a) == "ForStmt"), None)
                    if L is not None:
                        for y in f.walk(f.nodes[L]["body"]):
                            ap = f.nodes[y]
                            if ap["k"] == "BinaryOperator" and ap["op"] == "=" and sub_parts(f.strip(ap["ch"][0])) and f.nodes[f.strip(ap["ch"][1])].get("cv") == 0:
                                a = vid(sub_parts(f.strip(ap["ch"][0]))[0])
                                if a is not None:
                                    roles.setdefault(a, "decomposedposition")
    # chunk count: the scalar that is multiplied up
    for i in f.walk():
        n = f.nodes[i]
        if n["k"] == "CompoundAssignOperator" and n["op"] == "*=" and vid(n["ch"][0]) is not None:
            roles.setdefault(vid(n["ch"][0]), "nchunks")
    # ... or that is defined from the compile-time product nchunks<...>() (known-order cores)
    for i in f.walk():
        if f.k(i) == "DeclStmt":
            for d in f.nodes[i]["decls"]:
                if d.get("init", -1) >= 0 and any((f.nodes[y].get("callee") or {}).get("name") == "nchunks" for y in f.walk(d["init"])):
                    roles.setdefault(d["id"], "nchunks")
    nch = [k for k, v in roles.items() if v == "nchunks"]
    dp_ = [k for k, v in roles.items() if v == "decomposedposition"]
    bt = [k for k, v in roles.items() if v == "basis_tree"]
    # loop variables by what their loop does
    for L in f.walk():
        if f.k(L) != "ForStmt":
            continue
        n = f.nodes[L]
        lv = None
        ini = n.get("init", -1)
        if ini >= 0 and f.k(ini) == "DeclStmt" and f.nodes[ini]["decls"]:
            lv = f.nodes[ini]["decls"][0]["id"]
        elif ini >= 0:
            a = f.strip(ini)
            if f.k(a) == "BinaryOperator" and f.nodes[a]["op"] == "=":
                lv = vid(f.nodes[a]["ch"][0])
        if lv is None or lv in roles:
            continue
        body = list(f.walk(n["body"])) if n.get("body", -1) >= 0 else []
        cond = list(f.walk(n["cond"])) if n.get("cond", -1) >= 0 else []
        direct = [y for y in body if not any(f.k(a) == "ForStmt" and a != L and a in set(f.ancestors(y)) and L in set(f.ancestors(a)) for a in f.ancestors(y))]
        def assigns_elem_of(ids, nodes):
            for y in nodes:
                m = f.nodes[y]
                if m["k"] == "BinaryOperator" and m["op"] == "=" and sub_parts(f.strip(m["ch"][0])) and vid(sub_parts(f.strip(m["ch"][0]))[0]) in ids:
                    return True
            return False
        if any(f.k(y) == "CompoundAssignOperator" and f.nodes[y]["op"] == "+=" and vid(f.nodes[y]["ch"][0]) in tp and
               any(sub_parts(z) and vid(sub_parts(z)[0]) in [k for k, v in roles.items() if v == "centers"] for z in f.walk(y)) for y in direct):
            roles[lv] = "n"                                        # seed loop
        elif any(f.k(y) == "CompoundAssignOperator" and f.nodes[y]["op"] == "*=" and vid(f.nodes[y]["ch"][0]) in nch for y in direct):
            roles[lv] = "n"                                        # chunk-count loop
        elif any(f.k(y) == "BinaryOperator" and f.nodes[y]["op"] == ">" and sub_parts(f.strip(f.nodes[y]["ch"][0])) and
                 vid(sub_parts(f.strip(f.nodes[y]["ch"][0]))[0]) in dp_ for y in cond):
            roles[lv] = "i"                                        # carry loop
        elif assigns_elem_of(bt, direct) and any(sub_parts(z) and vid(sub_parts(z)[0]) in dp_ for y in direct for z in f.walk(y)):
            roles[lv] = "j"                                        # refresh loop
        elif assigns_elem_of(bt, direct):
            roles[lv] = "n"                                        # tree seed loop
        elif any(vid(y) in nch for y in cond if f.k(y) == "DeclRefExpr") or any((f.nodes[y].get("callee") or {}).get("name") == "nchunks" for y in cond):
            roles[lv] = "n"                                        # driver loop (for-form)
    # accumulate loop bound held in a local (known-order cores)
    for L in f.walk():
        if f.k(L) == "ForStmt" and f.nodes[L].get("cond", -1) >= 0:
            c = f.nodes[f.strip(f.nodes[L]["cond"])]
            if c["k"] == "BinaryOperator" and c["op"] == "<" and roles.get(vid(c["ch"][0])) == "i":
                b = f.strip(c["ch"][1])
                if f.k(b) == "DeclRefExpr" and f.nodes[b]["decl"]["kind"] == "Var" and vid(b) not in roles and "cv" not in f.nodes[b]:
                    roles[vid(b)] = "chunk"
                elif f.k(b) == "DeclRefExpr" and f.nodes[b]["decl"]["kind"] == "Var" and vid(b) not in roles and f.nodes[b]["decl"]["name"] not in ("D", "VC"):
                    roles[vid(b)] = "chunk"
    # while-form counter: `if (++v == nchunks) break`
    for y in f.walk():
        m = f.nodes[y]
        if m["k"] == "BinaryOperator" and m["op"] == "==" and vid(m["ch"][1]) in nch:
            u = f.strip(m["ch"][0])
            if f.k(u) == "UnaryOperator" and vid(f.nodes[u]["ch"][0]) is not None:
                roles.setdefault(vid(f.nodes[u]["ch"][0]), "n")
    return roles


def core_signature(f):
    """ordered list of canonical statements of one evaluation core (scalar or vector), modulo the documented substitutions."""
    f._core_roles = {}
    is_vec = "multibasis" in f.name
    ta = f.targs
    out = []
    lane_vars = set()
    # identify the lane loop variable(s): for (k = 0; k < VC|NVECS; k++)
    if is_vec:
        for i in f.walk():
            if f.k(i) == "ForStmt":
                cn = f.strip(f.nodes[i]["cond"])
                if f.k(cn) == "CallExpr":      # __builtin_expect(cond, k)
                    cn = f.strip(f.args(cn)[0])
                if f.k(cn) == "BinaryOperator" and f.nodes[cn]["op"] == "<":
                    rhs = f.strip(f.nodes[cn]["ch"][1], casts=False)
                    const_bound = (f.k(rhs) == "DeclRefExpr" and f.nodes[rhs]["decl"]["name"] == "VC") or \
                        any("PHOTOSPLINE_NVECS" in (f.nodes[x].get("macros") or []) for x in f.walk(rhs))
                    init = f.nodes[i]["init"]
                    if const_bound and init >= 0 and f.k(init) == "DeclStmt":
                        lane_vars.add(f.nodes[init]["decls"][0]["id"])
    f._core_roles = core_roles(f, lane_vars)
    stmts = []

    def is_stmt_position(i):
        par = f.parent[i]
        while par >= 0 and f.k(par) in core.IMPLICIT_ONLY:
            i, par = par, f.parent[par]
        if par < 0:
            return False
        pk = f.k(par)
        if pk == "CompoundStmt":
            return True
        if pk in ("ForStmt", "WhileStmt"):
            return f.nodes[par].get("body") == i
        if pk == "IfStmt":
            return f.nodes[par].get("then") == i or f.nodes[par].get("else") == i
        return False
    for i in f.walk():
        k = f.k(i)
        if k in ("BinaryOperator", "CompoundAssignOperator") and f.nodes[i]["op"].endswith("=") and f.nodes[i]["op"] not in ("==", "!=", "<=", ">="):
            if is_stmt_position(i):
                stmts.append(i)
        elif k == "UnaryOperator" and f.nodes[i]["op"] in ("++", "--"):
            if is_stmt_position(i):
                stmts.append(i)
        elif k == "CallExpr" and (f.nodes[i].get("callee") or {}).get("name") == "init" and is_stmt_position(i):
            stmts.append(i)
        elif k in ("ForStmt", "WhileStmt"):
            stmts.append(i)
        elif k == "IfStmt" and any(f.k(x) == "BreakStmt" for x in f.ch(f.nodes[i]["then"]) + [f.nodes[i]["then"]]):
            stmts.append(i)
    texts = []
    for i in stmts:
        k = f.k(i)
        if k == "ForStmt":
            n = f.nodes[i]
            init = f.nodes[n["init"]] if n.get("init", -1) >= 0 else None
            iv = None
            if init and init["k"] == "DeclStmt":
                iv = init["decls"][0]["id"]
            if iv in lane_vars:
                continue
            ini = _c(f, n.get("init", -1), lane_vars)
            if ini.startswith("(") and ini.endswith(")"):
                ini = ini[1:-1]
            t = "for(%s; %s; %s)" % (ini, _c(f, n.get("cond", -1), lane_vars), _c(f, n.get("inc", -1), lane_vars))
        elif k == "WhileStmt":
            t = "while(%s)" % _c(f, f.nodes[i]["cond"], lane_vars)
        elif k == "IfStmt":
            t = "if(%s) break" % _c(f, f.nodes[i]["cond"], lane_vars)
        else:
            t = _c(f, i, lane_vars)
        texts.append(t)
    return texts


def _c(f, i, lane_vars):
    if i < 0:
        return ""
    t = _render_core(f, i, lane_vars)
    return t


def _render_core(f, i, lane_vars):
    """renderer for evaluation cores: drops casts, lane subscripts, __builtin_expect; names template parameters canonically."""
    n = f.nodes[i]
    k = n["k"]
    ch = f.ch(i)
    R = lambda x: _render_core(f, x, lane_vars)   # noqa: E731
    if k in core.IMPLICIT_ONLY or k in ("CStyleCastExpr", "CXXFunctionalCastExpr", "CXXStaticCastExpr", "ConstantExpr"):
        return R(ch[0]) if ch else ""
    if k == "SubstNonTypeTemplateParmExpr":
        p = n.get("param")
        return "NDIM" if p == "D" else "ORD"     # the cores have two kinds of non-type parameters: dimension count and order
    if k == "SizeOfPackExpr":
        return "NDIM"
    roles = getattr(f, "_core_roles", {})
    if k == "DeclStmt":
        return "; ".join("%s = %s" % (roles.get(d.get("id"), d["name"]), R(d["init"])) if d.get("init", -1) >= 0 else roles.get(d.get("id"), d["name"])
                         for d in n["decls"] if d.get("dk") == "Var")
    if k == "DeclRefExpr":
        d = n["decl"]
        if d["kind"] == "Var" and d["name"] == "D" and "cv" in n:
            return "NDIM"
        if d["kind"] == "Var" and d["name"] in ("VC",):
            return "LANES"
        return roles.get(d.get("id"), d["name"])
    if k == "MemberExpr":
        if n["member"] == "ndim":
            return "NDIM"
        return n["member"]
    if k == "CXXThisExpr":
        return "this"
    if k in ("IntegerLiteral", "CXXBoolLiteralExpr"):
        return str(n.get("v"))
    if k == "FloatingLiteral":
        return "%g" % n.get("v")
    if k == "ArraySubscriptExpr":
        idx = f.strip(ch[1])
        if f.k(idx) == "DeclRefExpr" and f.nodes[idx]["decl"].get("id") in lane_vars:
            return R(ch[0])
        b = R(ch[0])
        if b == "order":
            return "ORD(%s)" % R(ch[1])
        return "%s[%s]" % (b, R(ch[1]))
    if k == "CXXOperatorCallExpr" and n.get("opcall") == "[]":
        return "%s[%s]" % (R(ch[1]), R(ch[2]))
    if k == "BinaryOperator" and n["op"] in ("+", "-"):
        # integer offsets are folded: (E - 1) - 1 is E - 2 (an index through a hoisted `last = ndim - 1` is the same index)
        def lit(x):
            x = f.strip(x)
            return f.nodes[x].get("v") if f.k(x) == "IntegerLiteral" else None
        off = 0
        e = i
        while f.k(e) == "BinaryOperator" and f.nodes[e]["op"] in ("+", "-") and lit(f.nodes[e]["ch"][1]) is not None:
            off += lit(f.nodes[e]["ch"][1]) if f.nodes[e]["op"] == "+" else -lit(f.nodes[e]["ch"][1])
            e = f.strip(f.nodes[e]["ch"][0])
        if e != i and f.strip(ch[0]) != e:
            base = R(e)
            return base if off == 0 else "(%s %s %d)" % (base, "+" if off > 0 else "-", abs(off))
    if k in ("BinaryOperator", "CompoundAssignOperator"):
        return "(%s %s %s)" % (R(ch[0]), n["op"], R(ch[1]))
    if k == "UnaryOperator":
        return ("(%s%s)" % (R(ch[0]), n["op"])) if n.get("postfix") else ("(%s%s)" % (n["op"], R(ch[0])))
    if k == "CallExpr":
        cal = n.get("callee") or {}
        if cal.get("name") == "__builtin_expect":
            return R(f.args(i)[0])
        if cal.get("name") in ("nchunks", "chunk"):
            return cal["name"] + "<>"
        if cal.get("name") == "init":
            a = f.args(i)
            return "%s := %s" % (R(a[0]), R(a[1]))
        return "%s(%s)" % (cal.get("name"), ", ".join(R(x) for x in f.args(i)))
    if k == "ParenExpr":
        return R(ch[0])
    return "%s(%s)" % (k, ", ".join(R(x) for x in ch))


def normalise_signature(texts, f):
    """apply the substitutions that define each specialisation so that all cores become comparable."""
    out = []
    is_vec = "multibasis" in f.name
    known = f.name in KNOWN
    for t in texts:
        t = t.replace("ORD)", "ORD(*))").replace("ORD ", "ORD(*) ").replace("ORD;", "ORD(*);")
        t = re.sub(r"\bORD\b(?!\()", "ORD(*)", t)
        if known:
            t = re.sub(r"\bchunk\b", "(ORD((NDIM - 1)) + 1)", t)
        # vector accumulate: weights := coefficients[...]; result += basis*localbasis*weights
        out.append(t)
    if is_vec:
        # fold `weights := coefficients[(tablepos + i)]` into the accumulate statement
        w = [t for t in out if t.startswith("weights := ")]
        if w:
            val = w[0][len("weights := "):]
            out = [t.replace("* weights)", "* %s)" % val) for t in out if not t.startswith("weights := ")]
        out = [t for t in out if not t.startswith("sp") and "alloca" not in t]
        # initial seed: basis_tree[0] := 1
        out = [re.sub(r"^basis_tree\[0\] := 1(\.0)?$", "(basis_tree[0] = 1)", t) for t in out]
    return out


def loop_form(texts):
    """recognise the two driver-loop forms and return a canonical sequence of phases."""
    t = list(texts)
    form = None
    if "while(1)" in t or "while(true)" in t:
        form = "while"
    elif any(x.startswith("for(n = 0; (n < (nchunks - 1))") or x.startswith("for(n = 0; (n < (nchunks<> - 1))") for x in t):
        form = "for"
    return form


def cl1(P, C):
    C.rule("CL-1", "the scalar and SIMD evaluation cores (generic, per-dimension, fixed-order, known-order) reduce to one kernel: same table-position "
           "seed, basis-tree seed, chunk count, accumulate statement and bound, stepping, carry loop and condition, basis-tree refresh — after "
           "the substitutions that define each specialisation (ndim|D -> NDIM, order[e]|O -> ORD(e), lane loops dropped, casts dropped, "
           "the two equivalent driver-loop forms)", floor=40)
    fs = [f for f in P.functions.values() if f.unit == "driver" and f.name in GENERIC + PER_D + FIXED + KNOWN]
    if len(fs) < 100:
        raise core.AnalysisBroken("evaluation cores: %d instantiations (expected 108)" % len(fs))
    ref = None
    sigs = {}
    for f in sorted(fs, key=lambda f: (f.name, str(f.targs))):
        sig = normalise_signature(core_signature(f), f)
        sigs[f.usr] = (f, sig)
    # reference phases are taken from the generic scalar core <float>
    g = [f for f in fs if f.name == "ndsplineeval_core" and f.targs == ["float"]][0]
    ref = phases(sigs[g.usr][1], g)
    # the reference itself must show every phase: a phase whose statement no longer has the expected shape would otherwise drop out of the
    # comparison altogether (found with own mutant c01-wrong-centre-passed: `centers[0]` in the generic core's seed went unnoticed)
    lacking = [key for key, _pat in PHASE_PATTERNS if key not in ref]
    C.ob("CL-1", "ndsplineeval_core<float>", "reference-phases-complete", not lacking, g.where(),
         "the generic core shows all %d phases in their expected shape (position seed (centers[n]-order[n])*strides[n] summed over n, tree seed, "
         "chunk count, accumulate, step, carry, refresh and their loops)" % len(PHASE_PATTERNS) if not lacking else
         "the generic core no longer shows phase(s) %s in the expected shape: %s" % (lacking, [t for t in sigs[g.usr][1] if "tablepos" in t or "basis_tree" in t][:6]))
    n = 0
    for usr, (f, sig) in sorted(sigs.items(), key=lambda kv: (kv[1][0].name, str(kv[1][0].targs))):
        ph = phases(sig, f)
        name = "%s<%s>" % (f.name, ",".join(str(t) for t in f.targs))
        diffs = []
        for key in ref:
            a, b = ref[key], ph.get(key)
            if key in ("chunk-count", "chunk-loop") and f.name in KNOWN:
                continue   # constexpr product, decided by DP-7
            if not same_phase(a, b, f):
                diffs.append("%s: %s  vs generic  %s" % (key, b, a))
        # every statement of a core belongs to a phase or to the driver loop: a statement that matches no phase (a loop bound off by
        # one, an extra store) would otherwise drop out of the comparison as long as a well-formed instance of its phase remains
        stray = [t for t in sig if not any(re.match(pat, t) for _k, pat in PHASE_PATTERNS) and t.replace(" ", "") not in DRIVER_STATEMENTS]
        if stray:
            diffs.append("statement(s) that belong to no phase of the generic core: %s" % stray[:3])
        n += 1
        C.ob("CL-1", name, "clone-of-generic", not diffs, f.where(),
             "all phases agree with ndsplineeval_core<float>" if not diffs else "; ".join(diffs)[:600])
    return n


DRIVER_STATEMENTS = {"(n=0)", "for(n=0;(n<(nchunks-1));(n++))", "for(n=0;(n<(nchunks<>-1));(n++))", "if(((++n)==nchunks))break", "if((++n)==nchunks)break",
                     "while(1)", "while(true)"}

PHASE_PATTERNS = [
    ("position-seed", r"^\(tablepos \+= \(\(centers\[n\] - ORD\((n|\*)\)\) \* strides\[n\]\)\)$"),
    ("position-reset", r"^\(decomposedposition\[n\] = 0\)$"),
    ("tree-seed-0", r"^\(basis_tree\[0\] = 1\)$"),
    ("tree-seed", r"^\(basis_tree\[\(n \+ 1\)\] = \(basis_tree\[n\] \* localbasis\[n\]\[0\]\)\)$"),
    ("chunk-count", r"^\(nchunks \*= \(ORD\((n|\*)\) \+ 1\)\)$"),
    ("accumulate", r"^\(result \+= \(\(basis_tree\[\(NDIM - 1\)\] \* localbasis\[\(NDIM - 1\)\]\[i\]\) \* coefficients\[\(tablepos \+ i\)\]\)\)$"),
    ("step-position", r"^\(tablepos \+= strides\[\(NDIM - 2\)\]\)$"),
    ("step-counter", r"^\(decomposedposition\[\(NDIM - 2\)\]\+\+\)$"),
    ("carry-up", r"^\(decomposedposition\[\(i - 1\)\]\+\+\)$"),
    ("carry-position", r"^\(tablepos \+= \(strides\[\(i - 1\)\] - \(decomposedposition\[i\] \* strides\[i\]\)\)\)$"),
    ("carry-reset", r"^\(decomposedposition\[i\] = 0\)$"),
    ("refresh", r"^\(basis_tree\[\(j \+ 1\)\] = \(basis_tree\[j\] \* localbasis\[j\]\[decomposedposition\[j\]\]\)\)$"),
    ("carry-loop", r"^for\(i = \(NDIM - 2\); \(ORD\((i|\*)\) < decomposedposition\[i\]\); \(i--\)\)$"),
    ("refresh-loop", r"^for\(j = i; \(j < \(NDIM - 1\)\); \(j\+\+\)\)$"),
    ("seed-loop", r"^for\(n = 0; \(n < NDIM\); \(n\+\+\)\)$"),
    ("chunk-loop", r"^for\(n = 0; \(n < \(NDIM - 1\)\); \(n\+\+\)\)$"),
    ("accumulate-loop", r"^for\(i = 0; \(i < \(ORD\((\(NDIM - 1\)|\*)\) \+ 1\)\); \(i\+\+\)\)$"),
]


def phases(sig, f):
    ph = {}
    for t in sig:
        for key, pat in PHASE_PATTERNS:
            if re.match(pat, t):
                ph.setdefault(key, []).append(t)
    # driver loop: both forms run the accumulate phase nchunks times and the stepping phases nchunks-1 times
    form = loop_form(sig)
    acc = [t for t in sig if re.match(PHASE_PATTERNS[5][1], t)]
    if form == "while":
        ok = "if((++n) == nchunks) break" in [x.replace("((++n) == nchunks)", "(++n) == nchunks") for x in sig] or \
            any(x.replace(" ", "") == "if(((++n)==nchunks))break" for x in sig)
        ph["driver-loop"] = ["accumulate x nchunks, step x (nchunks-1)"] if ok and len(acc) == 1 else ["while-form malformed: %s" % [x for x in sig if x.startswith("if(")]]
    elif form == "for":
        ph["driver-loop"] = ["accumulate x nchunks, step x (nchunks-1)"] if len(acc) == 2 else ["for-form malformed: accumulate appears %d time(s)" % len(acc)]
    else:
        ph["driver-loop"] = ["unrecognised driver loop"]
    return ph


def same_phase(a, b, f):
    if b is None:
        return False
    if a == b:
        return True
    # multiplicity: the for-form executes the accumulate loop/statement twice (in the loop and once after it); seed loops appear per phase
    sa, sb = set(a), set(b)
    if sa == sb:
        return True
    # ORD(*) (fixed order template parameter) matches ORD(index)
    na = set(re.sub(r"ORD\([^()]*(\([^()]*\))?[^()]*\)", "ORD", x) for x in sa)
    nb = set(re.sub(r"ORD\([^()]*(\([^()]*\))?[^()]*\)", "ORD", x) for x in sb)
    if na == nb and f.name in FIXED:
        return True
    return False


# ------------------------------------------------------------------ CL-2 / CL-4 entry points
def entry_points(P):
    names = ("ndsplineeval", "ndsplineeval_deriv", "ndsplineeval_gradient")
    out = []
    for f in P.functions.values():
        if f.unit == "driver" and f.name in names and "/include/photospline/detail/bspline_" in f.file and f.kind == "method":
            out.append(f)
    return out


def entry_text(f):
    """canonical body text of an entry point: table. -> this-> ; final call abstracted."""
    t, order = f.alpha(f.body)
    t = t.replace("table.", "")
    t = re.sub(r"\(\*\(table\.\*\(?eval_ptr\)?\)\)|\(?\(table\.\*\(?v?_?eval_ptr\)?\)\)?", "CORE", t)
    t = t.replace("this.ndsplineeval_core", "CORE").replace("this.ndsplineeval_multibasis_core", "CORE")
    return t


def cl2(P, C):
    C.rule("CL-2", "each evaluator entry point is a clone of the table's entry point (table. <-> this->) apart from the final core call "
           "(direct generic core vs. dispatched pointer); same Float in twin pairs", floor=4)
    eps = entry_points(P)
    table = {}
    evalr = {}
    for f in eps:
        is_ev = "evaluator_type" in (f.cls or "")
        Float = (re.findall(r"evaluator_type<(\w*)>", f.cls)[0] or "float") if is_ev else (f.targs[0] if f.targs else "float")
        (evalr if is_ev else table)[(f.name, Float)] = f
    if len(table) < 5 or len(evalr) < 6:
        raise core.AnalysisBroken("entry points: %d table, %d evaluator" % (len(table), len(evalr)))
    for key, fe in sorted(evalr.items()):
        ft = table.get(key)
        if ft is None and key[0] == "ndsplineeval_deriv":
            # the table has this entry only in float; the double evaluator is compared with Float substituted
            ft = table.get((key[0], "float"))
        if ft is None:
            C.ob("CL-2", "evaluator::%s<%s>" % key, "twin", False, fe.where(), "no table twin")
            continue
        a = _entry_norm(ft)
        b = _entry_norm(fe)
        if key[1] != "float" and key[0] == "ndsplineeval_deriv":
            a = a.replace("float", "double")
        ok = a == b
        det = "bodies identical up to the core call"
        if not ok:
            # first difference
            k = next((j for j in range(min(len(a), len(b))) if a[j] != b[j]), min(len(a), len(b)))
            det = "bodies differ near: table `%s` vs evaluator `%s`" % (a[max(0, k - 40):k + 60], b[max(0, k - 40):k + 60])
        C.ob("CL-2", "evaluator::%s<%s>" % key, "twin", ok, fe.where(), det)


def _entry_norm(f):
    lane = set()
    t = _render_stmt_tree(f, f.body)
    t = t.replace("table.", "")
    t = re.sub(r"\(\(?\*?\(?table\.\*\(?v?_?eval_ptr\)?\)?\)?\)", "CORE", t)
    return t


KERNELS = ("bsplvb_simple", "bspline_deriv_nonzero", "bspline_nonzero", "bspline_deriv")


def _selection_leaves(f, i):
    """the alternatives of a kernel-selection statement (an if / else-if chain or a switch whose arms call different kernels), without
    the conditions: which arm runs for which selector value is CL-4's obligation on each twin separately, so the twins are compared arm
    by arm whatever form the selection takes."""
    n = f.nodes[i]
    if n["k"] == "IfStmt":
        out = [n["then"]]
        e = n.get("else", -1)
        if e >= 0:
            out += _selection_leaves(f, e) if f.k(e) in ("IfStmt", "SwitchStmt") else [e]
        return out
    if n["k"] == "SwitchStmt" and f.k(n["body"]) == "CompoundStmt":
        arms, cur = [], []
        for s in f.ch(n["body"]):
            t = s
            fresh = False
            while f.k(t) in ("CaseStmt", "DefaultStmt"):
                t = f.nodes[t]["sub"]
                fresh = True
            if fresh and cur:
                arms.append(cur)
                cur = []
            cur.append(t)
        if cur:
            arms.append(cur)
        return arms
    return [i]


def _render_arm(f, arm):
    parts = []
    for s in (arm if isinstance(arm, list) else [arm]):
        if f.k(s) == "CompoundStmt":
            parts += [x for x in f.ch(s)]
        else:
            parts.append(s)
    parts = [x for x in parts if f.k(x) != "BreakStmt"]
    return "{" + " ".join(t for t in (_render_stmt_tree(f, x) for x in parts) if t) + "}"


def _render_stmt_tree(f, i):
    """full-body rendering (statements included) with locals kept by name (the twins share names) and table./this-> folded."""
    n = f.nodes[i]
    k = n["k"]
    ch = f.ch(i)
    if k in ("IfStmt", "SwitchStmt") and not any(f.k(a) in ("IfStmt", "SwitchStmt") for a in f.ancestors(i)):
        named = set((f.nodes[x].get("callee") or {}).get("name") for x in f.walk(i)) & set(KERNELS)
        if len(named) >= 2:
            return "SELECT{" + " | ".join(sorted(_render_arm(f, a) for a in _selection_leaves(f, i))) + "}"
    if k in ("CompoundStmt",):
        parts = [(x, t) for x, t in ((x, _render_stmt_tree(f, x)) for x in ch) if t]            # a type alias declaration renders as nothing
        if len(parts) == 1 and f.k(parts[0][0]) not in ("DeclStmt", "CompoundStmt") and f.parent[i] >= 0 and \
                f.k(f.parent[i]) in ("ForStmt", "WhileStmt", "IfStmt", "DoStmt"):
            return parts[0][1]                                                                    # braces around what is left as one statement (N9)
        return "{" + " ".join(t for _, t in parts) + "}"
    if k == "ForStmt":
        return "for(%s;%s;%s)%s" % tuple(_render_stmt_tree(f, n[x]) if n.get(x, -1) >= 0 else "" for x in ("init", "cond", "inc", "body"))
    if k == "IfStmt":
        return "if(%s)%s%s" % (_render_stmt_tree(f, n["cond"]), _render_stmt_tree(f, n["then"]),
                                (" else " + _render_stmt_tree(f, n["else"])) if n.get("else", -1) >= 0 else "")
    if k == "ReturnStmt":
        return "return " + (_render_stmt_tree(f, ch[0]) if ch else "")
    if k == "DeclStmt":
        out = []
        for d in n["decls"]:
            if d.get("dk") == "Var":
                ext = "".join("[%s]" % (f.render(e).replace("this->", "").replace("table.", "") if e >= 0 else "") for e in d.get("extents", []))
                ty = re.sub(r"\[.*", "", d.get("ctype") or d.get("type", ""))      # canonical type: an alias is the type it names
                out.append("%s %s%s%s" % (ty.replace("Float", "F"), d["name"], ext, (" = " + _expr(f, d["init"])) if d.get("init", -1) >= 0 else ""))
        return "; ".join(out)
    if "assert" in (n.get("macros") or []):
        j = i
        while f.k(j) in core.TRANSPARENT and f.ch(j):
            j = f.ch(j)[0]
        if f.k(j) == "ConditionalOperator":
            return "assert(%s)" % _expr(f, f.nodes[j]["cond"])
    return _expr(f, i)


def _expr(f, i):
    t = f.render(i).replace("this->", "").replace("table.", "").replace("this.", "")
    # the derivative order handed to the recursive reference: CL-4 requires it to evaluate to the selector; its spelling is left out
    for x in f.walk(i):
        if (f.nodes[x].get("callee") or {}).get("name") == "bspline_deriv" and len(f.args(x)) == 5 and _is_selector_value(f, f.args(x)[4]):
            t = t.replace(", " + f.render(f.args(x)[4]).replace("this->", "").replace("table.", "").replace("this.", "") + ")", ", SELECTOR)")
    # the core call: direct generic core, or call through the dispatched member pointer
    t = re.sub(r"ndsplineeval_(multibasis_)?core\(", "CORE(", t)
    t = re.sub(r"\(\(\*\)\((v_)?eval_ptr\)\)\(|\(\.\*\((v_)?eval_ptr\)\)\(|\(table \.\* \(?(v_)?eval_ptr\)?\)\(", "CORE(", t)
    return t


def _loop_var_of(f, i):
    """name of the variable the nearest enclosing counting loop over the dimensions declares (`n` in the pinned tree)"""
    for a in f.ancestors(i):
        if f.k(a) == "ForStmt" and f.nodes[a].get("init", -1) >= 0 and f.k(f.nodes[a]["init"]) == "DeclStmt":
            c = f.nodes[a].get("cond", -1)
            if c >= 0 and "ndim" in f.render(c):
                return f.nodes[f.nodes[a]["init"]]["decls"][0]["name"]
    return "n"


def _selector_envs(f, i):
    """(env, expected kernel, must-be-reached) for every selector value worth telling apart"""
    v = _loop_var_of(f, i)
    out = []
    if f.name == "ndsplineeval":
        for mask in range(8):
            for d in range(3):
                out.append(({"derivatives": mask, v: d}, "bspline_deriv_nonzero" if (mask >> d) & 1 else "bsplvb_simple", True))
    else:
        sel = "derivatives[%s]" % v
        for o in (0, 1, 2, 5):
            out.append(({"derivatives": core.NULLPTR, "order[%s]" % v: o}, "bsplvb_simple", True))
            for d in range(8):
                want = "bsplvb_simple" if d == 0 else "bspline_deriv_nonzero" if d == 1 else "bspline_deriv"
                # above the spline order the derivative vanishes: a constant fill may stand in for the kernel there (CL-7 decides that)
                out.append(({"derivatives": core.SOMEPTR, sel: d, "order[%s]" % v: o}, want, d <= o))
    return out


def _selector_ok(f, i, nm):
    bad = []
    n_env = 0
    for env, want, must in _selector_envs(f, i):
        n_env += 1
        try:
            reached = core.path_taken(f, i, env)
        except core.Unknown as e:
            return False, "a condition on the way to the call cannot be evaluated over the selector (%s)" % e
        if reached and want != nm:
            bad.append("reached for %s where %s belongs" % (env, want))
        elif not reached and want == nm and must:
            bad.append("not reached for %s" % env)
    if bad:
        return False, "; ".join(bad[:3])
    return True, "reached exactly for its selector values (%d environments)" % n_env


def _is_selector_value(f, a):
    """the derivative order handed to bspline_deriv is the selector itself wherever the call is reached (order >= 2)"""
    v = _loop_var_of(f, a)
    for d in (2, 3, 7):
        try:
            if core.expr_value(f, a, {"derivatives": core.SOMEPTR, "derivatives[%s]" % v: d}) != d:
                return False
        except core.Unknown:
            return False
    return True


def cl4(P, C):
    C.rule("CL-4", "kernel selection in every entry point is a function of the derivative selector only: bit set / order 1 -> bspline_deriv_nonzero "
           "with order[n]; 0 -> bsplvb_simple with order[n]+1; >= 2 -> bspline_deriv with index centers[n]-order[n]+i; gradient: lane 0 and "
           "lanes != 1+n take the value basis, lane 1+n the derivative basis; kernels receive knots[n], nknots[n], x[n], centers[n] of the "
           "same dimension", floor=10)
    C.rule("CL-7", "in the arbitrary-order derivative entry points the local basis is filled by the kernels only; a constant fill (shortcut for "
           "derivatives that vanish identically) is allowed only where the derivative order strictly exceeds the spline order", floor=2)
    for f in sorted(entry_points(P), key=lambda f: (f.cls, f.name, str(f.targs))):
        is_ev = "evaluator_type" in (f.cls or "")
        name = ("evaluator::" if is_ev else "table::") + "%s<%s>" % (f.name, ",".join(str(t) for t in f.targs) or (re.findall(r"evaluator_type<(\w*)>", f.cls or "") or [""])[0])
        calls = []
        for i, cal in f.calls():
            if cal and cal["name"] in ("bsplvb_simple", "bspline_deriv_nonzero", "bspline_nonzero", "bspline_deriv"):
                args = [f.render(a).replace("this->", "").replace("table.", "").replace(" ", "") for a in f.args(i)]
                conds = []
                for a in f.ancestors(i):
                    if f.k(a) == "IfStmt":
                        inthen = f.nodes[a]["then"] in [i] + list(f.ancestors(i))
                        conds.append((f.render(f.nodes[a]["cond"]).replace(" ", ""), inthen))
                calls.append((cal["name"], args, conds, i))
        for (nm, args, conds, i) in calls:
            ok = True
            det = "%s(%s) under %s" % (nm, ", ".join(args), conds)
            if nm in ("bsplvb_simple", "bspline_deriv_nonzero", "bspline_nonzero"):
                exp_order = "(order[n]+1)" if nm == "bsplvb_simple" else "order[n]"
                ok = args[0] in ("(&knots[n][0])", "(&(*knots[n]))") and args[1] == "nknots[n]" and args[2] == "x[n]" and args[3] == "centers[n]" and args[4] == exp_order
            if nm == "bspline_deriv":
                xarg = args[1]
                a1 = f.strip(f.args(i)[1])
                if f.k(a1) == "DeclRefExpr" and f.nodes[a1]["decl"]["kind"] == "Var":
                    # a local copy of the coordinate (adjusted at the last supported point, CL-8): it must start as x[n]
                    for d_ in f.walk():
                        if f.k(d_) == "DeclStmt":
                            for dd in f.nodes[d_]["decls"]:
                                if dd.get("id") == f.nodes[a1]["decl"]["id"] and dd.get("init", -1) >= 0:
                                    xarg = f.render(dd["init"]).replace(" ", "")
                ok = args[0] == "(&knots[n][0])" and xarg == "x[n]" and args[2] == "((centers[n]-order[n])+i)" and args[3] == "order[n]" and _is_selector_value(f, f.args(i)[4])
            # selector: the set of selector values under which this call is evaluated (branch conditions, switch labels, ?: and
            # short-circuit operators on the way evaluated over a small environment) must be the set the kernel stands for
            if f.name in ("ndsplineeval", "ndsplineeval_deriv"):
                sel_ok, sel_det = _selector_ok(f, i, nm)
                ok = ok and sel_ok
                det += "; selector: " + sel_det
            C.ob("CL-4", name, "%s" % nm, ok, f.loc(i), det)
        if f.name == "ndsplineeval_deriv":
            # CL-7: anything else that fills the local basis (a shortcut for derivatives that vanish) must be confined to derivative > order
            shortcuts = []
            for i in f.walk():
                n_ = f.nodes[i]
                cal = n_.get("callee")
                tgt = None
                if cal and cal["name"] in ("fill", "fill_n", "memset", "bzero") and f.args(i):
                    tgt = f.args(i)[0]
                else:
                    ap = ts.assign_parts(f, i)
                    if ap and ap[1] is not None and "localbasis[" in f.render(ap[0]).replace(" ", "") and \
                            (f.nodes[f.strip(ap[1])].get("callee") or {}).get("name") != "bspline_deriv":
                        tgt = ap[0]
                if tgt is None or "localbasis" not in f.render(tgt):
                    continue
                guarded = False
                for a in f.ancestors(i):
                    if f.k(a) != "IfStmt" or f.nodes[a]["then"] not in [i] + list(f.ancestors(i)):
                        continue
                    c = f.nodes[f.strip(f.nodes[a]["cond"])]
                    if c["k"] == "BinaryOperator" and c["op"] in (">", "<"):
                        l = f.render(c["ch"][0]).replace("this->", "").replace("table.", "").replace(" ", "")
                        r = f.render(c["ch"][1]).replace("this->", "").replace("table.", "").replace(" ", "")
                        if (c["op"] == ">" and l == "derivatives[n]" and r == "order[n]") or (c["op"] == "<" and l == "order[n]" and r == "derivatives[n]"):
                            guarded = True
                shortcuts.append((i, guarded))
            bad = [i for i, g in shortcuts if not g]
            C.ob("CL-7", name, "no-unsound-shortcut", not bad, f.loc(bad[0]) if bad else f.where(),
                 ("%d shortcut store(s) into the local basis, each confined to derivative order > spline order" % len(shortcuts)) if not bad else
                 "the local basis is filled with a constant at %s without being confined to derivatives[n] > order[n]: the derivative of order "
                 "exactly `order` is a non-zero piecewise constant" % f.loc(bad[0]))
        if f.name == "ndsplineeval_gradient":
            # lane wiring
            lanes = {}
            for i in f.walk():
                ap = ts.assign_parts(f, i)
                if ap and ap[1] is not None and "localbasis[n][i]" in f.render(ap[0]).replace(" ", ""):
                    lhs = f.render(ap[0]).replace(" ", "")
                    m = re.search(r"\[(\w+)\]$", lhs)
                    idx = m.group(1) if m else "?"
                    conds = []
                    for a in f.ancestors(i):
                        if f.k(a) == "IfStmt":
                            conds.append((f.render(f.nodes[a]["cond"]).replace(" ", ""), f.nodes[a]["then"] in [i] + list(f.ancestors(i))))
                    lanes[(idx, tuple(conds))] = f.render(ap[1]).replace(" ", "")
            ok = lanes.get(("0", ())) == "valbasis[i]" and lanes.get(("j", (("(j==(n+1))", True),))) == "gradbasis[i]" and \
                lanes.get(("j", (("(j==(n+1))", False),))) == "valbasis[i]" and len(lanes) == 3
            C.ob("CL-4", name, "lane-wiring", ok, f.where(), "lane 0 <- value basis, lane 1+n <- derivative basis, other lanes <- value basis: %s" % lanes)


def cl8(P, C):
    """CL-8: lookup and the recursive reference must agree on which polynomial piece a knot belongs to."""
    C.rule("CL-8", "centre lookup assigns the upper end of the supported range to the interval on its LEFT (last-interval adjustment), while the "
           "recursive reference bspline()/bspline_deriv() bottoms out in the half-open indicator knots[i] <= x < knots[i+1], i.e. takes the "
           "piece on the RIGHT of a knot; an entry point that hands x unchanged to the recursive reference therefore evaluates the wrong piece "
           "exactly at the upper end, where the derivative of order == spline order is discontinuous. The kernels used for values and first "
           "derivatives are polynomial in the chosen interval and have no such indicator", floor=2)
    # premise A: searchcenters puts x == upper end of the fully supported range (knots[naxes]) into the interval on its left:
    # a branch on x >= knots[i][naxes[i]] (equality included) that stores naxes[i]-1
    S = [g for g in P.fns("searchcenters") if g.unit == "driver" and g.cls == ts.CLS]
    A = False
    if S:
        f = S[0]
        for i in f.walk():
            if f.k(i) == "IfStmt":
                c = f.alpha(f.nodes[i]["cond"])[0].replace(" ", "")
                if c == "(knots[v0][naxes[v0]]<=$0[v0])":
                    st = [f.alpha(x)[0].replace(" ", "") for x in f.walk(f.nodes[i]["then"]) if ts.assign_parts(f, x)]
                    A = "($1[v0]=(naxes[v0]-1))" in st
    # premise B: right-continuous degree-0 indicator in the reference
    B = False
    R = [g for g in P.fns("bspline") if g.file.endswith("core/bspline.cpp")]
    if R:
        f = R[0]
        for i in f.walk():
            if f.k(i) == "BinaryOperator" and f.nodes[i]["op"] == "&&":
                t = f.alpha(i)[0].replace(" ", "")
                if t == "(($0[$2]<=$1)&&($1<$0[($2+1)]))":
                    B = True
    n = 0
    for f in sorted(entry_points(P), key=lambda f: (f.cls, f.name, str(f.targs))):
        if f.name != "ndsplineeval_deriv":
            continue
        is_ev = "evaluator_type" in (f.cls or "")
        name = ("evaluator::" if is_ev else "table::") + "%s<%s>" % (f.name, ",".join(str(t) for t in f.targs) or (re.findall(r"evaluator_type<(\w*)>", f.cls or "") or [""])[0])
        sites = [i for i, cal in f.calls() if cal and cal["name"] == "bspline_deriv"]
        raw = [i for i in sites if f.render(f.args(i)[1]).replace(" ", "") == "x[n]"]
        partial = []
        # accepted idiom: a local copy of x[n] moved one ulp into the centre's interval when it equals that interval's upper knot
        for i in sites:
            a1 = f.strip(f.args(i)[1])
            if i in raw or f.k(a1) != "DeclRefExpr":
                continue
            vid = f.nodes[a1]["decl"]["id"]
            adj = False
            for y in f.walk():
                ap = ts.assign_parts(f, y)
                if ap and ap[1] is not None and f.k(f.strip(ap[0])) == "DeclRefExpr" and f.nodes[f.strip(ap[0])]["decl"]["id"] == vid:
                    g = [a for a in f.ancestors(y) if f.k(a) == "IfStmt"]
                    cnd = f.render(f.nodes[g[0]]["cond"]).replace(" ", "").replace("this->", "").replace("table.", "") if g else ""
                    rhs = f.render(ap[1]).replace(" ", "").replace("this->", "").replace("table.", "")
                    nm_ = f.var_name(vid)
                    if not rhs.endswith("nextafter(%s,knots[n][centers[n]])" % nm_):
                        continue
                    # the adjustment must cover every knot from the centre's upper knot upwards (the last supported point, the knots
                    # inside the upper margin, the last knot): x >= knots[c+1] and x is one of knots[c+1 .. nknots-1]
                    conn, leaves = core.cond_leaves(f, f.nodes[g[0]]["cond"]) if g else ("", [])
                    lt = [f.render(x).replace(" ", "").replace("this->", "").replace("table.", "") for x in leaves]
                    at_or_above = "(knots[n][(centers[n]+1)]<=%s)" % nm_ in lt
                    member = any(t in ("binary_search((&knots[n][(centers[n]+1)]),((&knots[n][0])+nknots[n]),%s)" % nm_,
                                       "binary_search((&knots[n][(centers[n]+1)]),(&knots[n][nknots[n]]),%s)" % nm_) for t in lt)
                    if conn == "&&" and at_or_above and member and len(lt) == 2:
                        adj = True
                    elif cnd == "(%s==knots[n][(centers[n]+1)])" % nm_:
                        partial.append(i)
            if not adj:
                raw.append(i)
        n += 1
        ok = not (A and B and raw)
        C.ob("CL-8", name, "one-sided-convention", ok, f.loc(raw[0]) if raw else f.where(),
             "no unadjusted hand-over of the coordinate to the recursive reference" if ok else
             "the coordinate is moved into the left-hand piece only when it equals the centre's upper knot (the last supported point): at a knot "
             "inside the upper margin and at the last knot — which lookup also assigns to that centre — bspline_deriv still takes the right-hand "
             "piece (0 at the last knot)" if partial and set(raw) <= set(partial) else
             "x[n] goes unchanged into bspline_deriv (right-hand piece at a knot) although lookup put the upper end of the supported range into "
             "the interval on its left: at exactly that point a derivative of order == spline order (>= 2) comes from the wrong piece")
    if n == 0:
        raise core.AnalysisBroken("CL-8: no ndsplineeval_deriv entry point found")
    return A, B


def path_facts(f, node):
    """relational facts that hold on every path to `node` inside its function, read off the structure: conditions of the enclosing ifs
    (then-branch: the conjuncts; else-branch: the negated disjuncts) and of earlier sibling ifs whose then-branch always leaves
    (negated).  Facts are (lhs text, op, rhs text) with orderings complemented on negation (valid for ordered operands: no NaN)."""
    COMP = {"<": ">=", "<=": ">", ">": "<=", ">=": "<", "==": "!=", "!=": "=="}
    facts = []

    def leaf_fact(lf, positive):
        lf = f.strip(lf)
        n = f.nodes[lf]
        if n["k"] == "UnaryOperator" and n.get("op") == "!":
            return leaf_fact(n["ch"][0], not positive)
        if n["k"] != "BinaryOperator" or n.get("op") not in COMP:
            return [("?" + f.render(lf), "is", str(positive))]
        a, b = (f.render(x).replace(" ", "") for x in n["ch"])
        op = n["op"] if positive else COMP[n["op"]]
        return [(a, op, b)]

    def cond_facts(c, positive):
        conn, leaves = core.cond_leaves(f, c)
        if positive and conn in ("&&", "leaf"):
            return [x for lf in leaves for x in leaf_fact(lf, True)]
        if not positive and conn in ("||", "leaf"):
            return [x for lf in leaves for x in leaf_fact(lf, False)]
        return []                                  # a disjunction that holds / a conjunction that fails: no single fact
    def always_leaves(st):
        st_ = st
        if f.k(st_) == "CompoundStmt":
            kids = f.ch(st_)
            return bool(kids) and always_leaves(kids[-1])
        return f.k(st_) in ("ReturnStmt", "ContinueStmt", "BreakStmt", "CXXThrowExpr") or \
            (f.k(st_) == "IfStmt" and f.nodes[st_].get("else", -1) >= 0 and always_leaves(f.nodes[st_]["then"]) and always_leaves(f.nodes[st_]["else"]))
    prev = node
    for a in f.ancestors(node):
        k = f.k(a)
        if k == "IfStmt":
            if f.nodes[a].get("then") == prev:
                facts += cond_facts(f.nodes[a]["cond"], True)
            elif f.nodes[a].get("else") == prev:
                facts += cond_facts(f.nodes[a]["cond"], False)
        elif k == "CompoundStmt":
            for sib in f.ch(a):
                if sib == prev:
                    break
                if f.k(sib) == "IfStmt" and f.nodes[sib].get("else", -1) < 0 and always_leaves(f.nodes[sib]["then"]):
                    facts += cond_facts(f.nodes[sib]["cond"], False)
        prev = a
    return facts


def cl9(P, C):
    """CL-9: the degree-0 B-spline is the indicator of the half-open interval [knots[i], knots[i+1])."""
    C.rule("CL-9", "the recursive reference bspline() — and the fitter's private copy — bottom out, for degree 0, in the indicator of the half-open "
           "interval knots[i] <= x < knots[i+1]: every point belongs to exactly one piece (the basis functions sum to one), and a knot belongs "
           "to the piece on its right, which is the one-sided convention the arbitrary-order derivative inherits from it", floor=2)
    N = MIR = {"<": ">", "<=": ">=", ">": "<", ">=": "<="}
    n_ob = 0
    for f in sorted([g for g in P.fns("bspline") if g.file.endswith(("core/bspline.cpp", "fitter/splineutil.c"))], key=lambda g: g.file):
        xname, kname_, iname = f.params[1]["name"], f.params[0]["name"], f.params[2]["name"]
        if f.file.endswith("splineutil.c"):
            kname_, xname, iname = f.params[0]["name"], f.params[1]["name"], f.params[2]["name"]
        ones = [r for r in f.walk() if f.k(r) == "ReturnStmt" and f.ch(r) and f.nodes[f.strip(f.ch(r)[0])].get("v", f.nodes[f.strip(f.ch(r)[0])].get("cv")) in (1, 1.0)]
        ok = False
        det = "no `return 1` found"
        if len(ones) == 1:
            facts = path_facts(f, ones[0])
            rel = set()
            for (a, op, b) in facts:
                if a == xname:
                    rel.add((op, b))
                elif b == xname and op in MIR:
                    rel.add((MIR[op], a))
            lo = "%s[%s]" % (kname_, iname)
            hi = "%s[(%s+1)]" % (kname_, iname)
            want = {(">=", lo), ("<", hi)}
            got = {r for r in rel if r[1] in (lo, hi)}
            ok = got == want
            det = "returns 1 exactly when %s (required: x >= knots[i] and x < knots[i+1])" % " and ".join("x %s %s" % r for r in sorted(got))
        n_ob += 1
        C.ob("CL-9", "bspline@%s" % os.path.basename(f.file), "half-open-indicator", ok, f.loc(ones[0]) if ones else f.where(), det)
    if n_ob == 0:
        raise core.AnalysisBroken("CL-9: reference bspline() not found")


def cl3(P, C):
    C.rule("CL-3", "the kernels agree on the order-0 special case: value slot <- 1, derivative slot <- 0 (bspline_nonzero, bspline_deriv_nonzero, "
           "bsplvb_simple's unconditional biatx[0] = 1)", floor=6)
    for f in kb.kernels(P):
        stores = {}
        for i in f.walk():
            if f.k(i) == "IfStmt":
                rc = core.rel_canon(f, f.nodes[i]["cond"], None)
                if rc and rc[1] == "==0" and repr(rc[0]) == "n":
                    for x in f.walk(f.nodes[i]["then"]):
                        ap = ts.assign_parts(f, x)
                        if ap and ap[1] is not None:
                            stores[f.render(ap[0])] = f.nodes[f.strip(ap[1])].get("cv", f.nodes[f.strip(ap[1])].get("v"))
                        # chained
        nm = kb.kname(f)
        if f.name == "bspline_nonzero":
            ok = stores.get("values[0]") == 1 and stores.get("derivs[0]") == 0
        elif f.name == "bspline_deriv_nonzero":
            ok = stores.get("biatx[0]") == 0
        else:
            first = [x for x in f.walk() if ts.assign_parts(f, x) and f.render(ts.assign_parts(f, x)[0]) == "biatx[0]"]
            ok = bool(first) and f.parent[first[0]] == f.body and f.nodes[f.strip(ts.assign_parts(f, first[0])[1])].get("v") == 1
            stores = {"biatx[0]": 1 if ok else None}
        C.ob("CL-3", nm, "order0-case", ok, f.where(), "order-0 special case stores %s" % stores)


def cl6(P, C):
    C.rule("CL-6", "bspline_deriv (the reference for derivative orders >= 2): the `degree 0 -> 0` base case is reachable only with a derivative "
           "order >= 1 (either recursion passes order-1 only when order > 1, or an `order == 0 -> bspline` base case dominates it), and both "
           "recursion branches have the form n*f(i,n-1)/(knots[i+n]-knots[i]) - n*f(i+1,n-1)/(knots[i+n+1]-knots[i+1])", floor=3)
    f = P.one("bspline_deriv", file_endswith="bspline.cpp")
    pos = f.node_positions()
    dom = f.dominators()
    n_id, o_id = f.params[3]["id"], f.params[4]["id"]
    at = None
    zero_ret = None
    order0 = None
    for i in f.walk():
        if f.k(i) != "IfStmt":
            continue
        rc = core.rel_canon(f, f.nodes[i]["cond"], vg_atomizer(f))
        rets = [x for x in f.walk(f.nodes[i]["then"]) if f.k(x) == "ReturnStmt"]
        if rc == (core.eq_norm(core.Poly.atom("$3")), "==0") and rets:
            v = f.nodes[f.strip(f.nodes[rets[0]]["value"])]
            if v.get("v") == 0 or v.get("cv") == 0:
                zero_ret = i
        if rc == (core.eq_norm(core.Poly.atom("$4")), "==0") and rets:
            cal = f.nodes[f.strip(f.nodes[rets[0]]["value"])].get("callee")
            if cal and cal["name"] == "bspline":
                order0 = i
    # recursive calls and the derivative order they pass
    rec = [i for i, cal in f.calls() if cal and cal["usr"] == f.usr]
    le1 = (core.Poly.atom("$4") - core.Poly.const(2), "<0")     # order <= 1
    gt1 = (core.Poly.const(1) - core.Poly.atom("$4"), "<0")     # order > 1
    guarded = True
    for i in rec:
        a = f.args(i)
        p = core.poly(f, a[4], vg_atomizer(f))
        if p != core.Poly.atom("$4") - core.Poly.const(1):
            guarded = False
            continue
        # control-dependent on order > 1 (i.e. the else branch of order <= 1, or then-branch of order > 1)
        ok = False
        for anc in f.ancestors(i):
            if f.k(anc) == "IfStmt":
                rc = core.rel_canon(f, f.nodes[anc]["cond"], vg_atomizer(f))
                inthen = f.nodes[anc]["then"] in [i] + list(f.ancestors(i))
                le1 = (core.Poly.atom("$4") - core.Poly.const(2), "<0")     # order <= 1
                gt1 = (core.Poly.const(1) - core.Poly.atom("$4"), "<0")     # order > 1
                if (rc == le1 and not inthen) or (rc == gt1 and inthen):
                    ok = True
        if not ok:
            # ... or the operand of a conditional expression selected by the same test: `c ? bspline(..) : bspline_deriv(.., order-1)`
            chain = [i] + list(f.ancestors(i))
            for anc in chain:
                if f.k(anc) == "ConditionalOperator" and len(f.ch(anc)) == 3:
                    rc = core.rel_canon(f, _value_of_local(f, f.ch(anc)[0]), vg_atomizer(f))
                    first = f.ch(anc)[1] in chain
                    if (rc == le1 and not first) or (rc == gt1 and first):
                        ok = True
        guarded = guarded and ok
    ok = zero_ret is not None and (guarded or (order0 is not None and _dominates_if(f, order0, zero_ret, pos, dom)))
    C.ob("CL-6", "bspline_deriv", "base-cases", ok, f.loc(zero_ret) if zero_ret is not None else f.where(),
         "the degree-0 base case returns 0, which is the derivative of a constant only for derivative orders >= 1: recursion never reaches "
         "order 0 (%s) or the order-0 base case comes first (%s)" % (guarded, order0 is not None and _dominates_if(f, order0, zero_ret, pos, dom)))
    # recursion formula: every pair `result = A; result -= B`
    terms = [f.alpha(i)[0] for i in f.walk() if f.k(i) in ("BinaryOperator", "CompoundAssignOperator") and f.nodes[i]["op"] in ("=", "-=")
             and f.render(f.nodes[i]["ch"][0]) == "result"]
    import re as _re
    # `double result = A;` declares and stores at once
    for i in f.walk():
        if f.k(i) == "DeclStmt":
            for d in f.nodes[i]["decls"]:
                if d.get("name") == "result" and d.get("init", -1) >= 0:
                    t_, o_ = f.alpha(d["init"])
                    # the declared variable is v0 in the statement forms above: shift the locals of the initialiser by one
                    t_ = _re.sub(r"\bv(\d+)\b", lambda m: "v%d" % (int(m.group(1)) + 1), t_)
                    terms.append("(v0 = %s)" % t_)
    # a factor held in a local that is never assigned again stands for its initialiser; when that is `c ? a : b` with c the test of the
    # derivative order, the statement is two statements, one per outcome, and both have to have the form
    expanded = []
    for i in [x for x in f.walk() if (f.k(x) in ("BinaryOperator", "CompoundAssignOperator") and f.nodes[x]["op"] in ("=", "-=") and
                                      f.render(f.nodes[x]["ch"][0]) == "result") or
              (f.k(x) == "DeclStmt" and any(d.get("name") == "result" and d.get("init", -1) >= 0 for d in f.nodes[x]["decls"]))]:
        if f.k(i) == "DeclStmt":
            d = next(d for d in f.nodes[i]["decls"] if d.get("name") == "result")
            t_, o_ = f.alpha(d["init"])
            t_ = "(v0 = %s)" % _re.sub(r"\bv(\d+)\b", lambda m: "v%d" % (int(m.group(1)) + 1), t_)
            o_ = [d["id"]] + list(o_)
        else:
            t_, o_ = f.alpha(i)
        alts = [t_]
        for k_, vid in enumerate(o_):
            if k_ == 0:
                continue
            init = _local_init(f, vid)
            if init is None:
                continue
            e = f.strip(init)
            if f.k(e) == "ConditionalOperator" and len(f.ch(e)) == 3 and \
                    core.rel_canon(f, _value_of_local(f, f.ch(e)[0]), vg_atomizer(f)) in (le1, gt1):
                subs = [f.alpha(f.ch(e)[1]), f.alpha(f.ch(e)[2])]
            else:
                subs = [f.alpha(e)]
            if any(o2 for _t2, o2 in subs):
                continue            # the initialiser mentions locals of its own: left as it is
            alts = [_re.sub(r"\bv%d\b" % k_, t2, a_) for a_ in alts for t2, _o2 in subs]
        expanded.append(alts)
    if any(len(a_) > 1 or a_[0] not in terms for a_ in expanded):
        terms = [t for a_ in expanded for t in a_]
    pat_a = _re.compile(r"^\(v0 = \(\(\$3 \* (bspline|bspline_deriv)\(\$0, \$1, \$2, \(\$3 - 1\)(, \(\$4 - 1\))?\)\) / \(\$0\[\(\$2 \+ \$3\)\] - \$0\[\$2\]\)\)\)$")
    pat_b = _re.compile(r"^\(v0 -= \(\(\$3 \* (bspline|bspline_deriv)\(\$0, \$1, \(\$2 \+ 1\), \(\$3 - 1\)(, \(\$4 - 1\))?\)\) / \(\$0\[\(\(\$2 \+ \$3\) \+ 1\)\] - \$0\[\(\$2 \+ 1\)\]\)\)\)$")
    na = sum(1 for t in terms if pat_a.match(t))
    nb = sum(1 for t in terms if pat_b.match(t))
    C.ob("CL-6", "bspline_deriv", "recursion-first-term", na >= 1 and na + nb == len(terms), f.where(), "n*f(i,n-1)/(knots[i+n]-knots[i]): %d of %d statements" % (na, len(terms)))
    C.ob("CL-6", "bspline_deriv", "recursion-second-term", nb >= 1 and na == nb, f.where(), "minus n*f(i+1,n-1)/(knots[i+n+1]-knots[i+1]): %d" % nb)


def _local_init(f, vid):
    """initialiser of a local that is declared with one and never stored to again, else None"""
    init = None
    for i in f.walk():
        if f.k(i) == "DeclStmt":
            for d in f.nodes[i]["decls"]:
                if d.get("id") == vid and d.get("dk") == "Var" and d.get("init", -1) >= 0:
                    init = d["init"]
    if init is None:
        return None
    for x in f.walk():
        n = f.nodes[x]
        tgt = None
        if n["k"] in ("BinaryOperator", "CompoundAssignOperator") and n.get("op", "").endswith("=") and n["op"] not in ("==", "!=", "<=", ">="):
            tgt = f.strip(n["ch"][0])
        elif n["k"] == "UnaryOperator" and n.get("op") in ("++", "--", "&"):
            tgt = f.strip(n["ch"][0])
        if tgt is not None and f.k(tgt) == "DeclRefExpr" and f.nodes[tgt]["decl"].get("id") == vid:
            return None
    return init


def _value_of_local(f, x):
    """the expression a never-reassigned local stands for (followed through), else the node itself"""
    for _ in range(4):
        y = f.strip(x)
        if f.k(y) == "DeclRefExpr" and f.nodes[y]["decl"].get("kind") == "Var":
            init = _local_init(f, f.nodes[y]["decl"].get("id"))
            if init is None:
                return x
            x = init
        else:
            return x
    return x


def vg_atomizer(f):
    from . import vg
    return vg.atomizer(f, ())


def _dominates_if(f, a, b, pos, dom):
    ba = next((pos[x][0] for x in f.walk(f.nodes[a]["cond"]) if x in pos), None)
    bb = next((pos[x][0] for x in f.walk(f.nodes[b]["cond"]) if x in pos), None)
    return ba is not None and bb is not None and ba in dom[bb] and ba != bb


# --------------------------------------------------------------------------
# PR-1: the double-precision instantiations of the evaluation path keep every intermediate in double
# --------------------------------------------------------------------------
PR_EVAL = re.compile(r"^(ndsplineeval|bspl|bspline_)")


def narrowings(f):
    """nodes of f where a floating-point value is narrowed to float: a FloatingCast whose result is float, or a local of type float
    (scalar or array) — in an instantiation whose working type is double either one rounds an intermediate to single precision"""
    out = []
    for i in f.walk():
        nn = f.nodes[i]
        if nn.get("cast") == "FloatingCast" and nn.get("t") == "float":
            out.append((i, "value of type %s converted to float" % f.nodes[f.ch(i)[0]].get("t", "?")))
        if nn["k"] == "DeclStmt":
            for d in nn["decls"]:
                if d.get("dk") == "Var" and re.search(r"(^|[^\w])float($|[^\w*]*$|\s*\[)", d.get("ctype", d.get("type", ""))) and "*" not in d.get("ctype", d.get("type", "")):
                    out.append((i, "local `%s` of type %s" % (d.get("name", "?"), d.get("ctype", d.get("type", "")))))
    return out


def pr1(P, C, floor=40):
    C.rule("PR-1", "working precision: in every function of the evaluation path instantiated for Float = double (kernels, cores, entry points of the "
           "table and of evaluator_type<double>) no floating-point value is narrowed to float and no local of type float holds an intermediate; "
           "the only float in such an instantiation is the stored coefficient, which is widened. Otherwise the double-precision result carries "
           "single-precision rounding (1e-8 instead of 1e-16 relative), against 'rounding proportional to the working precision'", floor=floor)
    n = 0
    for f in sorted(P.functions.values(), key=lambda g: (g.file, g.line, g.qname)):
        if f.unit != "driver" or not re.search(r"<double[,>]", f.qname):
            continue
        if not (PR_EVAL.match(f.name) or (f.name == "operator()" and "evaluator_type<double" in f.qname)):
            continue
        bad = narrowings(f)
        n += 1
        from . import ts
        C.ob("PR-1", ts.fshort(f) if f.cls else f.qname.split("photospline::")[-1][:70], "no-narrowing", not bad, f.loc(bad[0][0]) if bad else f.where(),
             "no conversion to float and no float local" if not bad else
             "%s at %s: the double-precision instantiation rounds an intermediate to single precision" % (bad[0][1], f.loc(bad[0][0])))
    return n


# --------------------------------------------------------------------------
# RE-1: no hidden state shared between calls
# --------------------------------------------------------------------------
def hidden_state(f):
    """[(node, description)]: non-const static locals of f, and stores to non-const variables of namespace scope"""
    out = []
    for i in f.walk():
        n = f.nodes[i]
        if n["k"] == "DeclStmt":
            for d in n["decls"]:
                t = d.get("type", "")
                if d.get("dk") == "Var" and d.get("static") and not t.startswith("const ") and "constexpr" not in t:
                    out.append((i, "static local `%s` (%s)" % (d.get("name"), t)))
        ap = ts.assign_parts(f, i)
        if ap:
            l = f.strip(ap[0])
            while f.k(l) in ("ArraySubscriptExpr", "MemberExpr") and f.ch(l):
                l = f.strip(f.ch(l)[0])
            if f.k(l) == "DeclRefExpr" and f.nodes[l]["decl"].get("kind") == "Var" and f.nodes[l]["decl"].get("qname") and \
                    not f.nodes[l]["decl"].get("type", "").startswith("const "):
                out.append((i, "store to the namespace-scope variable `%s`" % f.nodes[l]["decl"]["qname"]))
    return out


def re1(P, C, floor=150):
    C.rule("RE-1", "no function of the library keeps state between calls: no non-const static local, no store to a variable of namespace scope. "
           "Evaluation, lookup and comparison are const operations that callers run on several threads at once (one table, many evaluating "
           "threads is the normal use); scratch kept in a static is then shared, one thread's basis values overwrite another's and the value "
           "returned is not the tensor-product sum of any point", floor=1)
    n = 0
    bad_all = []
    for f in sorted(P.functions.values(), key=lambda g: (g.file, g.line, g.qname)):
        if f.unit.startswith("selftest") or f.unit.startswith("tools/"):
            continue
        if os.path.relpath(f.file, core.REPO).startswith("test" + os.sep) if f.file.startswith(core.REPO) else False:
            continue            # the project's test programs (thorough tier) are not the library: their harness keeps a registry of tests
        n += 1
        bad = hidden_state(f)
        if bad:
            bad_all.append((f, bad))
            C.ob("RE-1", ts.fshort(f) if f.cls else f.name, "no-hidden-state", False, f.loc(bad[0][0]),
                 "%s: shared by every call and every thread; concurrent const calls on tables race on it" % bad[0][1])
    C.ob("RE-1", "library", "functions-without-hidden-state", not bad_all, "include/photospline",
         "%d functions analysed, none has a non-const static local or stores to a namespace-scope variable" % n if not bad_all else
         "%d function(s) keep state between calls" % len(bad_all))
    if n < floor:
        raise core.AnalysisBroken("RE-1: only %d functions analysed" % n)
    return n


def cl10(P, C):
    """CL-10: the row of recursive derivative values covers the supported basis functions and nothing beyond."""
    C.rule("CL-10", "in ndsplineeval_deriv (table and evaluator) the recursive reference is called for the basis functions "
           "centers[n]-order[n]+i, i = 0..order[n], exactly: bspline_deriv(knots, x, j, order, d) reads knots[j..j+order+1], and the centre "
           "is at most nknots-order-2, so j <= centers[n] keeps the reads inside the knot vector; a loop that runs on to the row's width "
           "(maxdegree) reads past the knots for every dimension whose order is below the table's maximum", floor=2)
    n = 0
    for f in sorted(entry_points(P), key=lambda f: (f.cls, f.name, str(f.targs))):
        if f.name != "ndsplineeval_deriv":
            continue
        is_ev = "evaluator_type" in (f.cls or "")
        name = ("evaluator::" if is_ev else "table::") + "%s<%s>" % (f.name, ",".join(str(t) for t in f.targs) or (re.findall(r"evaluator_type<(\w*)>", f.cls or "") or [""])[0])
        for i, cal in f.calls():
            if not cal or cal["name"] != "bspline_deriv":
                continue
            a = f.args(i)
            L = next((x for x in f.ancestors(i) if f.k(x) == "ForStmt"), None)
            ok, det = False, "the call is not inside a counting loop"
            if L is not None:
                ln = f.nodes[L]
                ini = f.nodes[ln["init"]] if ln.get("init", -1) >= 0 else None
                cond = f.nodes[f.strip(ln["cond"])] if ln.get("cond", -1) >= 0 else None
                inc = f.nodes[f.strip(ln["inc"])] if ln.get("inc", -1) >= 0 else None
                vid = None
                if ini is not None and ini["k"] == "DeclStmt" and len(ini["decls"]) == 1 and ini["decls"][0].get("init", -1) >= 0 and \
                        f.nodes[f.strip(ini["decls"][0]["init"])].get("cv") == 0:
                    vid = ini["decls"][0]["id"]
                plain = vid is not None and cond is not None and cond["k"] == "BinaryOperator" and cond["op"] in ("<", "<=") and \
                    f.k(f.strip(cond["ch"][0])) == "DeclRefExpr" and f.nodes[f.strip(cond["ch"][0])]["decl"]["id"] == vid and \
                    inc is not None and inc["k"] == "UnaryOperator" and inc["op"] == "++" and \
                    not any(f.k(x) in ("BreakStmt", "ContinueStmt", "GotoStmt") for x in f.walk(ln["body"]))
                if not plain:
                    det = "the enclosing loop is not a plain counting loop from 0"
                else:
                    vname = f.var_name(vid)
                    idx = core.poly(f, a[2])
                    ordr = core.poly(f, a[3])
                    bound = core.poly(f, cond["ch"][1]) + (core.Poly.const(1) if cond["op"] == "<=" else core.Poly())       # i < bound
                    # index = centre - order + i with the same order expression that is handed to the callee; bound = order + 1
                    ctr = idx - core.Poly.atom(vname) + ordr
                    atoms = ctr.atoms()
                    is_centre = len(ctr.t) == 1 and all("centers" in a_ for a_ in atoms) and list(ctr.t.values()) == [1]
                    ok = is_centre and (bound - ordr - core.Poly.const(1)) == core.Poly()
                    det = "index %s for %s in [0, %s): %s" % (f.render(a[2]), vname, f.render(cond["ch"][1]),
                                                              "basis functions centre-order .. centre" if ok else
                                                              "the loop does not stop at i = order (bound - order - 1 = %r): bspline_deriv is asked for basis functions beyond the centre and reads knots[centre+order+2 ..]" % (bound - ordr - core.Poly.const(1)))
            n += 1
            C.ob("CL-10", name, "deriv-row-range", ok, f.loc(i), det)
    if n == 0:
        raise core.AnalysisBroken("CL-10: no call of bspline_deriv found in ndsplineeval_deriv")
    return n
