"""NL — nullable per-dimension arrays (serves C15, C18, C20).

A valid non-empty table is whatever one of the *populating* operations (reader, fit, stacking constructor, the padding-table builder inside
it) leaves behind.  The per-dimension arrays that every populating operation allocates form the class invariant NN; any other
per-dimension array (today: `periods`, which only the reader allocates) may legitimately be null in a valid table.  NL-1 is the
contradiction rule: a member function that runs on a valid table may dereference a per-dimension array only where it is known non-null —
because it is in NN, because the function itself allocated it on every path to that point, or because a null test on it dominates the
dereference (if(p), p ? a : b, early return on !p).  The release routine and the destructor get no invariant at all (they run on
half-built tables).  The analysis is a forward must-dataflow over each function's CFG with edge refinement on null tests."""
import re

from .. import core
from . import ts

PER_DIM = ("order", "knots", "nknots", "extents", "periods", "coefficients", "naxes", "strides")
READ_ALGOS = {"copy": (0, 1, 2), "copy_n": (0, 2), "equal": (0, 1, 2), "accumulate": (0, 1), "fill": (0, 1), "fill_n": (0,), "partial_sum": (0, 1),
              "is_sorted": (0, 1), "max_element": (0, 1), "min_element": (0, 1)}


# arrays whose element counts live in other arrays: an element of the first can only have been set after the second were (NL-2), so
# a non-null test on the first implies the second are there (what the release routine relies on)
DESCRIBED_BY = {("knots", 1): ("order", "nknots"), ("coefficients", 0): ("naxes",)}


def _field_ref(f, i):
    """expression that *is* a per-dimension member pointer (no dereference yet): (obj, field) or None.  `p + k` counts as p."""
    i = f.strip(i)
    n = f.nodes[i]
    if n["k"] == "BinaryOperator" and n["op"] in ("+", "-"):
        return _field_ref(f, n["ch"][0])
    r = ts.root_member(f, i)
    if r and r[1] == 0 and r[0] in PER_DIM:
        return (r[2], r[0])
    return None


def _nonnull_rhs(f, rhs):
    rhs = f.strip(rhs)
    n = f.nodes[rhs]
    if n["k"] == "CXXNewExpr":
        return True
    if n["k"] == "BinaryOperator" and n["op"] == "+":
        return _nonnull_rhs(f, n["ch"][0])
    cal = n.get("callee")
    return bool(cal and cal["name"] == "allocate")


FAILED = ("!", "failed")


def _status_vars(f):
    """locals whose address is handed to an external C routine (cfitsio status words)"""
    out = set()
    for i, cal in f.calls():
        if cal and cal.get("externC") and not cal.get("hasBody"):
            for a in f.args(i):
                a = f.strip(a)
                if f.k(a) == "UnaryOperator" and f.nodes[a]["op"] == "&":
                    v = f.strip(f.nodes[a]["ch"][0])
                    if f.k(v) == "DeclRefExpr" and f.nodes[v].get("t") == "int":
                        out.add(f.nodes[v]["decl"]["id"])
    return out


def _in_lambda(f, i):
    return any(f.k(a) == "LambdaExpr" for a in f.ancestors(i))


def _analyse(f, entry):
    sv = _status_vars(f)

    def is_sv(i):
        i = f.strip(i)
        return f.k(i) == "DeclRefExpr" and f.nodes[i]["decl"]["id"] in sv

    def transfer(st, e, b, j):
        if e.get("kind") != "stmt":
            return st
        i = e["n"]
        ap = ts.assign_parts(f, i)
        if ap and ap[1] is not None and is_sv(ap[0]) and f.nodes[f.strip(ap[1])].get("cv") == 0:
            return st - {FAILED}
        if ap and ap[1] is not None and f.nodes[i].get("op", "=") == "=":
            fr = ts.root_member(f, ap[0])
            if fr and fr[1] == 0 and fr[0] in PER_DIM:
                key = (fr[2], fr[0])
                return st | {key} if _nonnull_rhs(f, ap[1]) else st - {key}
        cal = f.nodes[i].get("callee")
        if cal and cal["name"] in ("clear", "deallocate"):
            if cal["name"] == "clear":
                return frozenset(k for k in st if k[0] != "this")
        return st

    def edge(st, b, k, s, cond):
        if cond is None or cond < 0 or len([x for x in f.blocks[b]["succ"]]) != 2:
            return st
        c, neg = core.cond_polarity(f, cond)
        n = f.nodes[c]
        key = None
        if n["k"] == "BinaryOperator" and n["op"] in ("!=", "=="):
            l, r = n["ch"]
            if ts.is_null(f, r):
                key = _field_ref(f, l)
            elif ts.is_null(f, l):
                key = _field_ref(f, r)
            if n["op"] == "==":
                neg = not neg
        else:
            key = _field_ref(f, c)
            if key is None:
                r = ts.root_member(f, c)
                if r and (r[0], r[1]) in DESCRIBED_BY and (k == 0) == (not neg):
                    return st | {(r[2], m) for m in DESCRIBED_BY[(r[0], r[1])]}
        if key is not None and (key[1], 0) in DESCRIBED_BY and (k == 0) == (not neg):
            st = st | {(key[0], m) for m in DESCRIBED_BY[(key[1], 0)]}
        if key is None:
            # a status word tested non-zero: what follows on that edge is a failure path until the word is cleared
            svt = None
            if n["k"] == "BinaryOperator" and n["op"] in ("!=", "==") and is_sv(n["ch"][0]) and f.nodes[f.strip(n["ch"][1])].get("cv") == 0:
                svt = (n["op"] == "!=") != neg
            elif is_sv(c):
                svt = not neg
            if svt is not None and (k == 0) == svt:
                return st | {FAILED}
            return st
        nonnull_on_true = not neg
        if (k == 0) == nonnull_on_true:
            return st | {key}
        return st

    IN, OUT = core.dataflow(f, frozenset(entry), transfer, lambda a, b: a & b, edge)
    return IN, transfer


def _deref_sites(f):
    """(node, obj, field, how) for every dereference of a per-dimension member pointer"""
    out = []
    for i in f.walk():
        if _in_lambda(f, i):
            continue
        n = f.nodes[i]
        k = n["k"]
        if k == "ArraySubscriptExpr" or (k == "UnaryOperator" and n["op"] == "*"):
            fr = _field_ref(f, n["ch"][0])
            if fr:
                out.append((i, fr[0], fr[1], "subscript"))
        cal = n.get("callee")
        if cal and k in ("CallExpr", "CXXMemberCallExpr"):
            nm = cal["name"]
            args = f.args(i)
            if nm in READ_ALGOS and cal["qname"].startswith("std::"):
                for a in READ_ALGOS[nm]:
                    if a < len(args):
                        fr = _field_ref(f, args[a])
                        if fr:
                            out.append((i, fr[0], fr[1], "std::" + nm))
            elif cal.get("externC") and not cal.get("hasBody"):
                for a in args:
                    fr = _field_ref(f, a)
                    if fr:
                        out.append((i, fr[0], fr[1], "argument of " + (f.call_macro(i) or nm)))
    # one report per (statement-level) site and field
    seen, res = set(), []
    for i, o, fl, how in out:
        key = (str(f.nodes[i]["loc"]), o, fl)
        if key not in seen:
            seen.add(key)
            res.append((i, o, fl, how))
    return res


def _containing_elem(f, pos, i):
    """CFG position of node i: the element that is i or the nearest ancestor of i that is an element"""
    while i >= 0:
        if i in pos:
            return pos[i]
        i = f.parent[i]
    return None


def populators(P):
    """(function, object text) of every operation that builds a non-empty table from nothing"""
    out = []
    for f in P.functions.values():
        if f.unit != "driver" or f.cls != ts.CLS and "splinetable<" not in f.qname:
            continue
        sets_ndim = [i for i in f.walk() if not _in_lambda(f, i) and ts.assign_parts(f, i) and ts.root_member(f, ts.assign_parts(f, i)[0]) and
                     ts.root_member(f, ts.assign_parts(f, i)[0])[0] == "ndim" and ts.assign_parts(f, i)[1] is not None and
                     not ts.is_null(f, ts.assign_parts(f, i)[1])]
        allocs = [i for i in f.walk() if not _in_lambda(f, i) and ts.assign_parts(f, i) and ts.assign_parts(f, i)[1] is not None and _nonnull_rhs(f, ts.assign_parts(f, i)[1]) and
                  ts.root_member(f, ts.assign_parts(f, i)[0]) and ts.root_member(f, ts.assign_parts(f, i)[0])[0] == "coefficients"]
        for i in sets_ndim:
            r = ts.root_member(f, ts.assign_parts(f, i)[0])
            src = ts.root_member(f, ts.assign_parts(f, i)[1])
            if src and src[0] == "ndim" and src[2] in ("other",):
                continue            # move operations copy a valid table, they do not build one
            if allocs and (f, r[2]) not in out:
                out.append((f, r[2]))
    return out


def exit_nonnull(f, obj):
    """fields of `obj` that are non-null at every normal return of f (entry: nothing known)"""
    IN, transfer = _analyse(f, ())
    pos = f.node_positions()
    res = None
    states = []
    ex = f.cfg["exit"]
    for b, blk in f.blocks.items():
        if ex not in blk["succ"] or b not in IN or blk.get("noReturn"):
            continue
        if any(e.get("kind") == "stmt" and f.nodes[e["n"]]["k"] == "CXXThrowExpr" for e in blk["elems"]):
            continue
        st = IN[b]
        for j, e in enumerate(blk["elems"]):
            st = transfer(st, e, b, j)
        if FAILED not in st:
            states.append(st)
    for st in states:
        s = frozenset(fl for (o, fl) in st if o == obj)
        res = s if res is None else res & s
    return res


def site_verdicts(f, entry, sites=None):
    """{(obj, field): {"n": dereferences, "bad": [(node, how)]}} under the given entry facts"""
    sites = _deref_sites(f) if sites is None else sites
    IN, transfer = _analyse(f, entry)
    pos = f.node_positions()
    agg = {}
    for i, o, fl, how in sites:
        p = _containing_elem(f, pos, i)
        if p is None:
            continue
        st = core.state_before(f, IN, transfer, p[0], p[1])
        if st is None:
            continue                                # unreachable
        a = agg.setdefault((o, fl), {"n": 0, "bad": []})
        a["n"] += 1
        if (o, fl) not in st:
            a["bad"].append((i, how))
    return agg


def nl1(P, C, floor=40, only=None):
    C.rule("NL-1", "a per-dimension array that some populating operation (reader, fit, stacking constructor, padding-table builder) leaves null "
           "is dereferenced only under a null test or after the function allocated it itself; arrays every populating operation allocates "
           "are the invariant of a valid table; the release routine and the destructor assume nothing", floor=floor)
    pops = populators(P)
    if len(pops) < 4:
        raise core.AnalysisBroken("NL-1: expected at least 4 populating operations (reader, 2 fits, stacking constructor, padding builder), found %d: %s"
                                  % (len(pops), [ts.fshort(f) for f, _ in pops]))
    NN = None
    per = {}
    for f, obj in pops:
        s = exit_nonnull(f, obj)
        if s is None:
            continue
        per[(ts.fshort(f), obj)] = s
        NN = s if NN is None else NN & s
    if NN is None:
        raise core.AnalysisBroken("NL-1: no populating operation has a normal exit")
    nullable = [m for m in PER_DIM if m not in NN]
    for m in PER_DIM:
        leaves = sorted("%s" % k[0] for k, s in per.items() if m not in s)
        C.ob("NL-1", "invariant", m, True, "include/photospline/splinetable.h",
             "%s: %s" % (m, "allocated by every populating operation" if not leaves else "may be null in a valid table (left null by %s)" % ", ".join(leaves)))
    n = 0
    for f in sorted(P.functions.values(), key=lambda g: (g.file, g.line)):
        if f.unit != "driver" or not (f.cls == ts.CLS or "splinetable<" in f.qname):
            continue
        if only is not None and f.name not in only:
            continue
        sites = _deref_sites(f)
        if not sites:
            continue
        is_pop = {o for g, o in pops if g is f}
        objs = {o for _, o, _, _ in sites}
        entry = set()
        for o in objs:
            if o in is_pop:
                continue                                # being built here: nothing known at entry
            if o == "this" and (f.name in (ts.RESET_FN,) or f.name.startswith("~")):
                continue                                # runs on half-built tables
            entry |= {(o, m) for m in NN}
        agg = site_verdicts(f, entry, sites)
        for (o, fl), a in sorted(agg.items()):
            n += 1
            bad = a["bad"]
            C.ob("NL-1", ts.fshort(f), "%s%s" % ("" if o == "this" else o + ".", fl), not bad, f.loc(bad[0][0]) if bad else f.where(),
                 "%d dereference(s) of %s%s: %s" % (a["n"], "" if o == "this" else o + "->", fl,
                                                    "all covered (invariant, own allocation or null test)" if not bad else
                                                    "%s reached with the pointer possibly null — %s is left null by %s and nothing on the path tests it"
                                                    % (", ".join("%s at %s" % (h, f.loc(i)) for i, h in bad), fl,
                                                       ", ".join(sorted(k[0] for k, s in per.items() if fl not in s)) or "nothing (this routine runs on half-built tables)")))
    return NN, nullable


def nl2(P, C, floor=8):
    C.rule("NL-2", "the arrays holding the element counts of another array are allocated first: order and nknots before any knots[i] is set, "
           "naxes before coefficients — so that the release routine, which sizes its deallocations from them, can run on a table "
           "abandoned at any point", floor=floor)
    for f in sorted(P.functions.values(), key=lambda g: (g.file, g.line)):
        if f.unit != "driver" or not (f.cls == ts.CLS or "splinetable<" in f.qname):
            continue
        stores = []
        for i in f.walk():
            if _in_lambda(f, i):
                continue
            ap = ts.assign_parts(f, i)
            if ap and ap[1] is not None and f.nodes[i].get("op", "=") == "=" and _nonnull_rhs(f, ap[1]):
                r = ts.root_member(f, ap[0])
                if r and (r[0], r[1]) in DESCRIBED_BY:
                    stores.append((i, r))
        if not stores:
            continue
        pops = {o for g, o in populators(P) if g is f}
        pos = f.node_positions()
        for i, r in stores:
            entry = () if r[2] in pops else {(r[2], m) for m in PER_DIM if m != "periods" and m != "extents"}
            IN, transfer = _analyse(f, entry)
            p = _containing_elem(f, pos, i)
            st = core.state_before(f, IN, transfer, p[0], p[1]) if p else None
            if st is None:
                continue
            need = DESCRIBED_BY[(r[0], r[1])]
            miss = [m for m in need if (r[2], m) not in st]
            C.ob("NL-2", ts.fshort(f), "%s%s%s" % ("" if r[2] == "this" else r[2] + ".", r[0], "[i]" if r[1] else ""), not miss, f.loc(i),
                 "%s%s is set %s" % (r[0], "[i]" if r[1] else "", "after %s exist" % " and ".join(need) if not miss else
                                     "while %s may still be null" % ", ".join(miss)))


def nl3(P, C, floor=3):
    """NL-3: the dimension count is set before the arrays whose release depends on it."""
    C.rule("NL-3", "in every operation that builds a table (reader, both fits, the stacking constructor and its padding builder) the object's "
           "ndim is assigned before the first per-dimension array is obtained for it: clear(), which runs on a table abandoned half-built "
           "(an allocation failure in the middle, the owner's destructor), walks knots[0..ndim) and sizes every deallocation with ndim — "
           "with ndim still 0 the knot vectors are never returned and the other arrays go back with size 0", floor=floor)
    n = 0
    for f in sorted(P.functions.values(), key=lambda g: (g.file, g.line, g.qname)):
        if f.unit != "driver" or "splinetable" not in f.qname:
            continue
        ndim_stores = {}
        allocs = []
        for i in f.walk():
            ap = ts.assign_parts(f, i)
            if not ap or ap[1] is None or f.nodes[i].get("op", "=") != "=":
                continue
            r = ts.root_member(f, ap[0])
            if not r:
                continue
            if r[0] == "ndim" and r[1] == 0:
                ndim_stores.setdefault(r[2], []).append(i)
            elif r[0] in PER_DIM and r[1] == 0 and _nonnull_rhs(f, ap[1]):
                allocs.append((i, r))
        if not allocs or not ndim_stores:
            continue
        pos = f.node_positions()
        dom = f.dominators()

        def at(x):
            while x >= 0 and x not in pos:
                x = f.parent[x]
            return pos.get(x)
        for obj, stores in sorted(ndim_stores.items()):
            mine = [(i, r) for i, r in allocs if r[2] == obj]
            if not mine:
                continue
            # a store of 0 (clearing) does not count as setting the dimension count
            setting = [s_ for s_ in stores if f.nodes[f.strip(ts.assign_parts(f, s_)[1])].get("cv") != 0]
            if not setting:
                continue
            late = []
            for i, r in mine:
                pi = at(i)
                ok = False
                for s_ in setting:
                    ps = at(s_)
                    if ps and pi and ((ps[0] == pi[0] and ps[1] < pi[1]) or (ps[0] != pi[0] and ps[0] in dom.get(pi[0], ()))):
                        ok = True
                if not ok:
                    late.append((i, r))
            n += 1
            C.ob("NL-3", ts.fshort(f) if f.cls else f.name, "ndim-before-arrays:%s" % obj, not late, f.loc(late[0][0]) if late else f.loc(setting[0]),
                 "%s.ndim is assigned before all %d array allocations for that object" % (obj, len(mine)) if not late else
                 "%s.%s is obtained at %s while %s.ndim is still unset (assigned at %s): if a later allocation fails, clear() releases nothing of the "
                 "knot vectors and returns the other arrays with size 0" % (obj, late[0][1][0], f.loc(late[0][0]), obj, f.loc(setting[0])))
    if n < floor:
        raise core.AnalysisBroken("NL-3: only %d building operations found (expected the reader, the fits and the padding builder)" % n)
    return n


def nl4(P, C):
    """NL-4: the rows of the extents block are set up before anything goes through them."""
    from . import ts
    C.rule("NL-4", "`extents` is an array of row pointers into one block (`extents[i] = &extents[0][2*i]`), obtained uninitialised from the "
           "allocator: in every operation that builds it (reader, fit, stacking constructor) the loop that sets the rows for all i >= 1 comes "
           "before — its head dominates — every access `extents[e][k]` with e other than the constant 0; the fallback that makes up extents "
           "for a file without an EXTENTS extension writes through the rows", floor=3)
    n = 0
    for name, kind in (("read_fits_core", None), ("fit", None), ("splinetable", "ctor")):
        fs_ = [g for g in P.fns(name) if g.unit == "driver" and g.cls == ts.CLS and (kind is None or (g.kind == kind and len(g.params) >= 3))]
        done = set()
        for f in fs_:
            if (f.file, f.line) in done or not f.cfg:
                continue
            done.add((f.file, f.line))
            pos = f.node_positions()
            dom = f.dominators()
            setup = None
            for L in f.walk():
                if f.k(L) != "ForStmt":
                    continue
                body = f.nodes[L]["body"]
                st_ = f.ch(body)[0] if f.k(body) == "CompoundStmt" and f.ch(body) else body      # the first statement of the iteration
                ap = ts.assign_parts(f, st_)
                if ap and ap[1] is not None:
                    l = f.render(ap[0]).replace("this->", "").replace(" ", "")
                    r = f.render(ap[1]).replace("this->", "").replace(" ", "")
                    m = re.match(r"^extents\[(\w+)\]$", l)
                    if m and re.match(r"^\(?&extents\[0\]\[\(?(2\*%s|%s\*2)\)?\]\)?$" % (m.group(1), m.group(1)), r):
                        ini = f.nodes[L].get("init", -1)
                        start = None
                        if ini >= 0 and f.k(ini) == "DeclStmt" and f.nodes[ini]["decls"][0].get("init", -1) >= 0:
                            start = f.nodes[f.strip(f.nodes[ini]["decls"][0]["init"])].get("cv", f.nodes[f.strip(f.nodes[ini]["decls"][0]["init"])].get("v"))
                        cond = f.render(f.nodes[L]["cond"]).replace("this->", "").replace(" ", "") if f.nodes[L].get("cond", -1) >= 0 else ""
                        if start in (0, 1) and cond == "(%s<ndim)" % m.group(1):
                            setup = L
                            setup_var = m.group(1)
                            setup_store = st_
            label = name if kind is None else "stacking constructor"
            n += 1
            if setup is None:
                C.ob("NL-4", label, "rows-before-use", False, f.where(), "the loop that points extents[i] at row i of the block (for every i from 1 below ndim) was not found")
                continue
            head = None
            for x in [f.strip(f.nodes[setup]["cond"])] + list(f.walk(f.nodes[setup]["cond"])):
                if x in pos:
                    head = pos[x]
                    break
            early = []
            for x in f.walk():
                if f.k(x) != "ArraySubscriptExpr" or x in set(f.walk(setup_store)):
                    continue
                r = ts.root_member(f, x)
                if not r or r[0] != "extents" or r[1] != 2:
                    continue
                inner = f.strip(f.nodes[x]["ch"][0])
                if f.k(inner) != "ArraySubscriptExpr":
                    continue
                e = f.strip(f.nodes[inner]["ch"][1])
                if f.nodes[e].get("cv", f.nodes[e].get("v")) == 0 and f.k(e) == "IntegerLiteral":
                    continue
                if x in set(f.walk(setup)):
                    # inside the set-up loop itself: row i, after this iteration's store
                    if f.render(e).replace(" ", "") == setup_var and f.seq(setup_store) < f.seq(x):
                        continue
                    early.append(x)
                    continue
                y = x
                while y >= 0 and y not in pos:
                    y = f.parent[y]
                px = pos.get(y)
                if not (head and px and head[0] in dom.get(px[0], ()) and f.seq(setup) < f.seq(x)):
                    early.append(x)
            C.ob("NL-4", label, "rows-before-use", not early, f.loc(early[0]) if early else f.loc(setup),
                 "every access through extents[i], i >= 1, follows the loop that sets the rows" if not early else
                 "%s goes through a row pointer of extents that the set-up loop at %s has not assigned yet (the array comes uninitialised from the allocator)" %
                 (f.render(early[0])[:60], f.loc(setup)))
    if n < 3:
        raise core.AnalysisBroken("NL-4: expected the reader, fit and the stacking constructor, found %d" % n)
