"""PM — permuteDimensions rules (serves C15): TS-4p attribute coverage, CL-5 uniform index map."""
import re

from .. import core
from ..core import Poly
from . import ts


def per_dimension_members(P):
    """pointer members whose storage clear() releases with count ndim (derived from clear(), not hard-coded)."""
    fs = [f for f in P.fns(ts.RESET_FN) if f.cls == ts.CLS]
    if len(fs) != 1:
        fs = [f for f in P.functions.values() if f.cls == ts.CLS and f.kind == "dtor"]
    if len(fs) != 1:
        raise core.AnalysisBroken("neither clear() nor the destructor found: cannot derive the per-dimension members")
    f = fs[0]
    out = []
    for i, cal in f.calls():
        if cal and cal["name"] == "deallocate":
            a = f.args(i)
            r = ts.root_member(f, a[0])
            if r and r[1] == 0 and ts.norm_count(f, a[1]) == Poly.atom("ndim"):
                out.append(r[0])
    return out


def run(P, C):
    C.rule("TS-4p", "every per-dimension member of the table (those clear() releases with count ndim) is written by permuteDimensions "
           "(unconditionally, or under a null check of that member)", floor=7)
    C.rule("CL-5", "all attribute gathers have the shape T[i] = A[permutation[i]] with one index pair, each temporary is copied back to the "
           "member it was gathered from, the inverse map is built as iperm[permutation[i]] = i and used only to scatter the coefficients, "
           "and strides are recomputed from the permuted axis lengths", floor=8)
    f = [g for g in P.fns("permuteDimensions") if g.cls == ts.CLS and g.unit == "driver"]
    if len(f) != 1:
        raise core.AnalysisBroken("permuteDimensions: expected one instantiation")
    f = f[0]
    members = per_dimension_members(P)
    if len(members) < 7:
        raise core.AnalysisBroken("per-dimension members derived from clear(): %s (expected 7)" % members)
    # ---- TS-4p
    written = {}
    for i in f.walk():
        for (fld, depth, how) in ts.member_writes(f, i):
            conds = []
            for a in f.ancestors(i):
                if f.k(a) == "IfStmt":
                    c, neg = core.cond_polarity(f, f.nodes[a]["cond"])
                    r = ts.root_member(f, c)
                    conds.append((r[0] if r else f.render(c), neg))
            written.setdefault(fld, []).append((i, conds))
    for m in members:
        w = written.get(m, [])
        ok = False
        for (i, conds) in w:
            if all(c[0] == m and not c[1] for c in conds):
                ok = True
        C.ob("TS-4p", "permuteDimensions", "attribute:" + m, ok, f.loc(w[0][0]) if w else f.where(),
             "per-dimension member %s %s" % (m, "is rewritten in the new order" if ok else
                                             "is never written: after the permutation it still describes the old axis order"))
    # ---- CL-5 gather loop (all identities by declaration, not by name)
    def peel(i):
        """expression -> (base node, [index nodes]) through [] (built-in and overloaded) and .get()"""
        idx = []
        i = f.strip(i)
        while True:
            n = f.nodes[i]
            if n["k"] == "ArraySubscriptExpr":
                idx.insert(0, n["ch"][1])
                i = f.strip(n["ch"][0])
            elif n["k"] == "CXXOperatorCallExpr" and n.get("opcall") == "[]":
                idx.insert(0, n["ch"][2])
                i = f.strip(n["ch"][1])
            elif n["k"] == "CXXMemberCallExpr" and n.get("callee", {}).get("name") == "get":
                i = f.strip(f.ch(f.strip(n["ch"][0]))[0])
            else:
                return i, idx
    zd1(P, C)

    def local_id(i):
        i = f.strip(i)
        n = f.nodes[i]
        return n["decl"]["id"] if n["k"] == "DeclRefExpr" and n["decl"]["kind"] in ("Var", "ParmVar") else None

    gathers = []   # dict(temp, member, il, ir, sub, node)
    for i in f.walk():
        ap = ts.assign_parts(f, i)
        if not ap or ap[1] is None:
            continue
        lb, lidx = peel(ap[0])
        rb, ridx = peel(ap[1])
        r = ts.root_member(f, rb) if f.k(rb) == "MemberExpr" else None
        t = local_id(lb)
        if r is None or t is None or not lidx or not ridx or len(lidx) != len(ridx) or r[0] not in members:
            continue
        il, ir = local_id(lidx[0]), local_id(ridx[0])
        direct = None
        if il is not None and ir is None:
            # the source index written out at the use: member[permutation[i]]
            pb, pidx_ = peel(ridx[0])
            if local_id(pb) == f.params[0]["id"] and f.nodes[f.strip(pb)]["decl"]["kind"] == "ParmVar" and len(pidx_) == 1:
                direct = local_id(pidx_[0])
                ir = ("direct", direct)
        if il is None or ir is None:
            continue
        sub = tuple(f.nodes[x].get("cv") for x in lidx[1:])
        rsub = tuple(f.nodes[x].get("cv") for x in ridx[1:])
        gathers.append(dict(temp=t, member=r[0], il=il, ir=ir, sub=sub, rsub=rsub, node=i))
    if len(gathers) < 5:
        raise core.AnalysisBroken("permuteDimensions: only %d attribute gathers recognised" % len(gathers))
    # definition of the source index: j = permutation[i]
    perm_param = f.params[0]["id"]
    jdef = {}
    for i in f.walk():
        if f.k(i) == "DeclStmt":
            for d in f.nodes[i]["decls"]:
                if d.get("dk") == "Var" and d.get("init", -1) >= 0:
                    b_, idx_ = peel(d["init"])
                    if local_id(b_) == perm_param and len(idx_) == 1:
                        jdef[d["id"]] = local_id(idx_[0])
    # ... or the loop variable of `for (size_t j : permutation)`: j = *it with it running over the whole argument
    for i in f.walk():
        if f.k(i) != "CXXForRangeStmt":
            continue
        n = f.nodes[i]
        rng = n.get("rangeInit", -1)
        lv = n.get("loopVarStmt", -1)
        if rng < 0 or lv < 0 or f.k(lv) != "DeclStmt":
            continue
        rsrc = f.strip(rng)
        if f.k(rsrc) == "DeclStmt":
            rsrc = f.strip(f.nodes[rsrc]["decls"][0].get("init", -1))
        if rsrc >= 0 and f.k(rsrc) == "DeclRefExpr" and f.nodes[rsrc]["decl"].get("id") == perm_param and f.nodes[rsrc]["decl"].get("kind") == "ParmVar":
            d = f.nodes[lv]["decls"][0]
            its = [x for x in f.walk(d.get("init", -1)) if f.k(x) == "DeclRefExpr" and f.nodes[x]["decl"].get("kind") == "Var"] if d.get("init", -1) >= 0 else []
            if d.get("dk") == "Var" and its:
                jdef[d["id"]] = f.nodes[its[0]]["decl"]["id"]
    # ... or `*it` with `it` an iterator of a plain loop over the whole argument: for (it = permutation.begin(); it != permutation.end(); ++it)
    iters = set()
    for i in f.walk():
        if f.k(i) != "ForStmt" or f.nodes[i].get("init", -1) < 0 or f.k(f.nodes[i]["init"]) != "DeclStmt":
            continue
        d = f.nodes[f.nodes[i]["init"]]["decls"][0]
        if d.get("init", -1) < 0:
            continue
        it_ = f.render(d["init"]).replace(" ", "")
        pn = f.params[0]["name"]
        cond = f.render(f.nodes[i]["cond"]).replace(" ", "") if f.nodes[i].get("cond", -1) >= 0 else ""
        if it_ in ("%s.begin()" % pn, "%s.cbegin()" % pn) and cond in ("(%s!=%s.end())" % (d["name"], pn), "(%s!=%s.cend())" % (d["name"], pn)):
            iters.add(d["id"])
    for i in f.walk():
        if f.k(i) == "DeclStmt":
            for d in f.nodes[i]["decls"]:
                if d.get("dk") == "Var" and d.get("init", -1) >= 0:
                    e = f.strip(d["init"])
                    deref = (f.k(e) == "UnaryOperator" and f.nodes[e].get("op") == "*") or (f.k(e) == "CXXOperatorCallExpr" and f.nodes[e].get("opcall") == "*")
                    if deref:
                        vs = [f.nodes[y]["decl"].get("id") for y in f.walk(e) if f.k(y) == "DeclRefExpr" and f.nodes[y]["decl"].get("kind") == "Var"]
                        if len(vs) == 1 and vs[0] in iters:
                            jdef[d["id"]] = vs[0]          # the entry itself, through the iterator
    def full_axis_loop(node, var):
        """node sits in a loop `for (var = 0; var < ndim; var++)` (any spelling of the increment)"""
        for a_ in f.ancestors(node):
            if f.k(a_) != "ForStmt":
                continue
            n_ = f.nodes[a_]
            ini, cond, inc = (f.render(n_[k]).replace(" ", "").replace("this->", "") if n_.get(k, -1) >= 0 else "" for k in ("init", "cond", "inc"))
            ids = {f.nodes[x]["decl"].get("id") for x in f.walk(n_["cond"]) if f.k(x) == "DeclRefExpr"} if n_.get("cond", -1) >= 0 else set()
            dids = {d.get("id") for d in f.nodes[n_["init"]].get("decls", [])} if n_.get("init", -1) >= 0 and f.k(n_["init"]) == "DeclStmt" else \
                {f.nodes[x]["decl"].get("id") for x in (f.walk(n_["init"]) if n_.get("init", -1) >= 0 else []) if f.k(x) == "DeclRefExpr"}
            if var in ids and var in dids:
                v = f.var_name(var)
                return ini.strip("()").replace("uint32_t", "").replace("size_t", "").replace("unsigned", "").replace("int", "").endswith("%s=0" % v) and \
                    cond in ("(%s<ndim)" % v, "(ndim>%s)" % v, "(%s!=ndim)" % v) and inc in ("(%s++)" % v, "(++%s)" % v, "(%s+=1)" % v)
        return False
    li = set(g["il"] for g in gathers)
    ri = set(g["ir"] for g in gathers)
    one_loop = len(li) == 1 and len(ri) == 1
    for g in gathers:
        src = g["ir"][1] if isinstance(g["ir"], tuple) else jdef.get(g["ir"])
        ok = (one_loop or full_axis_loop(g["node"], g["il"])) and src == g["il"] and g["sub"] == g["rsub"]
        C.ob("CL-5", "permuteDimensions", "gather:%s%s" % (g["member"], "".join("[%s]" % x for x in g["sub"])), ok, f.loc(g["node"]),
             "%s: destination index is the loop variable, source index is permutation[loop variable], same sub-index on both sides"
             % f.render(g["node"]).replace("this->", ""))
    # the scratch copy of an attribute has the attribute's element type: a relocation changes no value (a float scratch array for the
    # double periods would round every period, permanently)
    VALUE_CHANGING = ("FloatingCast", "IntegralCast", "FloatingToIntegral", "IntegralToFloating", "IntegralToBoolean", "FloatingToBoolean")
    for g in gathers:
        ap = ts.assign_parts(f, g["node"])
        casts = []
        x = ap[1]
        while x >= 0 and f.k(x) in core.TRANSPARENT and f.ch(x):
            ck = f.nodes[x].get("cast")
            if ck in VALUE_CHANGING:
                tl = f.nodes[x].get("t", "?")
                casts.append("%s to %s" % (ck, tl))
            x = f.ch(x)[0]
        if f.k(g["node"]) == "CXXOperatorCallExpr":
            continue
        C.ob("CL-5", "permuteDimensions", "gather-type:%s%s" % (g["member"], "".join("[%s]" % s_ for s_ in g["sub"])), not casts, f.loc(g["node"]),
             "the scratch element has the member's element type (no converting cast on the way)" if not casts else
             "%s is relocated through a scratch element of another type (%s): the values are not the original values any more" % (g["member"], ", ".join(casts)))
    # copy back: each temporary goes to the member it was gathered from
    tmap = {}
    for g in gathers:
        tmap.setdefault(g["temp"], set()).add(g["member"])
    backs = []
    for i, cal in f.calls():
        if cal and cal["name"] == "copy" and cal["qname"].startswith("std::"):
            a = f.args(i)
            sb, _ = peel(a[0])
            # source may be t.get() / t.begin()
            src = None
            for x in f.walk(a[0]):
                if local_id(x) is not None:
                    src = local_id(x)
                    break
            dst = ts.root_member(f, a[2])
            if src is not None and dst:
                backs.append((src, dst[0], i))
    for i in f.walk():
        ap = ts.assign_parts(f, i)
        if ap and ap[1] is not None:
            r = ts.root_member(f, ap[0])
            rb, ridx = peel(ap[1])
            if r and local_id(rb) is not None and ridx:
                backs.append((local_id(rb), r[0], i))
    strides_temp = next((t for (t, m, _i) in backs if m == "strides"), None)
    coeff_temp = next((t for (t, m, _i) in backs if m == "coefficients"), None)
    seen = set()
    for (t, mem, i) in backs:
        if (t, mem) in seen:
            continue
        seen.add((t, mem))
        if mem in ("strides", "coefficients"):
            ok = t not in tmap
            src_members = "recomputed"
        else:
            src_members = sorted(tmap.get(t, []))
            ok = src_members == [mem]
        C.ob("CL-5", "permuteDimensions", "copy-back:%s" % mem, ok, f.loc(i),
             "member %s receives the temporary %s that was gathered from %s" % (mem, f.var_name(t), src_members))
    for mem in members:
        ok = any(m == mem for (_t, m, _i) in backs)
        C.ob("CL-5", "permuteDimensions", "copied-back:" + mem, ok, f.where(), "member %s receives its permuted values" % mem)
    # inverse permutation: X[j] = i in the gather loop with (i, j) the gather index pair
    inv_arr = None
    for i in f.walk():
        ap = ts.assign_parts(f, i)
        if not ap or ap[1] is None:
            continue
        lb, lidx = peel(ap[0])
        if local_id(lb) is not None and len(lidx) == 1 and local_id(lidx[0]) in ri and local_id(ap[1]) in li and local_id(lb) not in tmap:
            inv_arr = local_id(lb)
    C.ob("CL-5", "permuteDimensions", "inverse-map", inv_arr is not None, f.where(),
         "inverse map built as inv[permutation[i]] = i in the gather loop: %s" % f.var_name(inv_arr) if inv_arr is not None else "no inverse map found")
    scatter = [i for i in f.walk() if f.k(i) == "CompoundAssignOperator" and f.nodes[i]["op"] == "+=" and any(
        ts.root_member(f, x) and ts.root_member(f, x)[0] == "strides" for x in f.walk(i) if f.k(x) == "MemberExpr")]
    ok = False
    det = "no scatter statement found"
    if len(scatter) == 1:
        txt, order = f.alpha(scatter[0])
        want = "(v0 += (((v1 / strides[v2]) % naxes[v2]) * v3[v4[v2]]))"
        ok = txt == want and len(order) == 5 and order[3] == strides_temp and order[4] == inv_arr
        det = "old multi-index (pos / strides[i] %% naxes[i]) is weighted with the NEW stride of the axis the old axis i moved to: %s" % txt
        # and the destination of the coefficient is the accumulated position
        st = [x for x in f.walk() if ts.assign_parts(f, x) and local_id(peel(ts.assign_parts(f, x)[0])[0]) == coeff_temp
              and ts.assign_parts(f, x)[1] is not None and ts.root_member(f, ts.assign_parts(f, x)[1])]
        ok = ok and len(st) == 1 and local_id(peel(ts.assign_parts(f, st[0])[0])[1][0]) == order[0] and \
            local_id(peel(ts.assign_parts(f, st[0])[1])[1][0]) == order[1]
    C.ob("CL-5", "permuteDimensions", "coefficient-scatter", ok, f.loc(scatter[0]) if scatter else f.where(), det)
    # ... and it is executed for every coefficient: the scratch array comes uninitialised from new float[n], so a position that is skipped
    # (a `continue` for zeros, a break) keeps whatever the allocator returned and that is copied back into the table
    from . import uw as _uw
    st_all = [x for x in f.walk() if ts.assign_parts(f, x) and coeff_temp is not None and local_id(peel(ts.assign_parts(f, x)[0])[0]) == coeff_temp]
    okc, detc = False, "no store into the scratch coefficient array found"
    if len(st_all) == 1:
        loops_ = [a for a in f.ancestors(st_all[0]) if f.k(a) in ("ForStmt", "WhileStmt", "DoStmt", "CXXForRangeStmt")]
        branch = [a for a in f.ancestors(st_all[0]) if f.k(a) in ("IfStmt", "SwitchStmt", "ConditionalOperator")]
        cl = _uw.canonical_loop(f, loops_[0]) if loops_ and f.k(loops_[0]) == "ForStmt" else None
        zero_init = False
        for x in f.walk():
            if f.k(x) == "DeclStmt":
                for d in f.nodes[x]["decls"]:
                    if d.get("id") == coeff_temp and d.get("init", -1) >= 0:
                        zero_init = any(f.k(y) == "CXXNewExpr" and f.nodes[y].get("hasInit") for y in f.walk(d["init"]))
        okc = len(loops_) == 1 and not branch and cl is not None
        detc = ("the store %s is executed once for every position 0..%s (plain counting loop, no branch, no continue/break)" % (f.render(st_all[0]).replace("this->", ""), cl[1])) if okc else \
            "the store %s into the scratch array (%s) is skipped for some positions (branch: %s; counting loop without continue/break: %s): those entries of the permuted table are whatever the allocator returned" % (
                f.render(st_all[0]).replace("this->", ""), "uninitialised `new float[n]`" if not zero_init else "value-initialised", bool(branch), cl is not None)
    C.ob("CL-5", "permuteDimensions", "every-coefficient-relocated", okc, f.loc(st_all[0]) if st_all else f.where(), detc)
    ps = []
    for i, cal in f.calls():
        if cal and cal["name"] in ("partial_sum", "reverse") and cal["qname"].startswith("std::"):
            ps.append((cal["name"], f.alpha(i)))
    naxes_temp = next((t for t, ms in tmap.items() if ms == {"naxes"}), None)
    okp = False
    for (nm, (txt, order)) in ps:
        if nm == "partial_sum" and txt.startswith("partial_sum(v0.rbegin(), (v0.rend() - 1), (v1.get() + 1)") and order[:2] == [naxes_temp, strides_temp]:
            okp = True
    okr = any(nm == "reverse" and txt == "reverse(v0.get(), (v0.get() + ndim))" and order == [strides_temp] for (nm, (txt, order)) in ps)
    first = [i for i in f.walk() if ts.assign_parts(f, i) and local_id(peel(ts.assign_parts(f, i)[0])[0]) == strides_temp
             and peel(ts.assign_parts(f, i)[0])[1] and f.nodes[peel(ts.assign_parts(f, i)[0])[1][0]].get("cv") == 0
             and f.nodes[ts.assign_parts(f, i)[1]].get("cv") == 1]
    C.ob("CL-5", "permuteDimensions", "strides-from-new-axes", okp and okr and bool(first), f.where(),
         "row-major strides recomputed from the permuted axis lengths (seed 1, partial products from the last axis, reversed): partial_sum=%s reverse=%s seed=%s" % (okp, okr, bool(first)))
    # argument validation: throwing guards for length, range, duplicate, missing — before any member is written
    from . import vg
    gs = vg.guards_of(f)
    C.rule("VG-3", "the argument is rejected unless it is a permutation of 0..ndim-1 (length, range, duplicate, missing) before any member is written; the entry is checked at full width; the flag the duplicate test reads is set for every accepted entry", floor=6)
    pos = f.node_positions()
    stores = [i for i in f.walk() if ts.member_writes(f, i) and i in pos]
    kinds = {}
    for g in gs:
        txt, order = f.alpha(f.nodes[g["node"]]["cond"])
        if txt == "($0.size() != ndim)":
            kinds["wrong-length"] = g
        elif txt == "(ndim <= v0)" and jdef.get(order[0]) is not None:
            kinds["out-of-range"] = g
        elif txt in ("(ndim <= (*v0))", "(ndim <= v0.operator*())") and order[0] in iters:
            kinds["out-of-range"] = g
        elif txt in ("v0[v1]", "v0[v1].operator bool()") and jdef.get(order[1]) is not None:
            kinds["duplicate"] = g
        elif txt in ("v0[(*v1)]", "v0[(*v1)].operator bool()", "v0[v1.operator*()]", "v0[v1.operator*()].operator bool()") and order[1] in iters:
            kinds["duplicate"] = g
        elif txt in ("(!v0[v1])", "(!v0[v1].operator bool())"):
            kinds["missing"] = g
        elif txt.replace(" ", "") in ("(find(v0.begin(),v0.end(),0)!=v0.end())", "(v0.end()!=find(v0.begin(),v0.end(),0))",
                                      "(find(v0.begin(),v0.end(),false)!=v0.end())", "(count(v0.begin(),v0.end(),0)!=0)",
                                      "(0!=count(v0.begin(),v0.end(),0))", "(0<count(v0.begin(),v0.end(),0))") and \
                any(f.k(y) == "DeclRefExpr" and f.nodes[y]["decl"].get("id") == order[0] for y in f.walk(f.nodes[kinds["duplicate"]["node"]]["cond"])) if "duplicate" in kinds else False:
            kinds["missing"] = g        # the same flag vector searched for an entry that is still false
    # the validated value is the entry itself, at full width: a narrowed copy would let 2^32+k pass as k
    g = kinds.get("out-of-range")
    narrowed = None
    if g is not None:
        txt, order = f.alpha(f.nodes[g["node"]]["cond"])
        vid = order[0] if order else None
        elem = None
        for x in f.walk():
            if f.k(x) == "DeclStmt":
                for d in f.nodes[x]["decls"]:
                    if d.get("id") == vid:
                        init = f.strip(d["init"], casts=False) if d.get("init", -1) >= 0 else -1
                        src_t = f.nodes[f.strip(d["init"])].get("ct", f.nodes[f.strip(d["init"])].get("t", "")) if d.get("init", -1) >= 0 else ""
                        narrowed = (d.get("ctype", "").replace("const ", ""), src_t.replace("const ", ""))
    if g is not None and narrowed is None or (g is not None and f.alpha(f.nodes[g["node"]]["cond"])[1] and f.alpha(f.nodes[g["node"]]["cond"])[1][0] in iters):
        narrowed = ("size_t", "size_t")        # the element itself, through the iterator: no copy that could narrow it
    wide = {"unsigned long": 8, "size_t": 8, "unsigned long long": 8, "long": 8, "unsigned int": 4, "uint32_t": 4, "int": 4}
    okw = narrowed is not None and wide.get(narrowed[0], 0) >= wide.get(narrowed[1], 8)
    C.ob("VG-3", "permuteDimensions", "entry-not-narrowed", okw, f.loc(g["node"]) if g else f.where(),
         "the value range-checked against ndim has the width of the permutation's element type: checked as %s, element type %s" % (narrowed or ("?", "?")))
    for k in ("wrong-length", "out-of-range", "duplicate", "missing"):
        g = kinds.get(k)
        ok = g is not None
        det = "guard for %s" % k
        if ok:
            gb = None
            for x in f.walk(f.nodes[g["node"]]["cond"]):
                if x in pos:
                    gb = pos[x][0]
                    break
            before = [s_ for s_ in stores if gb in f.reachable_blocks(pos[s_][0])]
            ok = not before
            det += ": `%s`; member writes that can precede it: %d" % (g["text"].replace("this->", ""), len(before))
        C.ob("VG-3", "permuteDimensions", k, ok, f.loc(g["node"]) if g else f.where(), det)
    # the duplicate test reads a flag that the same loop sets for the entry it has just accepted: without the store no duplicate is ever seen
    # (and, with the loop form of the missing test, every argument is refused)
    g = kinds.get("duplicate")
    marked, det = False, "no duplicate guard"
    if g is not None:
        ctxt, corder = f.alpha(f.nodes[g["node"]]["cond"])
        loop = next((a_ for a_ in f.ancestors(g["node"]) if f.k(a_) in ("ForStmt", "CXXForRangeStmt", "WhileStmt")), None)
        want = ctxt.replace(".operator bool()", "")
        marks = []
        for x in (f.walk(loop) if loop is not None else []):
            if (f.k(x) == "CXXOperatorCallExpr" and f.nodes[x].get("opcall") == "=") or (f.k(x) == "BinaryOperator" and f.nodes[x].get("op") == "="):
                t_, o_ = f.alpha(x)
                if t_ in ("(%s = 1)" % want, "(%s = true)" % want) and o_ == corder and f.seq(x) > f.seq(g["node"]) and \
                        not any(f.k(a_) == "IfStmt" for a_ in f.ancestors(x) if loop in list(f.ancestors(a_))):
                    marks.append(x)
        marked = len(marks) == 1
        det = "`%s` is set for the entry after the duplicate test, unconditionally, in the same loop: %d store(s)" % (want.replace("v0", "seen").replace("v1", "entry"), len(marks))
    C.ob("VG-3", "permuteDimensions", "seen-flag-set", marked, f.loc(g["node"]) if g else f.where(), det)


def zd1(P, C):
    """ZD-1: permuteDimensions never indexes its ndim-sized scratch arrays when ndim is 0."""
    C.rule("ZD-1", "permuteDimensions accepts the empty permutation for an empty table (its validation does), so everything that takes element 0 "
           "of an array of ndim elements, or declares a variable-length array of ndim elements, is dominated by an exit under ndim == 0", floor=1)
    f = [g for g in P.fns("permuteDimensions") if g.cls == ts.CLS and g.unit == "driver"][0]
    # hazards: constant-index subscripts of locals sized by ndim, VLAs of extent ndim
    sized = {}
    hazards = []
    for i in f.walk():
        if f.k(i) == "DeclStmt":
            for d in f.nodes[i]["decls"]:
                if d.get("init", -1) >= 0 and any(f.k(y) == "CXXNewExpr" and "ndim" in f.render(y) for y in f.walk(d["init"])):
                    sized[d["id"]] = i
                if d.get("vla") or ("[" in d.get("type", "") and "ndim" in f.render(i) and "new" not in f.render(i)):
                    hazards.append((i, "variable-length array of ndim elements"))
    for i in f.walk():
        if f.k(i) in ("ArraySubscriptExpr", "CXXOperatorCallExpr"):
            ch = f.nodes[i]["ch"]
            if f.k(i) == "CXXOperatorCallExpr" and f.nodes[i].get("opcall") != "[]":
                continue
            base, idx = f.strip(ch[-2]), f.strip(ch[-1])
            if f.k(base) == "DeclRefExpr" and f.nodes[base]["decl"]["id"] in sized and f.nodes[idx].get("cv") == 0:
                hazards.append((i, "element 0 of %s" % f.var_name(f.nodes[base]["decl"]["id"])))
    # the guard: an IfStmt on ndim == 0 (or !ndim) whose then-branch leaves the function
    guards = []
    for i in f.walk():
        if f.k(i) != "IfStmt":
            continue
        c, neg = core.cond_polarity(f, f.nodes[i]["cond"])
        n = f.nodes[c]
        zero = False
        if n["k"] == "BinaryOperator" and n["op"] == "==" and ts.root_member(f, n["ch"][0]) and ts.root_member(f, n["ch"][0])[0] == "ndim" and \
                f.nodes[f.strip(n["ch"][1])].get("cv") == 0 and not neg:
            zero = True
        if n["k"] == "MemberExpr" and ts.root_member(f, c) and ts.root_member(f, c)[0] == "ndim" and neg:
            zero = True
        if zero and any(f.k(y) in ("ReturnStmt", "CXXThrowExpr") for y in f.walk(f.nodes[i]["then"])):
            guards.append(i)
    pos = f.node_positions()
    dom = f.dominators()

    def at(i):
        while i >= 0 and i not in pos:
            i = f.parent[i]
        return pos.get(i)
    bad = []
    if guards:
        pg = at(f.strip(f.nodes[guards[0]]["cond"]))
        for (h, what) in hazards:
            ph = at(h)
            if not (pg and ph and ((pg[0] == ph[0] and pg[1] < ph[1]) or (pg[0] != ph[0] and pg[0] in dom.get(ph[0], ())))):
                bad.append((h, what))
    else:
        bad = hazards
    C.ob("ZD-1", "permuteDimensions", "empty-table", bool(hazards) and not bad, f.loc(bad[0][0]) if bad else f.where(),
         ("%d uses that need ndim >= 1, all behind the exit for ndim == 0" % len(hazards)) if hazards and not bad else
         "%s at %s is reached with ndim == 0 (the empty permutation of an empty table passes the validation)" % (bad[0][1], f.loc(bad[0][0])) if bad else
         "no hazard found (scratch arrays no longer sized by ndim?)")


def zero_dim_value(P, f, e, depth=0):
    """value of integer expression e in a member function of an EMPTY table (ndim == 0, every array null), or None when unknown:
    literals, ndim, + - *, std::accumulate over [p, p+n) with n == 0 (its initial value), calls to parameterless members whose body is
    `return <expression>`."""
    e = f.strip(e)
    n = f.nodes[e]
    k = n["k"]
    if "cv" in n and k in ("IntegerLiteral", "ParenExpr", "ImplicitCastExpr", "CStyleCastExpr", "CXXFunctionalCastExpr"):
        return n["cv"]
    if k == "IntegerLiteral":
        return n.get("v")
    if k == "MemberExpr":
        r = ts.root_member(f, e)
        return 0 if r and r[0] == "ndim" and r[1] == 0 else None
    if k == "BinaryOperator" and n.get("op") in ("+", "-", "*"):
        a, b = (zero_dim_value(P, f, x, depth) for x in n["ch"])
        if a is None or b is None:
            return None
        return a + b if n["op"] == "+" else a - b if n["op"] == "-" else a * b
    cal = n.get("callee")
    if cal and cal["name"] == "accumulate" and cal["qname"].startswith("std::"):
        a = f.args(e)
        if len(a) >= 3:
            first, last = f.strip(a[0]), f.strip(a[1])
            ln = f.nodes[last]
            if ln["k"] == "BinaryOperator" and ln.get("op") == "+" and f.render(ln["ch"][0]) == f.render(first) and zero_dim_value(P, f, ln["ch"][1], depth) == 0:
                return zero_dim_value(P, f, a[2], depth)
        return None
    if cal and depth < 3 and not f.args(e):
        gs = [g for g in P.fns(cal["name"]) if g.usr == cal.get("usr")]
        if gs:
            g = gs[0]
            kids = [x for x in g.ch(g.body)] if g.k(g.body) == "CompoundStmt" else []
            if len(kids) == 1 and g.k(kids[0]) == "ReturnStmt" and g.ch(kids[0]):
                return zero_dim_value(P, g, g.ch(kids[0])[0], depth + 1)
    return None


def es1(P, C):
    """ES-1: comparison is total — operator== does not touch an element of an array that an empty table does not have."""
    C.rule("ES-1", "operator== may be applied to any two tables, empty ones included (a default-constructed, moved-from or failed-to-read table "
           "has ndim == 0 and every array null): each range of an owned array that it compares outside a loop over the dimensions has a length "
           "that is 0 when ndim is 0, or is behind an exit taken when ndim == 0", floor=3)
    f = [g for g in P.fns("operator==") if g.cls == ts.CLS and g.unit == "driver"]
    if not f:
        raise core.AnalysisBroken("ES-1: operator== of the table not found")
    f = f[0]
    pos = f.node_positions()
    dom = f.dominators()

    def at(i):
        while i >= 0 and i not in pos:
            i = f.parent[i]
        return pos.get(i)
    guards = []
    for i in f.walk():
        if f.k(i) != "IfStmt":
            continue
        c, neg = core.cond_polarity(f, f.nodes[i]["cond"])
        n = f.nodes[c]
        zero = False
        if n["k"] == "BinaryOperator" and n["op"] == "==" and not neg:
            orr = f.oriented(c, lambda x: bool(ts.root_member(f, x)) and ts.root_member(f, x)[0] == "ndim")
            zero = bool(orr) and f.nodes[orr[2]].get("cv") == 0
        if n["k"] == "MemberExpr" and ts.root_member(f, c) and ts.root_member(f, c)[0] == "ndim" and neg:
            zero = True
        if zero and any(f.k(y) == "ReturnStmt" for y in f.walk(f.nodes[i]["then"])):
            guards.append(i)
    n_ob = 0
    for i, cal in f.calls():
        if not cal or cal["name"] not in ("equal", "mismatch", "memcmp", "lexicographical_compare"):
            continue
        a = f.args(i)
        if len(a) < 2:
            continue
        r = ts.root_member(f, a[0])
        if not r or r[2] != "this":
            continue
        in_dim_loop = any(f.k(x) == "ForStmt" and "ndim" in f.render(f.nodes[x]["cond"]) for x in f.ancestors(i))
        first, last = f.strip(a[0]), f.strip(a[1])
        ln = f.nodes[last]
        L = ln["ch"][1] if ln["k"] == "BinaryOperator" and ln.get("op") == "+" and f.render(ln["ch"][0]) == f.render(first) else None
        v = zero_dim_value(P, f, L) if L is not None else None
        guarded = False
        for g in guards:
            pg, ph = at(f.strip(f.nodes[g]["cond"])), at(i)
            if pg and ph and ((pg[0] == ph[0] and pg[1] < ph[1]) or (pg[0] != ph[0] and pg[0] in dom.get(ph[0], ()))):
                guarded = True
        ok = in_dim_loop or v == 0 or guarded
        n_ob += 1
        C.ob("ES-1", "operator==", "range:%s" % r[0], ok, f.loc(i),
             ("compares %s over a range that is empty for an empty table%s" % (r[0], " (inside a loop over the dimensions)" if in_dim_loop else " (behind the exit for ndim == 0)" if guarded and v != 0 else ""))
             if ok else
             "compares %s elements of %s when ndim == 0 — but an empty table has no %s array: two empty tables cannot be compared (null dereference)"
             % ("an unknown number of" if v is None else v, r[0], r[0]))
    if n_ob == 0:
        raise core.AnalysisBroken("ES-1: operator== compares no range of an owned array")


def _zero_dim_exits(f, table_expr=None):
    """IfStmt nodes of f that test the table's ndim for zero and leave (return / throw) in the branch taken when it is zero"""
    out = []
    for i in f.walk():
        if f.k(i) != "IfStmt":
            continue
        c, neg = core.cond_polarity(f, f.nodes[i]["cond"])
        n = f.nodes[c]

        def is_ndim(x):
            r = ts.root_member(f, x)
            return bool(r) and r[0] == "ndim"
        zero_then = None
        if n["k"] == "BinaryOperator" and n["op"] in ("==", "!=", "<", "<="):
            orr = f.oriented(c, is_ndim)
            if orr:
                cv = f.nodes[orr[2]].get("cv")
                op = orr[1]
                if op == "==" and cv == 0:
                    zero_then = not neg
                elif op == "!=" and cv == 0:
                    zero_then = neg
                elif op == "<" and cv == 1:          # ndim < 1
                    zero_then = not neg
                elif op == "<=" and cv == 0:
                    zero_then = not neg
        elif n["k"] == "MemberExpr" and is_ndim(c):
            zero_then = neg                          # if(!ndim) ...
        if zero_then is None:
            continue
        arm = f.nodes[i]["then"] if zero_then else f.nodes[i].get("else", -1)
        if arm is not None and arm >= 0 and any(f.k(y) in ("ReturnStmt", "CXXThrowExpr") for y in f.walk(arm)):
            out.append(i)
    return out


def es2(P, C):
    """ES-2: the operations that walk the per-dimension arrays without being told a dimension refuse an empty table."""
    PER_DIM = ("order", "knots", "nknots", "naxes", "strides", "extents", "periods", "coefficients")
    C.rule("ES-2", "an empty table (default-constructed, moved-from, or left empty by a failed read) has ndim == 0 and every array null. The "
           "operations that take no dimension argument and reach into those arrays — searchcenters (and through it the call operator and the "
           "evaluator's lookup), get_evaluator, grideval — leave by `return false` / throw when ndim == 0 before the first element of a "
           "per-dimension array is touched. Without the exit lookup 'succeeds' vacuously on an empty table and the evaluation that follows, "
           "the kernel selection or the grid walk dereference null", floor=3)
    n = 0
    for name in ("searchcenters", "get_evaluator", "grideval"):
        fs_ = [g for g in P.fns(name) if g.cls == ts.CLS and g.unit == "driver"]
        if not fs_:
            raise core.AnalysisBroken("ES-2: %s of the table not found" % name)
        for f in fs_:
            pos = f.node_positions()
            dom = f.dominators()

            def at(i):
                while i >= 0 and i not in pos:
                    i = f.parent[i]
                return pos.get(i)
            exits = _zero_dim_exits(f)
            if name == "searchcenters":
                # the exit has to report failure: every return in its arm is the constant false
                def reports_failure(z):
                    rs = [y for y in f.walk(z) if f.k(y) == "ReturnStmt"]
                    return bool(rs) and all(f.nodes[f.nodes[y]["value"]].get("cv") == 0 for y in rs if f.nodes[y].get("value", -1) >= 0)
                exits = [z for z in exits if reports_failure(z)]
            derefs = []
            for x in f.walk():
                if f.k(x) == "ArraySubscriptExpr":
                    r = ts.root_member(f, x)
                    if r and r[0] in PER_DIM and r[2] == "this":
                        derefs.append(x)
            bad = []
            for x in derefs:
                px = at(x)
                # inside a loop over the dimensions nothing is touched when ndim == 0
                in_dim_loop = any(f.k(a) == "ForStmt" and f.nodes[a].get("cond", -1) >= 0 and "ndim" in f.render(f.nodes[a]["cond"]) and
                                  x not in set(f.walk(f.nodes[a]["init"])) if f.nodes[a].get("init", -1) >= 0 else False for a in f.ancestors(x))
                guarded = False
                for g in exits:
                    pg = at(f.strip(f.nodes[g]["cond"]))
                    if pg and px and ((pg[0] == px[0] and pg[1] < px[1]) or (pg[0] != px[0] and pg[0] in dom.get(px[0], ()))):
                        guarded = True
                if not guarded and not in_dim_loop:
                    bad.append(x)
            # a function all of whose dereferences sit in loops over the dimensions still has to SAY that nothing was found: searchcenters
            returns_true_vacuously = False
            if name == "searchcenters" and not exits:
                returns_true_vacuously = True
            ok = not bad and not returns_true_vacuously
            n += 1
            C.ob("ES-2", ts.fshort(f), "refuses-an-empty-table", ok, f.loc(bad[0]) if bad else f.where(),
                 "leaves when ndim == 0 before any per-dimension array is touched (%d element accesses)" % len(derefs) if ok else
                 ("reports success for ndim == 0 (the loop over the dimensions does not run): the caller goes on to evaluate an empty table" if returns_true_vacuously and not bad else
                  "%s at %s is reached with ndim == 0 (the array is null)" % (f.render(bad[0]).replace("this->", ""), f.loc(bad[0]))))
    return n
