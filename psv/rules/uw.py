"""UW — convolution: totality of the normalisation helper and shape-update agreement (serves C14; shape reused by C19)."""
import re

from .. import core
from ..core import Poly
from . import ts, vg


def uw1(P, C):
    C.rule("UW-1", "factorial is total on the arguments convolve passes (0 included): no unsigned subtraction seeds or steps its counter without a "
           "bound, the accumulator starts at the multiplicative identity, the loop multiplies by every integer from 2 to n exactly once, and the "
           "result type holds (order+n_knots-1)! for the admitted range", floor=4)
    f = P.one("factorial", file_endswith="convolve.cpp")
    n_id = f.params[0]["id"]
    loops = [i for i in f.walk() if f.k(i) in ("ForStmt", "WhileStmt")]
    ok_shape = False
    det = "no loop"
    seed_sub = []
    if len(loops) == 1:
        L = loops[0]
        txt, order = f.alpha(L)
        asc = "ForStmt(unsigned int v0 = 2, (v0 <= $0), (v0++), (v1 *= v0))"
        desc = "ForStmt(unsigned int v0 = $0, (v0 > 1), (v0--), (v1 *= v0))"
        desc1 = "ForStmt(unsigned int v0 = ($0 - 1), (v0 > 1), (v0--), (v1 *= v0))"   # with acc = n and an early return for n < 2
        ok_shape = txt in (asc, desc)
        det = "loop %s" % txt
        init = f.nodes[L].get("init", -1)
        if init >= 0:
            seed_sub = [x for x in f.walk(init) if f.k(x) == "BinaryOperator" and f.nodes[x]["op"] == "-" and
                        "unsigned" in f.nodes[x].get("ct", f.nodes[x].get("t", ""))]
    guards = vg.guards_of(f)
    early = [i for i in f.walk() if f.k(i) == "IfStmt" and any(f.k(x) == "ReturnStmt" for x in f.walk(f.nodes[i]["then"]))]
    C.ob("UW-1", "factorial", "counter-seed", not seed_sub or bool(early), f.loc(seed_sub[0]) if seed_sub else f.where(),
         "the loop counter is not seeded with an unguarded unsigned subtraction" if not seed_sub else
         "the loop counter is seeded with %s in unsigned arithmetic and nothing excludes n == 0: the counter wraps to 2^32-1, the loop runs "
         "2^32 times and the product is 0" % f.render(seed_sub[0]))
    accs = []
    for i in f.walk():
        if f.k(i) == "DeclStmt":
            for d in f.nodes[i]["decls"]:
                if d.get("dk") == "Var" and d.get("init", -1) >= 0 and not any(i in set(f.walk(L)) for L in loops):
                    accs.append((d["name"], d.get("ctype"), f.nodes[d["init"]].get("cv"), f.render(d["init"])))
    small_guard = False
    for e in early:
        rc = core.rel_canon(f, f.nodes[e]["cond"], vg.atomizer(f, ()))
        if rc in ((vg.P_("$0 - 2"), "<0"), (core.eq_norm(vg.P_("$0")), "==0"), (vg.P_("$0 - 1"), "<0")):
            small_guard = True
    if len(loops) == 1 and small_guard and f.alpha(loops[0])[0] == desc1:
        ok_shape = True
    ok_acc = len(accs) == 1 and (accs[0][2] == 1 or (small_guard and accs[0][3] == f.params[0]["name"]))
    C.ob("UW-1", "factorial", "accumulator-identity", ok_acc, f.where(),
         "accumulator starts at 1 so that factorial(0) = factorial(1) = 1: %s" % accs)
    C.ob("UW-1", "factorial", "loop-shape", ok_shape, f.loc(loops[0]) if loops else f.where(),
         det + " (accepted: descending from n while > 1, or ascending from 2 while <= n)")
    rt = f.d["rtype"]
    wide = accs and accs[0][1] in ("unsigned int", "unsigned long", "unsigned long long", "long", "long long")
    C.ob("UW-1", "factorial", "result-width", rt in ("unsigned int", "unsigned long", "uint64_t", "unsigned long long") and bool(wide), f.where(),
         "result type %s / accumulator %s hold 10! = 3628800 (orders <= 5, kernels of <= 6 knots); 13! would overflow 32 bits" % (rt, accs[0][1] if accs else None))
    # call sites in convolve
    cv = [g for g in P.fns("convolve") if g.cls == ts.CLS and g.unit == "driver"][0]
    args = [cv.render(cv.args(i)[0]).replace(" ", "") for i, cal in cv.calls() if cal and cal["name"] == "factorial"]
    C.ob("UW-1", "convolve", "factorial-arguments", sorted(args) == sorted(["q", "(k-1)", "((k+q)-1)"]), cv.where(),
         "convolve evaluates q!(k-1)!/(k+q-1)!: factorial called with %s (k-1 is 0 for an order-0 dimension)" % args)


def convolve_shape(P):
    """symbolic post-state of the shape members in convolve: dict member -> (index text, Poly) over order/nknots of `dim` and n_conv_knots."""
    f = [g for g in P.fns("convolve") if g.cls == ts.CLS and g.unit == "driver"]
    if len(f) != 1:
        raise core.AnalysisBroken("convolve: expected one instantiation")
    f = f[0]
    pidx = {p["id"]: k for k, p in enumerate(f.params)}
    dim_id = f.params[0]["id"]

    def atomize(ff, j):
        n = ff.nodes[j]
        if n["k"] in ("ArraySubscriptExpr", "MemberExpr"):
            r = ts.root_member(ff, j)
            if r:
                s = ff.render(j).replace("this->", "")
                s = s.replace("[%s]" % ff.params[0]["name"], "[DIM]")
                return s
        if n["k"] == "DeclRefExpr" and n["decl"]["kind"] == "ParmVar":
            return "$%d" % pidx[n["decl"]["id"]]
        return None
    env = {}
    # single-definition locals
    for i in f.walk():
        if f.k(i) == "DeclStmt":
            for d in f.nodes[i]["decls"]:
                if d.get("dk") == "Var" and d.get("init", -1) >= 0 and d.get("ctype") in ("const unsigned int", "unsigned int", "unsigned long", "const uint32_t"):
                    re_as = [x for x in f.walk() if ts.assign_parts(f, x) and f.k(f.strip(ts.assign_parts(f, x)[0])) == "DeclRefExpr"
                             and f.nodes[f.strip(ts.assign_parts(f, x)[0])]["decl"]["id"] == d["id"]]
                    if not re_as and f.nodes[d["init"]].get("cv") is None:
                        env[d["id"]] = core.poly(f, d["init"], atomize, env)
    # the knot counter: incremented exactly once in the innermost body of a perfect nest
    counter = None
    for i in f.walk():
        if f.k(i) == "UnaryOperator" and f.nodes[i]["op"] == "++":
            v = f.strip(f.ch(i)[0])
            if f.k(v) != "DeclRefExpr" or f.nodes[v]["decl"]["type"] not in ("size_t", "unsigned long"):
                continue
            loops = [a for a in f.ancestors(i) if f.k(a) == "ForStmt"]
            if len(loops) == 2:
                bounds = []
                perfect = True
                for L in loops:
                    okl, txt = vg.full_range_loop(f, L, ())
                    cn = f.strip(f.nodes[L]["cond"])
                    if f.k(cn) == "BinaryOperator" and f.nodes[cn]["op"] == "<":
                        bounds.append(core.poly(f, f.nodes[cn]["ch"][1], atomize, env))
                    ini = f.render(f.nodes[L]["init"])
                    if not re.search(r"= 0$", ini.strip("() ")):
                        perfect = False
                # the inner loop is the only statement of the outer loop
                outer, inner = loops[1], loops[0]
                if f.strip(f.nodes[outer]["body"]) != inner and f.ch(f.nodes[outer]["body"]) != [inner]:
                    perfect = False
                inits = [d for x in f.walk() if f.k(x) == "DeclStmt" for d in f.nodes[x]["decls"] if d.get("id") == f.nodes[v]["decl"]["id"]]
                zero = bool(inits) and f.nodes[inits[0]["init"]].get("cv") == 0
                incs = [x for x in f.walk() if f.k(x) in ("UnaryOperator", "CompoundAssignOperator", "BinaryOperator") and ts.assign_parts(f, x)
                        and f.k(f.strip(ts.assign_parts(f, x)[0])) == "DeclRefExpr" and f.nodes[f.strip(ts.assign_parts(f, x)[0])]["decl"]["id"] == f.nodes[v]["decl"]["id"]]
                if perfect and zero and len(bounds) == 2 and len(incs) == 1:
                    counter = (f.nodes[v]["decl"]["id"], bounds[0] * bounds[1])
    if counter:
        env[counter[0]] = counter[1]
    # local naxes copy: naxes_local[dim] = ...
    local_naxes = None
    for i in f.walk():
        ap = ts.assign_parts(f, i)
        if ap and ap[1] is not None and not ts.root_member(f, ap[0]):
            l = f.strip(ap[0])
            if f.k(l) == "CXXOperatorCallExpr" and f.nodes[l].get("opcall") == "[]":
                b = f.strip(f.nodes[l]["ch"][1])
                idx = f.strip(f.nodes[l]["ch"][2])
                if f.k(b) == "DeclRefExpr" and f.nodes[b]["decl"]["name"] == "naxes" and f.k(idx) == "DeclRefExpr" and f.nodes[idx]["decl"]["id"] == dim_id:
                    local_naxes = core.poly(f, ap[1], atomize, env)
    post = {}
    others = []
    for i in f.walk():
        ap = ts.assign_parts(f, i)
        if not ap or ap[1] is None:
            continue
        r = ts.root_member(f, ap[0])
        if r and r[0] in ("order", "nknots", "naxes") and r[1] == 1:
            l = f.strip(ap[0])
            idx = f.strip(f.nodes[l]["ch"][1])
            if f.k(idx) == "DeclRefExpr" and f.nodes[idx]["decl"]["id"] == dim_id:
                rhs = f.strip(ap[1])
                if f.k(rhs) == "CXXOperatorCallExpr" and local_naxes is not None and f.render(rhs).startswith("naxes["):
                    post[r[0]] = local_naxes
                else:
                    post[r[0]] = core.poly(f, ap[1], atomize, env)
            else:
                others.append((i, r[0], f.render(idx)))
    return f, post, others, counter


def uw2(P, C):
    C.rule("UW-2", "convolve updates exactly the convolved dimension: order' = order+n-1, nknots' = nknots*n (a counter incremented once in a perfect "
           "nknots x n loop nest), naxes' = nknots'-order'-1; strides are recomputed from the new axis lengths; no other dimension's shape is stored to", floor=5)
    f, post, others, counter = convolve_shape(P)
    n = Poly.atom("$2")
    o, k = Poly.atom("order[DIM]"), Poly.atom("nknots[DIM]")
    want = {"order": o + n - Poly.const(1), "nknots": k * n, "naxes": k * n - (o + n - Poly.const(1)) - Poly.const(1)}
    for m in ("order", "nknots", "naxes"):
        C.ob("UW-2", "convolve", "post:" + m, post.get(m) == want[m], f.where(), "%s[dim] becomes %r (required %r)" % (m, post.get(m), want[m]))
    C.ob("UW-2", "convolve", "knot-counter", counter is not None, f.where(),
         "the new knot count is a counter started at 0 and incremented exactly once per (old knot, kernel knot) pair: %r" % (counter[1] if counter else None))
    C.ob("UW-2", "convolve", "other-dimensions-untouched", not others, f.loc(others[0][0]) if others else f.where(),
         "no store to order/nknots/naxes of a dimension other than dim: %s" % [(m, ix) for _i, m, ix in others])
    cp = [f.render(i).replace(" ", "") for i, cal in f.calls() if cal and cal["name"] == "copy" and ts.root_member(f, f.args(i)[2]) and ts.root_member(f, f.args(i)[2])[0] == "strides"]
    C.ob("UW-2", "convolve", "strides-recomputed", cp == ["copy(strides.get(),(strides.get()+this->ndim),this->strides)"], f.where(),
         "strides are replaced by the ones computed from the new axis lengths: %s" % cp)
    return post


def uw4(P, C):
    C.rule("UW-4", "the transfer matrix is computed for every (new spline, old spline) pair — a perfect loop nest over naxes'[dim] x naxes[dim] "
           "whose body assigns trafo[i*old + j] = norm * convoluted_blossom(&knots[dim][j], k+1, kernel, n, rho[i], &rho[i+1], k+q-1) — and "
           "applied to every slice by a perfect 4-level nest; no entry is skipped", floor=2)
    f = [g for g in P.fns("convolve") if g.cls == ts.CLS and g.unit == "driver"][0]
    fill = [i for i in f.walk() if ts.assign_parts(f, i) and f.render(ts.assign_parts(f, i)[0]).startswith("trafo[")]
    ok = False
    det = "%d stores into the transfer matrix" % len(fill)
    if len(fill) == 1:
        a = fill[0]
        loops = [x for x in f.ancestors(a) if f.k(x) == "ForStmt"]
        conds = [x for x in f.ancestors(a) if f.k(x) == "IfStmt"]
        txt = f.alpha(loops[-1])[0].replace(" ", "") if loops else ""
        want = ("ForStmt(uint32_tv0=0,(v0<v1[$0]),(v0++),CompoundStmt(ForStmt(uint32_tv2=0,(v2<naxes[$0]),(v2++),CompoundStmt((v3[((v0*naxes[$0])+v2)]="
                "(v4*convoluted_blossom((&knots[$0][v2]),(v5+1),$1,$2,v6[v0],(&v6[(v0+1)]),((v5+v7)-1))))))))")
        ok = len(loops) == 2 and not conds and txt == want
        det = "fill nest %s" % ("matches" if txt == want else txt[:260])
    C.ob("UW-4", "convolve", "transfer-matrix-complete", ok, f.loc(fill[0]) if fill else f.where(), det)
    app = [i for i in f.walk() if f.k(i) == "CompoundAssignOperator" and f.nodes[i]["op"] == "+=" and f.render(f.nodes[i]["ch"][0]).startswith("coefficients[")]
    ok2 = False
    det2 = "%d accumulate statements" % len(app)
    if len(app) == 1:
        loops = [x for x in f.ancestors(app[0]) if f.k(x) == "ForStmt"]
        conds = [x for x in f.ancestors(app[0]) if f.k(x) == "IfStmt"]
        txt = f.alpha(loops[-1])[0].replace(" ", "") if loops else ""
        want = ("ForStmt(uint32_tv0=0,(v0<v1),(v0++),ForStmt(uint32_tv2=0,(v2<v3[$0]),(v2++),ForStmt(uint32_tv4=0,(v4<naxes[$0]),(v4++),"
                "ForStmt(uint32_tv5=0,(v5<v6),(v5++),(v7[((((v0*v6)*v3[$0])+(v2*v6))+v5)]+=(v8[((v2*naxes[$0])+v4)]*coefficients[((((v0*v6)*naxes[$0])+(v4*v6))+v5)]))))))")
        ok2 = len(loops) == 4 and not conds and txt == want
        det2 = "apply nest %s" % ("matches" if txt == want else txt[:300])
    C.ob("UW-4", "convolve", "applied-to-every-slice", ok2, f.loc(app[0]) if app else f.where(), det2)
