"""UW — convolution: totality of the normalisation helper and shape-update agreement (serves C14; shape reused by C19)."""
import re

from .. import core
from ..core import Poly
from . import ts, vg


def uw1(P, C):
    C.rule("UW-1", "factorial is total on the arguments convolve passes (0 included): no unsigned subtraction seeds or steps its counter without a "
           "bound, the accumulator starts at the multiplicative identity, the loop multiplies by every integer from 2 to n exactly once, and the "
           "result type holds (order+n_knots-1)! for the admitted range", floor=4)
    f = P.one("factorial", file_endswith="convolve.cpp")
    n_id = f.params[0]["id"]
    loops = [i for i in f.walk() if f.k(i) in ("ForStmt", "WhileStmt")]
    ok_shape = False
    det = "no loop"
    seed_sub = []
    if len(loops) == 1:
        L = loops[0]
        txt, order = f.alpha(L)
        asc = "ForStmt(unsigned int v0 = 2, (v0 <= $0), (v0++), (v1 *= v0))"
        desc = "ForStmt(unsigned int v0 = $0, (1 < v0), (v0--), (v1 *= v0))"
        desc1 = "ForStmt(unsigned int v0 = ($0 - 1), (1 < v0), (v0--), (v1 *= v0))"   # with acc = n and an early return for n < 2
        ok_shape = txt in (asc, desc)
        det = "loop %s" % txt
        init = f.nodes[L].get("init", -1)
        if init >= 0:
            seed_sub = [x for x in f.walk(init) if f.k(x) == "BinaryOperator" and f.nodes[x]["op"] == "-" and
                        "unsigned" in f.nodes[x].get("ct", f.nodes[x].get("t", ""))]
    guards = vg.guards_of(f)
    early = [i for i in f.walk() if f.k(i) == "IfStmt" and any(f.k(x) == "ReturnStmt" for x in f.walk(f.nodes[i]["then"]))]
    C.ob("UW-1", "factorial", "counter-seed", not seed_sub or bool(early), f.loc(seed_sub[0]) if seed_sub else f.where(),
         "the loop counter is not seeded with an unguarded unsigned subtraction" if not seed_sub else
         "the loop counter is seeded with %s in unsigned arithmetic and nothing excludes n == 0: the counter wraps to 2^32-1, the loop runs "
         "2^32 times and the product is 0" % f.render(seed_sub[0]))
    accs = []
    for i in f.walk():
        if f.k(i) == "DeclStmt":
            for d in f.nodes[i]["decls"]:
                if d.get("dk") == "Var" and d.get("init", -1) >= 0 and not any(i in set(f.walk(L)) for L in loops):
                    iv = f.nodes[f.strip(d["init"])]
                    one = iv.get("cv", iv.get("v"))
                    accs.append((d["name"], d.get("ctype"), 1 if one in (1, 1.0, "1", "1.0", "1.") else one, f.render(d["init"])))
    small_guard = False
    for e in early:
        rc = core.rel_canon(f, f.nodes[e]["cond"], vg.atomizer(f, ()))
        if rc in ((vg.P_("$0 - 2"), "<0"), (core.eq_norm(vg.P_("$0")), "==0"), (vg.P_("$0 - 1"), "<0")):
            small_guard = True
    if len(loops) == 1 and small_guard and f.alpha(loops[0])[0] == desc1:
        ok_shape = True
    ok_acc = len(accs) == 1 and (accs[0][2] == 1 or (small_guard and accs[0][3] == f.params[0]["name"]))
    C.ob("UW-1", "factorial", "accumulator-identity", ok_acc, f.where(),
         "accumulator starts at 1 so that factorial(0) = factorial(1) = 1: %s" % accs)
    C.ob("UW-1", "factorial", "loop-shape", ok_shape, f.loc(loops[0]) if loops else f.where(),
         det + " (accepted: descending from n while > 1, or ascending from 2 while <= n)")
    rt = f.d["rtype"]
    # 'for every spline order >= 0': a table can be convolved again, and the order rises each time — 13! does not fit 32 bits, 21! not 64
    # (D58: order 8 with a 6-knot kernel). Only a floating-point product has no such cliff.
    wide = accs and accs[0][1] in ("double", "long double")
    C.ob("UW-1", "factorial", "result-width", rt in ("double", "long double") and bool(wide), f.where(),
         ("result type %s / accumulator %s: floating point, no overflow for any order a table can reach" % (rt, accs[0][1] if accs else None)) if rt in ("double", "long double") and wide else
         "result type %s / accumulator %s: an integer factorial wraps from 13! (32 bits) or 21! (64 bits) on, i.e. from order + kernel knots - 1 >= 13 — the "
         "normalisation of the convolution is then wrong for every value" % (rt, accs[0][1] if accs else None))
    # call sites in convolve
    cv = [g for g in P.fns("convolve") if g.cls == ts.CLS and g.unit == "driver"][0]
    def by_def(a):
        # the argument with each local replaced by its defining expression (k := order[dim]+1, q := n-1): independent of the names
        txt, order = cv.alpha(a)
        for n_, vid in reversed(list(enumerate(order))):
            ini = _local_init(cv, vid)
            txt = txt.replace("v%d" % n_, "{%s}" % (cv.alpha(ini)[0] if ini is not None else "?"))
        return txt.replace(" ", "")
    args = [by_def(cv.args(i)[0]) for i, cal in cv.calls() if cal and cal["name"] == "factorial"]
    K, Q = "{(order[$0]+1)}", "{($2-1)}"
    C.ob("UW-1", "convolve", "factorial-arguments", sorted(args) == sorted([Q, "(%s-1)" % K, "((%s+%s)-1)" % (K, Q)]), cv.where(),
         "convolve evaluates q!(k-1)!/(k+q-1)!: factorial called with %s (k-1 is 0 for an order-0 dimension)" % args)


def convolve_shape(P):
    """symbolic post-state of the shape members in convolve: dict member -> (index text, Poly) over order/nknots of `dim` and n_conv_knots."""
    f = [g for g in P.fns("convolve") if g.cls == ts.CLS and g.unit == "driver"]
    if len(f) != 1:
        raise core.AnalysisBroken("convolve: expected one instantiation")
    f = f[0]
    pidx = {p["id"]: k for k, p in enumerate(f.params)}
    dim_id = f.params[0]["id"]

    def atomize(ff, j):
        n = ff.nodes[j]
        if n["k"] in ("ArraySubscriptExpr", "MemberExpr"):
            r = ts.root_member(ff, j)
            if r:
                s = ff.render(j).replace("this->", "")
                s = s.replace("[%s]" % ff.params[0]["name"], "[DIM]")
                return s
        if n["k"] == "DeclRefExpr" and n["decl"]["kind"] == "ParmVar":
            return "$%d" % pidx[n["decl"]["id"]]
        return None
    env = {}
    # single-definition locals
    for i in f.walk():
        if f.k(i) == "DeclStmt":
            for d in f.nodes[i]["decls"]:
                if d.get("dk") == "Var" and d.get("init", -1) >= 0 and d.get("ctype") in ("const unsigned int", "unsigned int", "unsigned long", "const uint32_t"):
                    re_as = [x for x in f.walk() if ts.assign_parts(f, x) and f.k(f.strip(ts.assign_parts(f, x)[0])) == "DeclRefExpr"
                             and f.nodes[f.strip(ts.assign_parts(f, x)[0])]["decl"]["id"] == d["id"]]
                    if not re_as and f.nodes[d["init"]].get("cv") is None:
                        env[d["id"]] = core.poly(f, d["init"], atomize, env)
    # the knot counter: incremented exactly once in the innermost body of a perfect nest
    counter = None
    for i in f.walk():
        if f.k(i) == "UnaryOperator" and f.nodes[i]["op"] == "++":
            v = f.strip(f.ch(i)[0])
            if f.k(v) != "DeclRefExpr" or f.nodes[v]["decl"]["type"] not in ("size_t", "unsigned long"):
                continue
            loops = [a for a in f.ancestors(i) if f.k(a) == "ForStmt"]
            if len(loops) == 2:
                bounds = []
                perfect = True
                for L in loops:
                    okl, txt = vg.full_range_loop(f, L, ())
                    cn = f.strip(f.nodes[L]["cond"])
                    if f.k(cn) == "BinaryOperator" and f.nodes[cn]["op"] == "<":
                        bounds.append(core.poly(f, f.nodes[cn]["ch"][1], atomize, env))
                    ini = f.render(f.nodes[L]["init"])
                    if not re.search(r"= 0$", ini.strip("() ")):
                        perfect = False
                # the inner loop is the only statement of the outer loop
                outer, inner = loops[1], loops[0]
                if f.strip(f.nodes[outer]["body"]) != inner and f.ch(f.nodes[outer]["body"]) != [inner]:
                    perfect = False
                inits = [d for x in f.walk() if f.k(x) == "DeclStmt" for d in f.nodes[x]["decls"] if d.get("id") == f.nodes[v]["decl"]["id"]]
                zero = bool(inits) and f.nodes[inits[0]["init"]].get("cv") == 0
                incs = [x for x in f.walk() if f.k(x) in ("UnaryOperator", "CompoundAssignOperator", "BinaryOperator") and ts.assign_parts(f, x)
                        and f.k(f.strip(ts.assign_parts(f, x)[0])) == "DeclRefExpr" and f.nodes[f.strip(ts.assign_parts(f, x)[0])]["decl"]["id"] == f.nodes[v]["decl"]["id"]]
                if perfect and zero and len(bounds) == 2 and len(incs) == 1:
                    counter = (f.nodes[v]["decl"]["id"], bounds[0] * bounds[1])
    if counter:
        env[counter[0]] = counter[1]
    # local naxes copy: naxes_local[dim] = ...
    local_naxes = None
    for i in f.walk():
        ap = ts.assign_parts(f, i)
        if ap and ap[1] is not None and not ts.root_member(f, ap[0]):
            l = f.strip(ap[0])
            if f.k(l) == "CXXOperatorCallExpr" and f.nodes[l].get("opcall") == "[]":
                b = f.strip(f.nodes[l]["ch"][1])
                idx = f.strip(f.nodes[l]["ch"][2])
                if f.k(b) == "DeclRefExpr" and f.nodes[b]["decl"]["name"] == "naxes" and f.k(idx) == "DeclRefExpr" and f.nodes[idx]["decl"]["id"] == dim_id:
                    local_naxes = core.poly(f, ap[1], atomize, env)
    post = {}
    others = []
    for i in f.walk():
        ap = ts.assign_parts(f, i)
        if not ap or ap[1] is None:
            continue
        r = ts.root_member(f, ap[0])
        if r and r[0] in ("order", "nknots", "naxes") and r[1] == 1:
            l = f.strip(ap[0])
            idx = f.strip(f.nodes[l]["ch"][1])
            if f.k(idx) == "DeclRefExpr" and f.nodes[idx]["decl"]["id"] == dim_id:
                rhs = f.strip(ap[1])
                if f.k(rhs) == "CXXOperatorCallExpr" and local_naxes is not None and f.render(rhs).startswith("naxes["):
                    post[r[0]] = local_naxes
                else:
                    post[r[0]] = core.poly(f, ap[1], atomize, env)
            else:
                others.append((i, r[0], f.render(idx)))
    return f, post, others, counter


def uw2(P, C):
    C.rule("UW-2", "convolve updates exactly the convolved dimension: order' = order+n-1, nknots' = nknots*n (a counter incremented once in a perfect "
           "nknots x n loop nest), naxes' = nknots'-order'-1; strides are recomputed from the new axis lengths; no other dimension's shape is stored to", floor=5)
    f, post, others, counter = convolve_shape(P)
    n = Poly.atom("$2")
    o, k = Poly.atom("order[DIM]"), Poly.atom("nknots[DIM]")
    want = {"order": o + n - Poly.const(1), "nknots": k * n, "naxes": k * n - (o + n - Poly.const(1)) - Poly.const(1)}
    for m in ("order", "nknots", "naxes"):
        C.ob("UW-2", "convolve", "post:" + m, post.get(m) == want[m], f.where(), "%s[dim] becomes %r (required %r)" % (m, post.get(m), want[m]))
    C.ob("UW-2", "convolve", "knot-counter", counter is not None, f.where(),
         "the new knot count is a counter started at 0 and incremented exactly once per (old knot, kernel knot) pair: %r" % (counter[1] if counter else None))
    C.ob("UW-2", "convolve", "other-dimensions-untouched", not others, f.loc(others[0][0]) if others else f.where(),
         "no store to order/nknots/naxes of a dimension other than dim: %s" % [(m, ix) for _i, m, ix in others])
    cp = [f.render(i).replace(" ", "") for i, cal in f.calls() if cal and cal["name"] == "copy" and ts.root_member(f, f.args(i)[2]) and ts.root_member(f, f.args(i)[2])[0] == "strides"]
    C.ob("UW-2", "convolve", "strides-recomputed", cp == ["copy(strides.get(),(strides.get()+this->ndim),this->strides)"], f.where(),
         "strides are replaced by the ones computed from the new axis lengths: %s" % cp)
    return post


def canonical_loop(f, L):
    """ForStmt `for (T v = 0; v < B; v++)` (or ++v) whose body neither breaks nor continues: (decl id of v, rendered B) else None"""
    n = f.nodes[L]
    if n["k"] != "ForStmt" or n.get("init", -1) < 0 or n.get("cond", -1) < 0 or n.get("inc", -1) < 0:
        return None
    ini = f.nodes[n["init"]]
    if ini["k"] != "DeclStmt" or len(ini["decls"]) != 1 or ini["decls"][0].get("init", -1) < 0 or f.nodes[f.strip(ini["decls"][0]["init"])].get("cv") != 0:
        return None
    vid = ini["decls"][0]["id"]
    c = f.nodes[f.strip(n["cond"])]
    if c["k"] != "BinaryOperator" or c["op"] != "<":
        return None
    lv = f.strip(c["ch"][0])
    if f.k(lv) != "DeclRefExpr" or f.nodes[lv]["decl"]["id"] != vid:
        return None
    inc = f.nodes[f.strip(n["inc"])]
    if inc["k"] != "UnaryOperator" or inc["op"] != "++":
        return None
    iv = f.strip(inc["ch"][0])
    if f.k(iv) != "DeclRefExpr" or f.nodes[iv]["decl"]["id"] != vid:
        return None
    if any(f.k(x) in ("BreakStmt", "ContinueStmt", "GotoStmt", "ReturnStmt") for x in f.walk(n["body"])):
        return None
    # the loop variable is not written in the body
    for x in f.walk(n["body"]):
        ap = ts.assign_parts(f, x)
        if ap:
            t = f.strip(ap[0])
            if f.k(t) == "DeclRefExpr" and f.nodes[t]["decl"]["id"] == vid:
                return None
    return vid, f.render(c["ch"][1]).replace("this->", "").replace(" ", "")


def _nest(f, node):
    """canonical loops enclosing node, outermost first, or None if any enclosing loop/branch is not a plain counting loop"""
    out = []
    for a in f.ancestors(node):
        k = f.k(a)
        if k in ("IfStmt", "WhileStmt", "DoStmt", "SwitchStmt", "ConditionalOperator"):
            return None
        if k == "ForStmt":
            cl = canonical_loop(f, a)
            if cl is None:
                return None
            out.append(cl)
    return list(reversed(out))


def _local_init(f, vid):
    for d in f.walk():
        if f.k(d) == "DeclStmt":
            for dd in f.nodes[d]["decls"]:
                if dd.get("id") == vid and dd.get("init", -1) >= 0:
                    return dd["init"]
    return None


def _bound_decl(f, L):
    """declaration id of the variable (or array) the loop bound reads: v < B or v < B[...]; ('member', name) for a member"""
    b = f.strip(f.nodes[f.strip(f.nodes[L]["cond"])]["ch"][1])
    r = ts.root_member(f, b)
    if r:
        return ("member", r[0])
    while f.k(b) in ("ArraySubscriptExpr", "CXXOperatorCallExpr"):
        ch = f.nodes[b]["ch"]
        b = f.strip(ch[1] if f.k(b) == "CXXOperatorCallExpr" and len(ch) > 2 else ch[0])
    if f.k(b) == "DeclRefExpr":
        return ("local", f.nodes[b]["decl"]["id"])
    return ("?", f.render(b))


def uw4(P, C):
    C.rule("UW-4", "the transfer matrix is computed for every (new spline, old spline) pair — one store, inside a perfect nest of two plain "
           "counting loops 0..new count and 0..old count with no branch, break or continue, trafo[i*old + j] = norm * convoluted_blossom("
           "&knots[dim][j], k+1, kernel, n, rho[i], &rho[i+1], k+q-1) with k = order[dim]+1 and q = n-1 — and applied to every slice by a "
           "perfect 4-level nest; variables are identified by declaration and role, not by name", floor=2)
    f = [g for g in P.fns("convolve") if g.cls == ts.CLS and g.unit == "driver"][0]
    fill = [i for i in f.walk() if ts.assign_parts(f, i) and f.k(i) in ("BinaryOperator", "CXXOperatorCallExpr") and
            "convoluted_blossom" in f.render(i) and not any(ts.assign_parts(f, a) for a in f.ancestors(i))]
    ok = False
    trafo_id = None
    det = "%d stores of a blossom" % len(fill)
    if len(fill) == 1:
        nest = _nest(f, fill[0])
        loops = [a for a in f.ancestors(fill[0]) if f.k(a) == "ForStmt"]
        if nest is None or len(nest) != 2:
            det = "the store is not inside a perfect nest of two counting loops (a branch, break, continue or irregular loop encloses it)"
        else:
            (vi, _), (vj, _) = nest
            txt, order = f.alpha(fill[0])
            txt = txt.replace(" ", "")
            want = "(v0[((v1*naxes[$0])+v2)]=(v3*convoluted_blossom((&knots[$0][v2]),(v4+1),$1,$2,v5[v1],(&v5[(v1+1)]),((v4+v6)-1))))"
            roles = len(order) == 7 and order[1] == vi and order[2] == vj
            kdef = qdef = ""
            if len(order) == 7:
                ki, qi = _local_init(f, order[4]), _local_init(f, order[6])
                kdef = f.alpha(ki)[0].replace(" ", "") if ki is not None else "?"
                qdef = f.alpha(qi)[0].replace(" ", "") if qi is not None else "?"
                trafo_id = order[0]
            bo, bi_ = _bound_decl(f, loops[-1]), _bound_decl(f, loops[0])
            ok = txt == want and roles and kdef == "(order[$0]+1)" and qdef == "($2-1)" and bo[0] == "local" and bi_ == ("member", "naxes")
            det = "statement %s; loop roles %s; k := %s, q := %s; outer bound %s, inner bound %s" % (
                "matches" if txt == want else txt[:200], "ok" if roles else "WRONG", kdef, qdef, bo[0], bi_)
    C.ob("UW-4", "convolve", "transfer-matrix-complete", ok, f.loc(fill[0]) if fill else f.where(), det)
    app = [i for i in f.walk() if f.k(i) in ("CompoundAssignOperator", "CXXOperatorCallExpr") and f.nodes[i].get("op", f.nodes[i].get("opcall")) == "+=" and
           ts.root_member(f, f.nodes[i]["ch"][-1] if f.k(i) == "CompoundAssignOperator" else f.nodes[i]["ch"][-1]) is None and
           "coefficients[" in f.render(f.nodes[i]["ch"][-1]).replace("this->", "")]
    ok2 = False
    det2 = "%d accumulate statements over the old coefficients" % len(app)
    if len(app) == 1:
        nest = _nest(f, app[0])
        loops = list(reversed([a for a in f.ancestors(app[0]) if f.k(a) == "ForStmt"]))
        if nest is None or len(nest) != 4:
            det2 = "the accumulation is not inside a perfect nest of four counting loops"
        else:
            ids = [v for v, _ in nest]
            txt, order = f.alpha(app[0])
            txt = txt.replace(" ", "")
            want = "(v0[((((v1*v2)*v3[$0])+(v4*v2))+v5)]+=(v6[((v4*naxes[$0])+v7)]*coefficients[((((v1*v2)*naxes[$0])+(v7*v2))+v5)]))"
            roles = len(order) == 8 and ids == [order[1], order[4], order[7], order[5]]
            bounds = [_bound_decl(f, L) for L in loops]
            bok = len(order) == 8 and bounds[1] == ("local", order[3]) and bounds[2] == ("member", "naxes") and bounds[3] == ("local", order[2]) and \
                bounds[0][0] == "local" and bounds[0][1] not in order
            same_trafo = len(order) == 8 and order[6] == trafo_id
            ok2 = txt == want and roles and bok and same_trafo
            det2 = "statement %s; loop roles %s; bounds %s; multiplies by the matrix filled above: %s" % (
                "matches" if txt == want else txt[:260], "ok" if roles else "WRONG", "ok" if bok else bounds, same_trafo)
    C.ob("UW-4", "convolve", "applied-to-every-slice", ok2, f.loc(app[0]) if app else f.where(), det2)


def vg4(P, C):
    """VG-4: convolve refuses an out-of-range dimension and an empty kernel before touching anything indexed by them."""
    from . import vg
    C.rule("VG-4", "convolve rejects dim >= ndim and a null or empty kernel by throwing guards that dominate every use of dim as a subscript and "
           "every read of the kernel; nothing of the table is modified before them", floor=2)
    f = [g for g in P.fns("convolve") if g.cls == ts.CLS and g.unit == "driver"][0]
    gs = vg.guards_of(f)
    want_dim = (core.Poly.const(-1) - core.Poly.atom("$0") + core.Poly.atom("ndim"), "<0")
    gd = [g for g in gs if g["conn"] == "leaf" and g["leaves"] and g["leaves"][0] == want_dim]
    gk = [g for g in gs if g["conn"] in ("leaf", "||") and
          any(isinstance(l, tuple) and len(l) == 2 and l[1] == "==0" and l[0] in (core.Poly.atom("$2"), core.eq_norm(core.Poly.atom("$2"))) for l in g["leaves"])]
    pos = f.node_positions()
    dom = f.dominators()

    def at(i):
        while i >= 0 and i not in pos:
            i = f.parent[i]
        return pos.get(i)

    def dominated(guard, nodes):
        pg = at(f.strip(f.nodes[guard["node"]]["cond"]))
        bad = []
        for x in nodes:
            px = at(x)
            if not px or not pg:
                continue
            if not ((pg[0] == px[0] and pg[1] < px[1]) or (pg[0] != px[0] and pg[0] in dom.get(px[0], ()))):
                bad.append(x)
        return bad
    dim_id = f.params[0]["id"]
    kern_id, n_id = f.params[1]["id"], f.params[2]["id"]
    subs = [i for i in f.walk() if f.k(i) == "ArraySubscriptExpr" and any(f.k(y) == "DeclRefExpr" and f.nodes[y]["decl"]["id"] == dim_id for y in f.walk(f.nodes[i]["ch"][1]))]
    kuses = [i for i in f.walk() if f.k(i) == "DeclRefExpr" and f.nodes[i]["decl"]["id"] in (kern_id, n_id) and
             not any(a in [g["node"] for g in gk] for a in f.ancestors(i))]
    stores = [i for i in f.walk() if ts.member_writes(f, i)]
    okd = len(gd) == 1 and not dominated(gd[0], subs) and not dominated(gd[0], stores)
    C.ob("VG-4", "convolve", "dimension-in-range", okd, f.loc(gd[0]["node"]) if gd else f.where(),
         ("`dim >= ndim` throws before any of the %d subscripts by dim and before any member store" % len(subs)) if okd else
         ("no throwing guard equivalent to dim >= ndim" if len(gd) != 1 else "a subscript by dim or a member store is not dominated by the guard: %s" %
          [f.loc(x) for x in (dominated(gd[0], subs) + dominated(gd[0], stores))[:3]]))
    okk = len(gk) == 1 and not dominated(gk[0], kuses) and not dominated(gk[0], stores)
    C.ob("VG-4", "convolve", "kernel-not-empty", okk, f.loc(gk[0]["node"]) if gk else f.where(),
         ("an empty kernel throws before any of the %d uses of the kernel arguments" % len(kuses)) if okk else
         ("no throwing guard with n_conv_knots == 0" if len(gk) != 1 else "a use of the kernel is not dominated by the guard: %s" % [f.loc(x) for x in dominated(gk[0], kuses)[:3]]))


def uw5(P, C):
    """UW-5: the prefactor of the transfer matrix is q!(k-1)!/(k+q-1)! and nothing else (no order-dependent sign)."""
    C.rule("UW-5", "the factor multiplying every blossom is defined once as q!(k-1)!/(k+q-1)! (k = order[dim]+1, q = kernel knots-1) in floating "
           "point and never modified: in particular no sign that depends on the parity of the order (lemma, DESIGN §5 D33: the convolution of "
           "non-negative splines is non-negative for every order; replay against numerical integration for orders 0..5)", floor=2)
    f = [g for g in P.fns("convolve") if g.cls == ts.CLS and g.unit == "driver"][0]
    fill = [i for i in f.walk() if ts.assign_parts(f, i) and f.k(i) in ("BinaryOperator", "CXXOperatorCallExpr") and
            "convoluted_blossom" in f.render(i) and not any(ts.assign_parts(f, a) for a in f.ancestors(i))]
    if len(fill) != 1:
        raise core.AnalysisBroken("UW-5: the store of the blossom into the transfer matrix was not found (see UW-4)")
    txt, order = f.alpha(fill[0])
    rhs = f.strip(ts.assign_parts(f, fill[0])[1])
    # the factor: left operand of the product whose right operand is the blossom call
    nid = None
    if f.k(rhs) == "BinaryOperator" and f.nodes[rhs]["op"] == "*":
        l = f.strip(f.nodes[rhs]["ch"][0])
        if f.k(l) == "DeclRefExpr":
            nid = f.nodes[l]["decl"]["id"]
    ini = _local_init(f, nid) if nid is not None else None

    def by_def(a):
        t, o = f.alpha(a)
        for n_, vid in reversed(list(enumerate(o))):
            d = _local_init(f, vid)
            t = t.replace("v%d" % n_, "{%s}" % (f.alpha(d)[0] if d is not None else "?"))
        return t.replace(" ", "")
    K, Q = "{(order[$0]+1)}", "{($2-1)}"
    want = "((factorial(%s)*factorial((%s-1)))/factorial(((%s+%s)-1)))" % (Q, K, K, Q)
    got = by_def(ini) if ini is not None else None
    # the product of the two factorials has to be formed in floating point as well (the casts are then redundant and may be written or not)
    prod_fp = False
    if ini is not None:
        for x in f.walk(ini):
            if f.k(x) == "BinaryOperator" and f.nodes[x].get("op") == "*" and all("factorial" in f.render(c) for c in f.nodes[x]["ch"]):
                prod_fp = f.nodes[x].get("t") in ("double", "long double")
    got_n = got.replace("(double)", "") if got else got
    while got_n and "((factorial" in got_n and got_n != want and got_n.replace("((factorial(%s)*factorial((%s-1))))" % (Q, K), "(factorial(%s)*factorial((%s-1)))" % (Q, K)) != got_n:
        got_n = got_n.replace("((factorial(%s)*factorial((%s-1))))" % (Q, K), "(factorial(%s)*factorial((%s-1)))" % (Q, K))
    C.ob("UW-5", "convolve", "prefactor-in-floating-point", prod_fp, f.loc(ini) if ini is not None else f.where(),
         "q!*(k-1)! is formed in floating point" if prod_fp else "the product q!*(k-1)! is formed in an integer type and wraps (q=5, k-1=11: 4.8e9 > 2^32) before it is converted")
    got, want = got_n, want
    C.ob("UW-5", "convolve", "prefactor-value", got == want, f.loc(ini) if ini is not None else f.where(),
         "prefactor = %s" % (got if got != want else "q!(k-1)!/(k+q-1)! in floating point"))
    writes = []
    for i in f.walk():
        ap = ts.assign_parts(f, i)
        if ap:
            t = f.strip(ap[0])
            if f.k(t) == "DeclRefExpr" and f.nodes[t]["decl"]["id"] == nid:
                writes.append(i)
    C.ob("UW-5", "convolve", "prefactor-not-modified", nid is not None and not writes, f.loc(writes[0]) if writes else f.where(),
         "the prefactor is never assigned after its definition" if not writes else
         "the prefactor is modified at %s (%s): a correction that depends on the order changes the sign or size of the convolution for some orders"
         % (f.loc(writes[0]), f.render(writes[0])[:80]))


def uw6(P, C):
    """UW-6: scale equivariance of the convolution kernels: no absolute tolerance."""
    C.rule("UW-6", "the numerical kernels of the convolution (divdiff, convoluted_blossom, and convolve's own arithmetic) are equivariant under a "
           "change of axis units: they contain no floating-point constant other than 0 and +-1, and every ordering comparison of floating "
           "values is between runtime quantities or against exact 0 — an absolute tolerance (FLT_EPSILON, 1e-9 ...) would make the result "
           "depend on the units of the knots", floor=3)
    fns = [("divdiff", P.one("divdiff", file_endswith="convolve.cpp")), ("convoluted_blossom", P.one("convoluted_blossom", file_endswith="convolve.cpp")),
           ("convolve", [g for g in P.fns("convolve") if g.cls == ts.CLS and g.unit == "driver"][0])]
    for name, f in fns:
        consts = []
        for i in f.walk():
            n = f.nodes[i]
            if n["k"] == "FloatingLiteral" and n.get("v") not in (0, 1, -1, 0.0, 1.0, -1.0):
                consts.append((i, "%s%s" % (n.get("v"), " (%s)" % n["macros"][-1] if n.get("macros") else "")))
        cmps = []
        for i in f.walk():
            n = f.nodes[i]
            if n["k"] == "BinaryOperator" and n["op"] in ("<", ">", "<=", ">="):
                l, r = f.strip(n["ch"][0], casts=True), f.strip(n["ch"][1], casts=True)
                isf = any("double" in f.nodes[x].get("t", "") or "float" in f.nodes[x].get("t", "") for x in (n["ch"][0], n["ch"][1], l, r))
                if not isf:
                    continue
                for side in (l, r):
                    sn = f.nodes[side]
                    if sn["k"] in ("FloatingLiteral", "IntegerLiteral") and sn.get("v") not in (0, 0.0):
                        cmps.append((i, f.render(i)))
        bad = consts + cmps
        C.ob("UW-6", name, "no-absolute-tolerance", not bad, f.loc(bad[0][0]) if bad else f.where(),
             "no floating constant other than 0 and 1; floating comparisons only against 0 or runtime values" if not bad else
             "absolute constant %s at %s: the result now depends on the units of the knot axis" % (bad[0][1], f.loc(bad[0][0])))


def uw7(P, C):
    """UW-7: the new knot vector is the sorted sequence of ALL pairwise sums of old and kernel knots."""
    C.rule("UW-7", "convolve's new knot field: every (old knot, kernel knot) pair contributes old + kernel (one store in the counting nest of "
           "UW-2), and the whole field [rho, rho + count) is sorted by one std::sort / std::stable_sort — or by merging each further run into "
           "the WHOLE sorted prefix — before anything reads it: the blossoms, the coefficient count and the stored knots all assume an "
           "ascending field", floor=2)
    f, _post, _others, counter = convolve_shape(P)
    fills = []
    for i in f.walk():
        ap = ts.assign_parts(f, i)
        if not ap or ap[1] is None or f.nodes[i].get("op") != "=":
            continue
        l = f.strip(ap[0])
        if f.k(l) != "ArraySubscriptExpr":
            continue
        idx = f.strip(f.nodes[l]["ch"][1])
        if counter and f.k(idx) == "UnaryOperator" and f.nodes[idx].get("op") == "++" and f.k(f.strip(f.nodes[idx]["ch"][0])) == "DeclRefExpr" and \
                f.nodes[f.strip(f.nodes[idx]["ch"][0])]["decl"]["id"] == counter[0]:
            fills.append(i)
    ok = False
    det = "no store indexed by the knot counter"
    rho = None
    if len(fills) == 1:
        i = fills[0]
        ap = ts.assign_parts(f, i)
        l = f.strip(ap[0])
        rb = f.strip(f.nodes[l]["ch"][0])
        rho = f.nodes[rb]["decl"]["id"] if f.k(rb) == "DeclRefExpr" else None
        loops = [a for a in f.ancestors(i) if f.k(a) == "ForStmt"]
        cls = [canonical_loop(f, L) for L in loops]
        rhs = f.strip(ap[1])
        shape = False
        if f.k(rhs) == "BinaryOperator" and f.nodes[rhs]["op"] == "+" and len(loops) == 2 and all(cls):
            a, b = (f.strip(x) for x in f.nodes[rhs]["ch"])
            ta, tb = f.alpha(a), f.alpha(b)
            texts = sorted([ta[0].replace(" ", ""), tb[0].replace(" ", "")])
            # knots[dim][i] + conv_knots[j], i the outer or inner loop variable, j the other
            ivs = {cls[0][0], cls[1][0]}
            shape = texts == sorted(["knots[$0][v0]", "$1[v0]"]) and {ta[1][0], tb[1][0]} == ivs
        ok = shape and rho is not None
        det = "rho[count++] = knots[dim][i] + kernel[j] over all (i, j): %s" % ok
    C.ob("UW-7", "convolve", "all-pairwise-sums", ok, f.loc(fills[0]) if fills else f.where(), det)
    ok2 = False
    det2 = "the knot field is not identified"
    if rho is not None and counter:
        cnt = counter[0]
        sorts = []
        for i, cal in f.calls():
            if not cal or not cal["qname"].startswith("std::"):
                continue
            a = f.args(i)
            if cal["name"] in ("sort", "stable_sort") and len(a) >= 2:
                t0, t1 = f.alpha(a[0]), f.alpha(a[1])
                if t0[0] == "v0" and t0[1] == [rho] and t1[0].replace(" ", "") == "(v0+v1)" and t1[1] == [rho, cnt] and len(a) == 2:
                    sorts.append((i, "sort"))
            if cal["name"] == "inplace_merge" and len(a) == 3:
                # merge(rho, rho + i*n, rho + (i+1)*n) for i = 1 .. nknots-1: each run is merged into the whole prefix
                t0 = f.alpha(a[0])
                L = next((x for x in f.ancestors(i) if f.k(x) == "ForStmt"), None)
                if t0[0] == "v0" and t0[1] == [rho] and L is not None:
                    p1 = core.poly(f, a[1]) - core.poly(f, a[0])
                    p2 = core.poly(f, a[2]) - core.poly(f, a[0])
                    lv = f.nodes[L]
                    vname = f.alpha(lv["inc"])[1]
                    iname = f.var_name(vname[0]) if vname else None
                    nn = f.params[2]["name"]
                    whole = iname is not None and p1 == Poly({tuple(sorted((iname, nn))): 1}) and p2 == Poly({tuple(sorted((iname, nn))): 1}) + Poly.atom(nn)
                    ini = f.render(lv["init"]).replace(" ", "")
                    cond = f.alpha(lv["cond"])[0].replace(" ", "")
                    if whole and ini.endswith("=1") and cond in ("(v0<nknots[$0])",):
                        sorts.append((i, "merge into the whole prefix"))
        pos = f.node_positions()
        dom = f.dominators()

        def at(x):
            while x >= 0 and x not in pos:
                x = f.parent[x]
            return pos.get(x)
        if len(sorts) == 1:
            si = sorts[0][0]
            ps = at(si)
            pf = at(fills[0])
            # every read of the field other than the sort itself comes after the sort
            reads = [x for x in f.walk() if f.k(x) == "DeclRefExpr" and f.nodes[x]["decl"].get("id") == rho and x not in set(f.walk(si)) and
                     x not in set(f.walk(fills[0])) and not (f.k(f.parent[x]) == "DeclStmt")]
            late = [x for x in reads if not (at(x) and ps and ((at(x)[0] == ps[0] and ps[1] < at(x)[1]) or (at(x)[0] != ps[0] and ps[0] in dom.get(at(x)[0], ()))))]
            after_fill = pf and ps and pf[0] != ps[0] and ps[0] in f.reachable_blocks(pf[0]) and pf[0] not in f.reachable_blocks(ps[0])
            ok2 = not late and bool(after_fill)
            det2 = "%s of [rho, rho + count) after the fill, before every other use of the field (%d uses): %s" % (sorts[0][1], len(reads), ok2)
        else:
            det2 = "expected exactly one sort of the whole field [rho, rho + count); found %d (a pass that merges each run only with its neighbour " \
                   "does not sort the field when a kernel spans several knot intervals)" % len(sorts)
    C.ob("UW-7", "convolve", "whole-field-sorted", ok2, f.where(), det2)
    # once sorted, the field and its count are only read: an in-place algorithm afterwards (std::unique with its result dropped, a rotate,
    # a second partial sort) leaves a field that is no longer the sorted pairwise sums while count, coefficient count and blossoms assume it is
    ok3, det3 = False, "the knot field or its sort is not identified"
    if rho is not None and counter and ok2:
        MUT = ("unique", "unique_copy", "remove", "remove_if", "rotate", "reverse", "fill", "fill_n", "transform", "replace", "replace_if", "swap_ranges",
               "partition", "stable_partition", "nth_element", "partial_sort", "random_shuffle", "shuffle", "next_permutation", "prev_permutation",
               "iota", "generate", "generate_n", "inplace_merge", "sort", "stable_sort", "make_heap", "sort_heap", "push_heap", "pop_heap", "swap", "iter_swap")
        COPY_DST = {"copy": 2, "copy_n": 2, "copy_backward": 2, "move": 2, "copy_if": 2, "partial_sum": 2, "adjacent_difference": 2, "merge": 4, "memcpy": 0, "memmove": 0, "memset": 0}
        si = sorts[0][0]
        after = [x for x in reads if x not in late]
        wr = []
        for x in after:
            # climb to the outermost expression that still denotes (part of) the field
            y = x
            while f.parent[y] >= 0 and f.k(f.parent[y]) in (set(core.TRANSPARENT) | {"ArraySubscriptExpr", "UnaryOperator", "BinaryOperator", "ConditionalOperator", "ParenExpr"}) \
                    and not (f.k(f.parent[y]) == "BinaryOperator" and f.nodes[f.parent[y]].get("op") in ("=", "+=", "-=", "*=", "/=", "<", "<=", "==", "!=")) \
                    and not (f.k(f.parent[y]) == "UnaryOperator" and f.nodes[f.parent[y]].get("op") in ("++", "--")):
                if f.k(f.parent[y]) == "ArraySubscriptExpr" and f.nodes[f.parent[y]]["ch"][0] != y and f.strip(f.nodes[f.parent[y]]["ch"][0]) != f.strip(y):
                    break        # the field is used as an index expression, not indexed
                y = f.parent[y]
            par = f.parent[y]
            if par < 0:
                continue
            pk = f.k(par)
            pn = f.nodes[par]
            if pk in ("BinaryOperator", "CompoundAssignOperator") and pn.get("op") in ("=", "+=", "-=", "*=", "/=") and pn["ch"][0] == y and \
                    f.k(f.strip(y)) in ("ArraySubscriptExpr", "UnaryOperator"):
                wr.append((x, "assigned through"))
            elif pk == "UnaryOperator" and pn.get("op") in ("++", "--") and f.k(f.strip(y)) in ("ArraySubscriptExpr",):
                wr.append((x, "incremented"))
            elif pn.get("callee") is not None and par != si:
                cal = pn["callee"]
                a = f.args(par)
                k_ = next((n_ for n_, aa in enumerate(a) if aa == y or y in set(f.walk(aa))), None)
                is_ptr = "*" in f.nodes[y].get("t", "") or "*" in f.nodes[f.strip(y)].get("t", "")
                if not is_ptr:
                    continue          # a knot VALUE is handed over
                if cal["qname"].startswith("std::") or cal.get("externC"):
                    if cal["name"] in MUT:
                        wr.append((x, "handed to std::%s" % cal["name"]))
                    elif cal["name"] in COPY_DST and k_ == COPY_DST[cal["name"]]:
                        wr.append((x, "destination of %s" % cal["name"]))
                else:
                    t_ = f.nodes[y].get("t", "")
                    if "const" not in t_:
                        wr.append((x, "handed to %s as a pointer to non-const" % cal["name"]))
        cw = [x for x in f.walk() if x in pos and ts.assign_parts(f, x) and f.k(f.strip(ts.assign_parts(f, x)[0])) == "DeclRefExpr" and
              f.nodes[f.strip(ts.assign_parts(f, x)[0])]["decl"].get("id") == counter[0] and at(x) and ps and
              ((at(x)[0] == ps[0] and ps[1] < at(x)[1]) or (at(x)[0] != ps[0] and ps[0] in dom.get(at(x)[0], ())))]
        ok3 = not wr
        det3 = ("after the sort the field is only read (%d uses)%s" % (len(after), "; the count is re-assigned after the sort (duplicates removed with the count kept in step)" if cw else "")) if ok3 else \
            "after the sort the field is %s at %s: it is no longer the sorted sequence of all pairwise sums that the count, the coefficient count and the blossoms assume" % (wr[0][1], f.loc(wr[0][0]))
        if not ok3 and cw and all(w[1] == "handed to std::unique" for w in wr):
            # erase-unique with the count updated from the result is a consistent (if different) knot field: not this rule's business
            uq = [f.parent[w[0]] for w in wr]
            ok3 = all(any(x in set(f.walk(c)) for c in cw) for w in wr for x in [w[0]])
            if ok3:
                det3 = "duplicates removed with std::unique and the count re-assigned from its result"
    C.ob("UW-7", "convolve", "field-read-only-after-sort", ok3, f.where(), det3)


def uw8(P, C):
    """UW-8: the caller's kernel is not read once the table's storage has been released."""
    C.rule("UW-8", "convolve reads the caller's kernel (conv_knots[..], or the pointer handed on to a callee) only before it starts releasing the "
           "table's own arrays: the kernel is `n increasing numbers` and may be a slice of the table's own knot vector "
           "(t.convolve(d, t.get_knots(d)+2, 3)); a read after the first deallocate is a read of freed storage", floor=1)
    f = [g for g in P.fns("convolve") if g.cls == ts.CLS and g.unit == "driver"][0]
    kid = f.params[1]["id"]
    pos = f.node_positions()

    def at(x):
        while x >= 0 and x not in pos:
            x = f.parent[x]
        return pos.get(x)
    rel = [i for i, cal in f.calls() if cal and cal["name"] in ("deallocate", "clear") and at(i)]
    if not rel:
        raise core.AnalysisBroken("UW-8: convolve no longer releases anything (deallocate/clear not found)")
    reads = [x for x in f.walk() if f.k(x) == "DeclRefExpr" and f.nodes[x]["decl"].get("id") == kid and at(x)]
    if not reads:
        raise core.AnalysisBroken("UW-8: no use of the kernel parameter found")
    late = []
    for x in reads:
        px = at(x)
        for r in rel:
            pr = at(r)
            if (pr[0] == px[0] and pr[1] < px[1]) or (pr[0] != px[0] and px[0] in f.reachable_blocks_from_succs(pr[0])):
                late.append((x, r))
                break
    C.ob("UW-8", "convolve", "kernel-read-before-release", not late, f.loc(late[0][0]) if late else f.where(),
         "all %d uses of the kernel pointer precede the first release of table storage (%d release sites)" % (len(reads), len(rel)) if not late else
         "%s at %s is evaluated after the table's arrays were released at %s: with a kernel that is a slice of the table's own knots this reads freed storage" %
         (f.render(f.parent[late[0][0]])[:60], f.loc(late[0][0]), f.loc(late[0][1])))


def uw9(P, C):
    """UW-9: the numerical kernels of the convolution keep the roles of their arguments."""
    C.rule("UW-9", "convoluted_blossom and divdiff never re-bind a parameter (no assignment, increment, address-of or std::swap of a parameter): "
           "convolve hands the table spline's knots as (x, nx) and the kernel's as (y, ny), and the result is scaled by the support of the "
           "TABLE spline, x[nx-1] - x[0]; exchanging the two knot vectors inside the kernel — the divided differences commute — silently "
           "turns that factor into the kernel's width", floor=2)
    for name in ("convoluted_blossom", "divdiff"):
        fs_ = [g for g in P.fns(name) if g.file.endswith("convolve.cpp")]
        if len(fs_) != 1:
            raise core.AnalysisBroken("UW-9: %s not found in convolve.cpp" % name)
        f = fs_[0]
        pids = {p_["id"]: p_["name"] for p_ in f.params}
        bad = []
        for i in f.walk():
            n = f.nodes[i]
            tgt = None
            if n["k"] in ("BinaryOperator", "CompoundAssignOperator") and n.get("op", "").endswith("=") and n["op"] not in ("==", "!=", "<=", ">="):
                tgt = f.strip(n["ch"][0])
            elif n["k"] == "UnaryOperator" and n.get("op") in ("++", "--", "&"):
                tgt = f.strip(n["ch"][0])
            if tgt is not None and f.k(tgt) == "DeclRefExpr" and f.nodes[tgt]["decl"].get("id") in pids:
                bad.append((i, "`%s` is written (%s)" % (pids[f.nodes[tgt]["decl"]["id"]], f.render(i)[:40])))
            cal = n.get("callee")
            if cal and cal["name"] in ("swap", "exchange", "iter_swap") and cal.get("qname", "").startswith("std::"):
                for a in f.args(i):
                    a_ = f.strip(a)
                    if f.k(a_) == "DeclRefExpr" and f.nodes[a_]["decl"].get("id") in pids:
                        bad.append((i, "`%s` is exchanged with std::%s" % (pids[f.nodes[a_]["decl"]["id"]], cal["name"])))
        C.ob("UW-9", name, "parameters-keep-their-roles", not bad, f.loc(bad[0][0]) if bad else f.where(),
             "none of the %d parameters is re-bound" % len(pids) if not bad else
             "%s: after that the arguments no longer mean what the caller handed over (the scale x[nx-1]-x[0] is taken from the wrong spline)" % bad[0][1])


def uw10(P, C):
    """UW-10: an array that is accumulated into starts from zero."""
    from . import ts as _ts
    C.rule("UW-10", "a heap array that a table operation accumulates into (`a[...] += ...`) — the scratch coefficient array of convolve, into which "
           "the transfer matrix is multiplied — is filled with zero over its whole length (fill_n / fill / memset with the count of the "
           "allocation, or a value-initialising new) on every path to the accumulation: `new float[n]` is uninitialised storage, and a small "
           "array comes from recycled heap memory", floor=1)
    n = 0
    for f in sorted(P.functions.values(), key=lambda g: (g.file, g.line)):
        if f.unit != "driver" or f.cls != _ts.CLS or not f.cfg or f.name not in ("convolve", "permuteDimensions", "fit", "grideval"):
            continue
        # locals that hold an array obtained by new[] (directly or in a unique_ptr) or from the allocator
        arrays = {}
        for i in f.walk():
            if f.k(i) != "DeclStmt":
                continue
            for d in f.nodes[i]["decls"]:
                init = d.get("init", -1)
                if d.get("dk") != "Var" or init is None or init < 0:
                    continue
                news = [x for x in f.walk(init) if f.k(x) == "CXXNewExpr" and f.nodes[x].get("array")]
                if news:
                    sz = [c for c in f.ch(news[0]) if c >= 0]
                    arrays[d["id"]] = (d["name"], i, f.render(sz[0]).replace(" ", "") if sz else "?", any(f.k(c) in ("ImplicitValueInitExpr", "InitListExpr") for c in f.ch(news[0])))
        if not arrays:
            continue
        pos = f.node_positions()
        dom = f.dominators()

        def root_var(x):
            x = f.strip(x)
            while x >= 0:
                k = f.k(x)
                if k == "ArraySubscriptExpr":
                    x = f.strip(f.nodes[x]["ch"][0])
                elif k == "CXXOperatorCallExpr" and f.nodes[x].get("opcall") == "[]":
                    x = f.strip(f.nodes[x]["ch"][1])
                elif k == "CXXMemberCallExpr" and (f.nodes[x].get("callee") or {}).get("name") == "get":
                    me = f.strip(f.nodes[x]["ch"][0])
                    x = f.strip(f.ch(me)[0]) if f.ch(me) else -1
                elif k == "DeclRefExpr":
                    return f.nodes[x]["decl"].get("id")
                else:
                    return None
            return None
        acc = {}
        for i in f.walk():
            if f.k(i) == "CompoundAssignOperator" and f.nodes[i].get("op") in ("+=", "-=", "*="):
                v = root_var(f.nodes[i]["ch"][0])
                if v in arrays and f.k(f.strip(f.nodes[i]["ch"][0])) != "DeclRefExpr":
                    acc.setdefault(v, []).append(i)
        for v, sites in sorted(acc.items()):
            name, decl, size, value_init = arrays[v]
            fills = []
            for i, cal in f.calls():
                if cal and cal["name"] in ("fill_n", "fill", "memset", "bzero", "uninitialized_fill_n") and f.args(i):
                    a = f.args(i)
                    if root_var(a[0]) == v or (f.k(f.strip(a[0])) == "CXXMemberCallExpr" and root_var(f.strip(a[0])) == v):
                        zero = cal["name"] in ("bzero",) or any(f.nodes[f.strip(x)].get("cv", f.nodes[f.strip(x)].get("v")) in (0, 0.0) for x in a[1:])
                        whole = size != "?" and any(f.render(x).replace(" ", "").replace("sizeof(float)*", "").replace("*sizeof(float)", "") in (size, "(%s)" % size) or
                                                    size in f.render(x).replace(" ", "") for x in a[1:])
                        fills.append((i, zero and whole))
            n += 1
            ok = value_init
            if not ok:
                for s_ in sites:
                    ps = pos.get(s_)
                    x_ = s_
                    while ps is None and x_ >= 0:
                        x_ = f.parent[x_]
                        ps = pos.get(x_) if x_ >= 0 else None
                    ok = ps is not None and any(good and i in pos and (pos[i][0] in dom.get(ps[0], ()) and pos[i][0] != ps[0] or (pos[i][0] == ps[0] and pos[i][1] < ps[1]))
                                                for i, good in fills)
                    if not ok:
                        break
            C.ob("UW-10", f.name, "accumulator-starts-from-zero:%s" % name, ok, f.loc(sites[0]),
                 "%s[%s] is zero-filled over its whole length before anything is accumulated into it" % (name, size) if ok else
                 "%s = new[%s] is accumulated into at %s without a zero fill of the whole array on every path: the sums start from whatever the heap held" %
                 (name, size, f.loc(sites[0])))
    if n == 0:
        raise core.AnalysisBroken("UW-10: no accumulated heap array found (convolve's scratch coefficients expected)")


def uw11(P, C):
    """UW-11: the convolved dimension gets the new knot vector, every other dimension its own old one."""
    from . import ts as _ts
    C.rule("UW-11", "when convolve re-populates the knot vectors, the source copied into knots[i] is the new knot field exactly for i == dim and "
           "the saved copy of dimension i's old knots otherwise (the selecting expression is evaluated for i == dim and i != dim), and the old "
           "knots are saved for every i != dim before they are released", floor=2)
    fs_ = [g for g in P.fns("convolve") if g.cls == _ts.CLS and g.unit == "driver"]
    if not fs_:
        raise core.AnalysisBroken("UW-11: convolve not found")
    f = fs_[0]
    dim = f.params[0]["name"]
    # the copy into knots[i]
    fills = []
    for i, cal in f.calls():
        if cal and cal["name"] in ("copy", "copy_n", "memcpy") and f.args(i):
            a = f.args(i)
            dst = a[2] if cal["name"] == "copy" else (a[2] if cal["name"] == "copy_n" else a[0])
            r = _ts.root_member(f, dst)
            if r and r[0] == "knots" and r[1] >= 1:
                fills.append((i, a[0] if cal["name"] != "memcpy" else a[1]))
    ok, det = False, "no copy into knots[i] found"
    if len(fills) == 1:
        ci, src = fills[0]
        L = next((x for x in f.ancestors(ci) if f.k(x) == "ForStmt"), None)
        iv = f.nodes[f.nodes[L]["init"]]["decls"][0]["name"] if L is not None and f.k(f.nodes[L]["init"]) == "DeclStmt" else None
        s_ = f.strip(src)
        if f.k(s_) == "DeclRefExpr" and f.nodes[s_]["decl"].get("kind") == "Var":
            vid = f.nodes[s_]["decl"]["id"]
            for x in f.walk():
                if f.k(x) == "DeclStmt":
                    for d in f.nodes[x]["decls"]:
                        if d.get("id") == vid and d.get("init", -1) >= 0:
                            s_ = f.strip(d["init"])
        # names of the two sources: the new knot field is the local that was sorted (UW-7); the saved knots are a local array of arrays
        atoms = {}
        for x in f.walk(s_):
            t = core.atom_text(f, x)
            if f.k(x) in ("CXXMemberCallExpr", "ArraySubscriptExpr", "CXXOperatorCallExpr", "DeclRefExpr") and iv and re.search(r"\[%s\]" % re.escape(iv), t) and "knots" in t and "this" not in f.render(x):
                atoms[t] = "OLD"
            if f.k(x) == "DeclRefExpr" and f.nodes[x]["decl"].get("kind") == "Var" and "*" in f.nodes[x].get("t", "") and f.nodes[x]["decl"]["name"] not in (iv, dim) and "store" not in f.nodes[x]["decl"]["name"]:
                atoms[t] = "NEW"
        res = {}
        try:
            for same in (True, False):
                env = dict(atoms)
                env[iv] = 0
                env[dim] = 0 if same else 1
                res[same] = core.expr_value(f, s_, env)
            ok = res[True] == "NEW" and res[False] == "OLD"
            det = "source for i == dim: %s, for i != dim: %s (expression `%s`)" % (res[True], res[False], f.render(s_)[:70])
        except core.Unknown as e:
            det = "the source copied into knots[i] cannot be evaluated over i == dim / i != dim (%s)" % e
    C.ob("UW-11", "convolve", "new-knots-in-the-convolved-dimension-only", ok, f.loc(fills[0][0]) if fills else f.where(), det)
    # the save loop: for i != dim the old knots are copied before the release
    saves = []
    for i, cal in f.calls():
        if cal and cal["name"] in ("copy", "copy_n") and f.args(i):
            a = f.args(i)
            r = _ts.root_member(f, a[0])
            if r and r[0] == "knots":
                saves.append(i)
    ok2, det2 = False, "the old knot vectors are not saved"
    if len(saves) == 1:
        sv = saves[0]
        L = next((x for x in f.ancestors(sv) if f.k(x) == "ForStmt"), None)
        iv = f.nodes[f.nodes[L]["init"]]["decls"][0]["name"] if L is not None and f.k(f.nodes[L]["init"]) == "DeclStmt" else None
        try:
            r_same = core.path_taken(f, sv, {iv: 0, dim: 0})
            r_diff = core.path_taken(f, sv, {iv: 0, dim: 1})
            rel = [i for i, cal in f.calls() if cal and cal["name"] == "deallocate" and _ts.root_member(f, f.args(i)[0]) and _ts.root_member(f, f.args(i)[0])[0] == "knots" and
                   L in set(f.ancestors(i))]
            ok2 = (not r_same) and r_diff and bool(rel) and all(f.seq(sv) < f.seq(x) for x in rel)
            det2 = "saved for i != dim (%s), not for i == dim (%s), before the release in the same iteration (%s)" % (r_diff, not r_same, bool(rel))
        except core.Unknown as e:
            det2 = "the condition under which the old knots are saved cannot be evaluated (%s)" % e
    C.ob("UW-11", "convolve", "old-knots-saved-for-the-other-dimensions", ok2, f.loc(saves[0]) if saves else f.where(), det2)
