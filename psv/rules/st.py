"""ST — strides are the row-major suffix products of the axis lengths, wherever a table is built (serves C06, C09, C14, C15, C20)."""
import re

from .. import core
from . import ts


def _txt(f, i):
    return f.render(i).replace("this->", "").replace(" ", "").replace(".get()", "")


def st1(P, C, only=None):
    C.rule("ST-1", "every operation that builds or reshapes a table (reader, fit, convolve, permuteDimensions, the stacking constructor) computes "
           "the strides as row-major suffix products of the axis lengths it installs, in one of three forms: the recurrence "
           "`S[n-1] = 1; for (i = n-1; i > 0; i--) S[i-1] = S[i]*N[i]`, the accumulator form `A = 1; S[n-1] = 1; for (i = n-1; i >= 0; i--) "
           "{ A *= N[i]; if (i > 0) S[i-1] = A; }`, or `S[0] = 1; partial_sum(reversed axes except the last, S+1, multiplies); reverse(S, S+n)`. "
           "Evaluation, permutation and grid evaluation address coefficient (i0,..,in-1) at the sum of i_k*S[k]", floor=len(only) if only else 5)
    targets = (("read_fits_core", None), ("fit", None), ("convolve", None), ("permuteDimensions", None), ("splinetable", "ctor"))
    n = 0
    for name, kind in targets:
        if only and name not in only:
            continue
        fs_ = [g for g in P.fns(name) if g.unit == "driver" and g.cls == ts.CLS and (kind is None or g.kind == kind)]
        if kind == "ctor":
            fs_ = [g for g in fs_ if len(g.params) >= 3]
        seen_src = set()
        for f in fs_:
            key = (f.file, f.line)
            if key in seen_src:
                continue
            seen_src.add(key)
            stores = []
            for i in f.walk():
                ap = ts.assign_parts(f, i)
                if ap and ap[1] is not None and f.nodes[i].get("op", "=") == "=" and re.match(r"^(t_)?strides\[", _txt(f, ap[0])):
                    stores.append((i, _txt(f, ap[0]), f.strip(ap[1])))
            ps = [i for i, cal in f.calls() if cal and cal["name"] == "partial_sum" and any(re.match(r"^\(?(t_)?strides\+1\)?$", _txt(f, a)) for a in f.args(i))]
            label = name if kind is None else "stacking constructor"
            n += 1
            ok, det = False, "no recognised stride computation (stores: %s)" % [s_[1] for s_ in stores]
            if ps:
                a = [_txt(f, x) for x in f.args(ps[0])]
                S = re.sub(r"\+1\)?$", "", a[2]).lstrip("(")
                first_ok = re.match(r"^(\w+)\.(r?begin)\(\)$", a[0])
                last_ok = first_ok and re.match(r"^\(?%s\.%s\(\)-1\)?$" % (re.escape(first_ok.group(1)), "rend" if first_ok.group(2) == "rbegin" else "end"), a[1])
                mult = "multiplies" in a[3]
                one = any(t == "%s[0]" % S and f.nodes[r].get("cv", f.nodes[r].get("v")) == 1 for (_i, t, r) in stores)
                rev = [i for i, cal in f.calls() if cal and cal["name"] == "reverse" and [_txt(f, x) for x in f.args(i)][0] == S and
                       re.match(r"^\(?%s\+(ndim|\w+)\)?$" % re.escape(S), [_txt(f, x) for x in f.args(i)][1]) and f.seq(i) > f.seq(ps[0])]
                orient = False
                if first_ok:
                    X = first_ok.group(1)
                    if first_ok.group(2) == "rbegin":
                        orient = True          # X is in table order: its reversed prefix products, reversed again, are the suffix products
                    else:
                        # X is in file (reversed) order: the table's axes must be its reverse copy
                        orient = any(cal and cal["name"] == "copy" and [_txt(f, x) for x in f.args(i)][:2] == ["%s.rbegin()" % X, "%s.rend()" % X] and
                                     "naxes" in _txt(f, f.args(i)[2]) for i, cal in f.calls())
                ok = bool(first_ok and last_ok and mult and one and rev and orient and len(stores) == 1)
                det = "S[0] = 1 (%s); partial_sum(%s, %s, S+1, multiplies) (%s); reverse(S, S+n) (%s); axis order consistent with the installed axes (%s)" % (
                    one, a[0], a[1], bool(first_ok and last_ok and mult), bool(rev), orient)
            else:
                loops = [L for L in f.walk() if f.k(L) == "ForStmt" and any(s_[0] in set(f.walk(L)) for s_ in stores)]
                if loops:
                    L = loops[0]
                    ln = f.nodes[L]
                    iv = None
                    ini = ln.get("init", -1)
                    if ini >= 0 and f.k(ini) == "DeclStmt":
                        d = f.nodes[ini]["decls"][0]
                        iv = d["name"]
                        init_txt = _txt(f, d["init"]) if d.get("init", -1) >= 0 else ""
                    else:
                        init_txt = ""
                    cond = _txt(f, ln["cond"]) if ln.get("cond", -1) >= 0 else ""
                    dec = _txt(f, ln["inc"]) if ln.get("inc", -1) >= 0 else ""
                    inloop = [s_ for s_ in stores if s_[0] in set(f.walk(L))]
                    before = [s_ for s_ in stores if s_[0] not in set(f.walk(L)) and f.seq(s_[0]) < f.seq(L)]
                    S = inloop[0][1].split("[")[0] if inloop else "?"
                    last_one = any(re.match(r"^%s\[\(?ndim-1\)?\]$" % re.escape(S), t) and
                                   (f.nodes[r].get("cv", f.nodes[r].get("v")) == 1 or (ts.assign_parts(f, r) and f.nodes[f.strip(ts.assign_parts(f, r)[1])].get("cv") == 1))
                                   for (_i, t, r) in before)
                    down = bool(iv) and re.match(r"^\(?ndim-1\)?$", init_txt) is not None and dec == "(%s--)" % iv
                    store_ok = len(inloop) == 1 and re.match(r"^%s\[\(%s-1\)\]$" % (re.escape(S), iv or "?"), inloop[0][1]) is not None
                    rhs = _txt(f, inloop[0][2]) if inloop else ""
                    form = None
                    if down and store_ok and cond == "(0<%s)" % iv and re.match(r"^\(%s\[%s\]\*\w*naxes\[%s\]\)$" % (re.escape(S), iv, iv), rhs):
                        form = "recurrence"
                    elif down and store_ok and cond == "(0<=%s)" % iv and f.k(inloop[0][2]) == "DeclRefExpr":
                        A = rhs
                        body = f.nodes[L]["body"]
                        kids = f.ch(body) if f.k(body) == "CompoundStmt" else [body]
                        acc = [x for x in kids if f.k(f.strip(x)) == "CompoundAssignOperator" and f.nodes[f.strip(x)].get("op") == "*=" and
                               re.match(r"^\(%s\*=\w*naxes\[%s\]\)$" % (re.escape(A), iv), _txt(f, x))]
                        guard = next((a_ for a_ in f.ancestors(inloop[0][0]) if f.k(a_) == "IfStmt" and L in set(f.ancestors(a_))), None)
                        g_ok = guard is not None and _txt(f, f.nodes[guard]["cond"]) == "(0<%s)" % iv and guard in kids
                        a_init = any(f.k(x) == "DeclStmt" and any(d.get("name") == A and d.get("init", -1) >= 0 and f.nodes[f.strip(d["init"])].get("cv", f.nodes[f.strip(d["init"])].get("v")) == 1
                                                                   for d in f.nodes[x]["decls"]) for x in f.walk()) or \
                            any(ts.assign_parts(f, x) and _txt(f, ts.assign_parts(f, x)[0]) == A and ts.assign_parts(f, x)[1] is not None and
                                f.nodes[f.strip(ts.assign_parts(f, x)[1])].get("cv", f.nodes[f.strip(ts.assign_parts(f, x)[1])].get("v")) == 1 and f.seq(x) < f.seq(L) for x in f.walk())
                        if len(acc) == 1 and g_ok and a_init and kids.index(acc[0]) < kids.index(guard):
                            form = "accumulator"
                    ok = form is not None and last_one
                    det = "%s form over %s (loop %s; %s; %s), S[n-1] = 1: %s" % (form or "no recognised", S, init_txt, cond, dec, last_one)
            C.ob("ST-1", label, "row-major-strides", ok, f.where(), det)
    if n == 0:
        raise core.AnalysisBroken("ST-1: none of the table-building operations found")
    return n


ATTR_SOURCE = {"order": "get_order", "nknots": "get_nknots", "naxes": "get_ncoeffs", "extents0": "lower_extent", "extents1": "upper_extent", "knots": "get_knots"}


def fc1(P, C):
    """FC-1: the stacking constructor fills every per-dimension attribute for every dimension."""
    C.rule("FC-1", "the stacking constructor builds a table of inputDim+1 dimensions in arrays obtained from the allocator (uninitialised): for "
           "each per-dimension attribute — order, nknots, naxes, the knot vectors, both extents — a loop over all input dimensions "
           "(0 <= i < inputDim, no branch around the store) takes entry i from the first input table's accessor for the SAME i, and a separate "
           "store fills the entry of the new dimension (index inputDim)", floor=6)
    fs_ = [g for g in P.fns("splinetable") if g.unit == "driver" and g.cls == ts.CLS and g.kind == "ctor" and len(g.params) >= 3]
    if not fs_:
        raise core.AnalysisBroken("FC-1: stacking constructor not found")
    f = fs_[0]
    # the local that counts the input dimensions: ndim = X + 1
    X = None
    for i in f.walk():
        ap = ts.assign_parts(f, i)
        if ap and ap[1] is not None and _txt(f, ap[0]) == "ndim":
            m = re.match(r"^\((\w+)\+1\)$", _txt(f, ap[1]))
            if m:
                X = m.group(1)
    if X is None:
        raise core.AnalysisBroken("FC-1: `ndim = inputDim + 1` not found in the stacking constructor")
    found = {k: {"loop": None, "new": None} for k in ATTR_SOURCE}
    for i in f.walk():
        ap = ts.assign_parts(f, i)
        lhs = rhs = None
        if ap and ap[1] is not None and f.nodes[i].get("op", "=") == "=":
            lhs, rhs = _txt(f, ap[0]), f.strip(ap[1])
        else:
            cal = f.nodes[i].get("callee")
            if cal and cal["name"] in ("copy_n", "copy") and len(f.args(i)) == 3 and re.match(r"^\(?&?knots\[(\w+)\]", _txt(f, f.args(i)[2])):
                # the knot VALUES of dimension i: copy_n(first->get_knots(i), nknots[i], knots[i])
                lhs = "knotvalues[%s]" % re.match(r"^\(?&?knots\[(\w+)\]", _txt(f, f.args(i)[2])).group(1)
                rhs = f.strip(f.args(i)[0])
        if lhs is None:
            continue
        m = re.match(r"^(order|nknots|naxes|knotvalues)\[(\w+)\]$", lhs) or re.match(r"^(extents)\[(\w+)\]\[([01])\]$", lhs)
        if not m:
            continue
        attr = m.group(1)
        key = {"knotvalues": "knots", "extents": "extents" + (m.group(3) if m.lastindex and m.lastindex >= 3 else "")}.get(attr, attr)
        if key not in found:
            continue
        idx = m.group(2)
        if idx == X:
            found[key]["new"] = i
            continue
        L = next((a for a in f.ancestors(i) if f.k(a) == "ForStmt"), None)
        if L is None:
            continue
        ln = f.nodes[L]
        iv = f.nodes[ln["init"]]["decls"][0]["name"] if ln.get("init", -1) >= 0 and f.k(ln["init"]) == "DeclStmt" else None
        init0 = iv is not None and f.nodes[f.strip(f.nodes[ln["init"]]["decls"][0].get("init", -1))].get("cv", f.nodes[f.strip(f.nodes[ln["init"]]["decls"][0].get("init", -1))].get("v")) == 0
        full = iv == idx and init0 and _txt(f, ln["cond"]) == "(%s<%s)" % (iv, X) and _txt(f, ln["inc"]) == "(%s++)" % iv
        uncond = not any(f.k(a) in ("IfStmt", "SwitchStmt", "ConditionalOperator") and L in set(f.ancestors(a)) for a in f.ancestors(i))
        src = [x for x in f.walk(rhs) if (f.nodes[x].get("callee") or {}).get("name") == ATTR_SOURCE[key]]
        same_i = bool(src) and all([_txt(f, a) for a in f.args(src[0])] == [iv] for _ in (0,)) and "front()" in _txt(f, rhs)
        if full and uncond and same_i:
            found[key]["loop"] = i
    for key in sorted(found):
        ok = found[key]["loop"] is not None and (found[key]["new"] is not None or key == "knots")
        where = f.loc(found[key]["loop"]) if found[key]["loop"] is not None else f.where()
        C.ob("FC-1", "stacking constructor", "filled:" + key, ok, where,
             "entries 0..inputDim-1 from tables.front()->%s(i) in a full loop, entry inputDim stored separately" % ATTR_SOURCE[key] if ok else
             "not every entry of %s is filled (loop over all input dimensions taking %s(i): %s; entry of the new dimension: %s) — the array comes "
             "uninitialised from the allocator" % (key, ATTR_SOURCE[key], found[key]["loop"] is not None, found[key]["new"] is not None))


def fc2(P, C):
    """FC-2: the stacking constructor interleaves the input coefficients along the new, fastest axis."""
    C.rule("FC-2", "the new dimension is the last one, so it runs fastest in the row-major coefficient array: coefficient j of input table i goes to "
           "position i + j*step with step = naxes[ndim-1] (the number of stacked tables), for every i below tables.size() and every j below the "
           "number of coefficients of one input table (the product of the first ndim-1 axis lengths); the array is obtained with the product "
           "of all ndim", floor=3)
    fs_ = [g for g in P.fns("splinetable") if g.unit == "driver" and g.cls == ts.CLS and g.kind == "ctor" and len(g.params) >= 3]
    if not fs_:
        raise core.AnalysisBroken("FC-2: stacking constructor not found")
    f = fs_[0]
    tn = f.params[0]["name"]
    decl = {}
    for i in f.walk():
        if f.k(i) == "DeclStmt":
            for d in f.nodes[i]["decls"]:
                if d.get("dk") == "Var" and d.get("init", -1) >= 0:
                    decl[d["name"]] = _txt(f, d["init"])
    store = None
    for i in f.walk():
        ap = ts.assign_parts(f, i)
        if ap and ap[1] is not None and re.match(r"^coefficients\[", _txt(f, ap[0])) and "get_coefficients" in _txt(f, ap[1]):
            store = (i, _txt(f, ap[0]), _txt(f, ap[1]))
    if store is None:
        C.ob("FC-2", "stacking constructor", "interleave", False, f.where(), "the store that copies the input coefficients was not found")
        return
    i, lhs, rhs = store
    loops = [a for a in f.ancestors(i) if f.k(a) == "ForStmt"]
    shape = {}
    for L in loops:
        ln = f.nodes[L]
        if ln.get("init", -1) >= 0 and f.k(ln["init"]) == "DeclStmt":
            d = f.nodes[ln["init"]]["decls"][0]
            shape[d["name"]] = (_txt(f, d["init"]) if d.get("init", -1) >= 0 else "?", _txt(f, ln["cond"]), _txt(f, ln["inc"]))
    m = re.match(r"^coefficients\[\((\w+)\+\((\w+)\*(\w+)\)\)\]$", lhs) or re.match(r"^coefficients\[\(\((\w+)\*(\w+)\)\+(\w+)\)\]$", lhs)
    ok = False
    det = "store %s = %s" % (lhs, rhs)
    if m:
        if lhs.startswith("coefficients[(("):
            jv, sv, iv = m.group(1), m.group(2), m.group(3)
        else:
            iv, jv, sv = m.group(1), m.group(2), m.group(3)
        if sv in shape and jv not in shape:          # `(step*j)`
            jv, sv = sv, jv
        src_ok = rhs in ("%s[%s]->get_coefficients()[%s]" % (tn, iv, jv), "%s[%s].get_coefficients()[%s]" % (tn, iv, jv))
        step_ok = decl.get(sv, "") in ("naxes[(ndim-1)]", "naxes[ndim-1]")
        i_ok = shape.get(iv, ("", "", ""))[0] == "0" and shape.get(iv, ("", "", ""))[1] == "(%s<%s.size())" % (iv, tn)
        cnt = shape.get(jv, ("", "", ""))[1]
        mj = re.match(r"^\(%s<(\w+)\)$" % jv, cnt)
        j_ok = shape.get(jv, ("", "", ""))[0] == "0" and bool(mj) and decl.get(mj.group(1), "").replace(" ", "").startswith("accumulate(naxes,((naxes+ndim)-1),1,") 
        ok = src_ok and step_ok and i_ok and j_ok
        det = "coefficient j of table i -> i + j*step: source %s, step = naxes[ndim-1] %s, i over all tables %s, j over the product of the first ndim-1 axes %s" % (src_ok, step_ok, i_ok, j_ok)
    C.ob("FC-2", "stacking constructor", "interleave", ok, f.loc(i), det)
    total = [x for x, cal in f.calls() if cal and cal["name"] == "allocate" and f.parent[x] >= 0 and
             re.match(r"^\(coefficients=", _txt(f, f.parent[x]))]
    okn = False
    if total:
        a = _txt(f, f.args(total[0])[0])
        okn = decl.get(a, "").replace(" ", "").startswith("accumulate(naxes,(naxes+ndim),1,")
    C.ob("FC-2", "stacking constructor", "coefficient-count", okn, f.loc(total[0]) if total else f.where(), "the coefficient array holds the product of all ndim axis lengths: %s" % okn)
    C.ob("FC-2", "stacking constructor", "new-axis-length", any(_txt(f, x) in ("(naxes[inputDim]=%s.size())" % tn,) for x in f.walk() if ts.assign_parts(f, x)), f.where(),
         "the new axis has one coefficient per stacked table (padding tables included)")
