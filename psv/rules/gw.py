"""GW — wiring of the penalised least-squares system (serves C09, one structural clause).

The objective of C09 is sum_k w_k (d_k - s(x_k))^2 + sum_i smooth_i |D_i^(p_i) c|^2.  Which numbers go where is visible in the shape of
the code: the per-dimension smoothing strength, penalty order, spline order and knots that build dimension i's penalty; the weights and
weighted data that build the normal matrix F and right-hand side R; per dimension the basis from that dimension's knots, count, order,
abscissae; that the solved system is (F + P) c = R; that the result is copied out whole.  GW decides that wiring by statement shape
(alpha-normalised: locals by first appearance, parameters by position) with identities across statements tied by declaration.
It does not decide what box(), slicemultiply(), kronecker_product(), divided_diffs() or the solver compute."""
from .. import core
from ..core import Poly
from . import ts
from . import uw


def _top(f, i):
    """the statement-level expression containing call i (assignment if the call is its right-hand side)"""
    p = f.parent[i]
    while p >= 0 and f.k(p) in ("ImplicitCastExpr", "ParenExpr", "CStyleCastExpr", "ExprWithCleanups", "MaterializeTemporaryExpr", "CXXBindTemporaryExpr"):
        p = f.parent[p]
    return p if p >= 0 and ts.assign_parts(f, p) else i


def calls(f, name):
    out = []
    for i, cal in f.calls():
        if cal and cal["name"] == name:
            t = _top(f, i)
            txt, order = f.alpha(t)
            out.append((i, t, txt.replace(" ", ""), order))
    out.sort(key=lambda r: f.nodes[r[0]]["loc"])
    return out


def _loops(f, i):
    """enclosing for loops, innermost first: (loop node, decl id of the variable or None, rendered alpha condition)"""
    out = []
    for a in f.ancestors(i):
        if f.k(a) == "ForStmt":
            cl = uw.canonical_loop(f, a)
            out.append((a, cl[0] if cl else None, cl[1] if cl else None))
    return out


def _c_canonical_loop(f, L, allow_break=False):
    """C style `for (v = 0; v < B; v++)` with v declared outside: (decl id, rendered bound)"""
    n = f.nodes[L]
    if n.get("init", -1) < 0 or n.get("cond", -1) < 0 or n.get("inc", -1) < 0:
        return None
    ini = f.strip(n["init"])
    vid = None
    if f.k(ini) == "BinaryOperator" and f.nodes[ini]["op"] == "=":
        t = f.strip(f.nodes[ini]["ch"][0])
        if f.k(t) == "DeclRefExpr" and f.nodes[f.strip(f.nodes[ini]["ch"][1])].get("cv") == 0:
            vid = f.nodes[t]["decl"]["id"]
    elif f.k(ini) == "DeclStmt":
        cl = uw.canonical_loop(f, L)
        return cl
    if vid is None:
        return None
    c = f.nodes[f.strip(n["cond"])]
    if c["k"] != "BinaryOperator" or c["op"] != "<":
        return None
    lv = f.strip(c["ch"][0])
    if f.k(lv) != "DeclRefExpr" or f.nodes[lv]["decl"]["id"] != vid:
        return None
    # the step: `v++`, possibly accompanied by increments of other variables in a comma expression (`row++, k++`)
    parts = [f.strip(n["inc"])]
    while any(f.k(x) == "BinaryOperator" and f.nodes[x]["op"] == "," for x in parts):
        parts = [f.strip(y) for x in parts for y in (f.nodes[x]["ch"] if f.k(x) == "BinaryOperator" and f.nodes[x]["op"] == "," else [x])]
    steps = [x for x in parts if f.k(x) == "UnaryOperator" and f.nodes[x]["op"] == "++" and f.k(f.strip(f.nodes[x]["ch"][0])) == "DeclRefExpr" and
             f.nodes[f.strip(f.nodes[x]["ch"][0])]["decl"]["id"] == vid]
    if len(steps) != 1 or not all(f.k(x) == "UnaryOperator" and f.nodes[x]["op"] == "++" for x in parts):
        return None
    if not allow_break and any(f.k(x) in ("BreakStmt", "GotoStmt") for x in f.walk(n["body"])):
        return None
    return vid, f.alpha(c["ch"][1])[0].replace(" ", "")


def full_range(f, i, var_id, bound_alpha, through=()):
    """statement i sits directly in a counting loop 0..bound over variable var_id (no enclosing branch between loop and statement,
    except the IfStmt nodes listed in `through`)"""
    for a in f.ancestors(i):
        if a in through:
            continue
        k = f.k(a)
        if k in ("IfStmt", "WhileStmt", "DoStmt", "SwitchStmt"):
            return False
        if k == "ForStmt":
            cl = _c_canonical_loop(f, a)
            return bool(cl) and cl[0] == var_id and cl[1] in (bound_alpha if isinstance(bound_alpha, (list, tuple)) else (bound_alpha,))
    return False


def gw1(P, C):
    C.rule("GW-1", "fit builds the penalty as the zero matrix of side prod(nknots[i]-order[i]-1) plus, for every dimension i, add_penalty_term("
           "nsplines, knots[i], ndim, i, order[i], penaltyOrder[i or 0], smoothing[i or 0], monodim or -1, penalty) — all per-dimension arguments "
           "indexed by the same loop variable, scalar arguments broadcast by size()>1 — and hands data, weights, coordinates, knots, orders and "
           "that penalty to glamfit_complex", floor=8)
    fs = [g for g in P.fns("fit") if g.cls == ts.CLS and g.unit == "driver"]
    if len(fs) != 2:
        raise core.AnalysisBroken("GW-1: expected two instantiations of fit, found %d" % len(fs))
    for f in fs:
        name = ts.fshort(f)
        ap = calls(f, "add_penalty_term")
        sz = calls(f, "cholmod_l_spzeros")
        gl = calls(f, "glamfit_complex")
        want = ("(v0=add_penalty_term(v1.get(),(&knots[v2][0]),ndim,v2,order[v2],((1<$6.size())?$6[v2]:$6[0]),((1<$5.size())?$5[v2]:$5[0]),"
                "(($7==no_monodim)?(-1):(int)$7),v0,(&v3)))")
        # which dimension is monotonic does not enter the unconstrained objective: the index form or the flag form (i == monodim)
        ok = len(ap) == 1 and ap[0][2] in (want, want.replace("(($7==no_monodim)?(-1):(int)$7)", "(v2==$7)"))
        det = "add_penalty_term statement %s" % ("matches" if ok else (ap[0][2][:300] if ap else "missing"))
        pen = ns = None
        if ok:
            i, t, txt, order = ap[0]
            pen, ns, iv = order[0], order[1], order[2]
            ok = full_range(f, t, iv, "ndim")
            det += "; in a loop over all dimensions: %s" % ok
        C.ob("GW-1", name, "penalty-terms", ok, f.loc(ap[0][0]) if ap else f.where(), det)
        ok2 = len(sz) == 1 and sz[0][2] == "(v0=cholmod_l_spzeros(v1,v1,1,1,(&v2)))" and pen is not None and sz[0][3][0] == pen
        side_ok = False
        if ok2:
            side = sz[0][3][1]
            prods = [x for x in f.walk() if f.k(x) == "CompoundAssignOperator" and f.nodes[x]["op"] == "*=" and
                     f.k(f.strip(f.nodes[x]["ch"][0])) == "DeclRefExpr" and f.nodes[f.strip(f.nodes[x]["ch"][0])]["decl"]["id"] == side]
            fills = [x for x in f.walk() if ts.assign_parts(f, x) and f.alpha(x)[0].replace(" ", "") == "(v0[v1]=((nknots[v1]-order[v1])-1))" and
                     f.alpha(x)[1][0] == ns]
            ini = uw._local_init(f, side)
            side_ok = len(prods) == 1 and f.alpha(prods[0])[0].replace(" ", "") == "(v0*=v1[v2])" and f.alpha(prods[0])[1][1] == ns and \
                len(fills) == 1 and full_range(f, fills[0], f.alpha(fills[0])[1][1], "ndim") and \
                full_range(f, prods[0], f.alpha(prods[0])[1][2], "ndim") and ini is not None and f.nodes[f.strip(ini)].get("cv") == 1
        C.ob("GW-1", name, "penalty-starts-at-zero", ok2 and side_ok, f.loc(sz[0][0]) if sz else f.where(),
             "penalty = spzeros(side, side) with side = prod over all dimensions of nknots[i]-order[i]-1 (same counts array as the penalty terms): %s, %s" % (ok2, side_ok))
        wantg = "glamfit_complex((&$0),$1.data(),v0.get(),ndim,(&nknots[0]),v1.get(),(&naxes[0]),(&coefficients[0]),(&order[0]),v2,(($7==no_monodim)?(-1):(int)$7),$8,(&v3))"
        ok3 = len(gl) == 1 and gl[0][2] == wantg and gl[0][3][2] == pen
        det3 = "glamfit_complex call %s" % ("matches" if ok3 else (gl[0][2][:300] if gl else "missing"))
        if ok3:
            cid, kid = gl[0][3][0], gl[0][3][1]
            cf = [x for x in f.walk() if ts.assign_parts(f, x) and f.k(x) in ("BinaryOperator", "CXXOperatorCallExpr") and
                  f.alpha(x)[0].replace(" ", "") == "(v0[v1]=$2[v1].data())" and f.alpha(x)[1][0] == cid]
            kf = [x for x in f.walk() if ts.assign_parts(f, x) and f.alpha(x)[0].replace(" ", "") == "(v0[v1]=(&knots[v1][0]))" and f.alpha(x)[1][0] == kid]
            ok3 = len(cf) == 1 and len(kf) == 1 and full_range(f, cf[0], f.alpha(cf[0])[1][1], "ndim") and full_range(f, kf[0], f.alpha(kf[0])[1][1], "ndim")
            det3 += "; coordinate shim = coords[i].data() and knot shim = &knots[i][0] for every i: %s" % ok3
        C.ob("GW-1", name, "system-handed-over", ok3, f.loc(gl[0][0]) if gl else f.where(), det3)
        # the copied knots are the caller's
        kc = [x for x, cal in f.calls() if cal and cal["name"] == "copy" and f.alpha(x)[0].replace(" ", "") == "copy($4[v0].begin(),$4[v0].end(),knots[v0])"]
        oc = [x for x, cal in f.calls() if cal and cal["name"] == "copy" and f.alpha(x)[0].replace(" ", "") == "copy($3.begin(),$3.end(),order)"]
        C.ob("GW-1", name, "knots-and-orders-are-the-arguments", len(kc) == 1 and len(oc) == 1 and full_range(f, kc[0], f.alpha(kc[0])[1][0], "ndim"),
             f.where(), "knots[i] is a copy of the i-th knot vector argument for every i, order a copy of the order argument")


def gw2(P, C):
    C.rule("GW-2", "add_penalty_term returns penalty unchanged for zero smoothing and otherwise penalty + scale * calc_penalty(nsplines, knots, ndim, "
           "dim, order, porder, mono), forwarding every argument in place", floor=3)
    f = P.one("add_penalty_term")
    cp = calls(f, "calc_penalty")
    ad = calls(f, "cholmod_l_add")
    ok = len(cp) == 1 and cp[0][2] == "(v0=calc_penalty($0,$1,$2,$3,$4,$5,$7,$9))"
    C.ob("GW-2", "add_penalty_term", "forwarding", ok, f.loc(cp[0][0]) if cp else f.where(), "calc_penalty call: %s" % (cp[0][2] if cp else "missing"))
    ok2 = len(ad) == 1 and ad[0][2] == "($8=cholmod_l_add($8,v0,v1,v2,1,0,$9))" and ok and ad[0][3][0] == cp[0][3][0]
    s1 = s2 = None
    if ok2:
        s1, s2 = ad[0][3][1], ad[0][3][2]
        i1, i2 = uw._local_init(f, s1), uw._local_init(f, s2)
        unit = lambda x: x is not None and f.render(x).replace(" ", "") in ("{1,0}", "{1.,0.}", "{1.0,0.0}")
        st = [x for x in f.walk() if ts.assign_parts(f, x) and f.alpha(x)[0].replace(" ", "") == "(v0[0]=$6)" and f.alpha(x)[1][0] == s2]
        others = [x for x in f.walk() if ts.assign_parts(f, x) and f.k(f.strip(ts.assign_parts(f, x)[0])) == "ArraySubscriptExpr" and x not in st]
        # the second scale is {scale, 0}: either initialised {1,0} and its real part set to the smoothing strength before the sum,
        # or initialised {scale, 0} directly (the parameter is not assigned in this function)
        direct = i2 is not None and f.alpha(i2)[0].replace(" ", "") in ("{$6,0}", "{$6,0.0}", "{$6,0.}") and \
            not any(ts.assign_parts(f, x) and f.k(f.strip(ts.assign_parts(f, x)[0])) == "DeclRefExpr" and
                    f.nodes[f.strip(ts.assign_parts(f, x)[0])]["decl"].get("id") == f.params[6]["id"] for x in f.walk())
        ok2 = unit(i1) and not others and ((unit(i2) and len(st) == 1 and f.nodes[st[0]]["loc"] < f.nodes[ad[0][1]]["loc"]) or (direct and not st))
    C.ob("GW-2", "add_penalty_term", "scaled-sum", ok2, f.loc(ad[0][0]) if ad else f.where(),
         "penalty = 1*penalty + scale*chunk (first scale {1,0} untouched, second scale's real part set to the smoothing strength before the sum)")
    ifs = [x for x in f.walk() if f.k(x) == "IfStmt"]
    ok3 = len(ifs) == 1 and f.alpha(f.nodes[ifs[0]]["cond"])[0].replace(" ", "") in ("($6==0)", "($6==0.)", "($6==0.0)") and \
        f.alpha(f.nodes[ifs[0]]["then"])[0].replace(" ", "").replace("CompoundStmt(", "").rstrip(")") in ("return$8", "return($8")
    rets = [f.alpha(x)[0].replace(" ", "") for x in f.walk() if f.k(x) == "ReturnStmt"]
    C.ob("GW-2", "add_penalty_term", "zero-smoothing", ok3 and all(r in ("return$8", "return($8)") for r in rets), f.where(),
         "zero smoothing returns the penalty as it came; every return hands back the running penalty: %s" % rets)


def gw3(P, C):
    C.rule("GW-3", "calc_penalty: the difference matrix has nsplines[dim]-porder rows, row r holding divided_diffs(order, porder, r, knots) in "
           "columns r..r+porder; the penalty block is its transpose times itself; the full matrix is the Kronecker product, in dimension order, "
           "of that block at position dim and identities of size nsplines[i] elsewhere", floor=4)
    f = P.one("calc_penalty")
    at = calls(f, "cholmod_l_allocate_triplet")
    dd = calls(f, "divided_diffs")
    ts_ = calls(f, "cholmod_l_triplet_to_sparse")
    tr = calls(f, "cholmod_l_transpose")
    sm = [c for c in calls(f, "cholmod_l_ssmult") if c[2] == "(v0=cholmod_l_ssmult(v1,v2,1,1,0,$7))"]
    ey = calls(f, "cholmod_l_speye")
    kr = calls(f, "kronecker_product")
    ok = len(at) == 1 and at[0][2] == "(v0=cholmod_l_allocate_triplet(($0[$3]-$5),$0[$3],(($0[$3]-$5)*($5+1)),0,1,$7))"
    C.ob("GW-3", "calc_penalty", "difference-matrix-shape", ok, f.loc(at[0][0]) if at else f.where(), "(n-p) x n with (n-p)(p+1) entries: %s" % (at[0][2] if at else None))
    trip = at[0][3][0] if ok else None
    ok2 = len(dd) == 1 and dd[0][2] == "divided_diffs($4,$5,v0,$1,v1)"
    fill_ok = False
    det = ""
    if ok2 and trip is not None:
        row, divd = dd[0][3]
        st = [x for x in f.walk() if ts.assign_parts(f, x) and "nnz]" in f.render(ts.assign_parts(f, x)[0]).replace(" ", "")]
        got = {}
        for x in st:
            txt, order = f.alpha(x)
            got[txt.replace(" ", "")] = order
        col = None
        wi, wj, wx = "((long*)v0->i[v0->nnz]=v1)", "((long*)v0->j[v0->nnz]=v1)", "((double*)v0->x[v0->nnz]=v1[(v2-v3)])"
        if set(got) == {wi, wj, wx} and len(st) == 3:
            col = got[wj][1]
            fill_ok = got[wi][0] == trip and got[wi][1] == row and got[wj][0] == trip and got[wx][0] == trip and got[wx][1] == divd and \
                got[wx][2] == col and got[wx][3] == row and col != row
            # loops: row in [0, n-p), col in [row, row+p]
            L = [a for a in f.ancestors(st[0]) if f.k(a) == "ForStmt"]
            if fill_ok and len(L) == 2:
                inner, outer = L
                ci = f.alpha(f.nodes[inner]["cond"])
                co = f.alpha(f.nodes[outer]["cond"])
                ii = f.alpha(f.nodes[inner]["init"])
                fill_ok = ci[0].replace(" ", "") == "(v0<((v1+$5)+1))" and ci[1] == [col, row] and co[0].replace(" ", "") == "(v0<($0[$3]-$5))" and co[1] == [row] and \
                    ii[0].replace(" ", "") == "(v0=v1)" and ii[1] == [col, row] and _c_canonical_loop(f, outer) is not None
                incs = [x for x in f.walk(f.nodes[inner]["body"]) if f.k(x) == "UnaryOperator" and f.nodes[x]["op"] == "++" and "nnz" in f.render(x)]
                fill_ok = fill_ok and len(incs) == 1 and full_range(f, dd[0][1], row, "($0[$3]-$5)")
            else:
                fill_ok = False
        det = "stores %s" % sorted(got)
    C.ob("GW-3", "calc_penalty", "difference-matrix-rows", ok2 and fill_ok, f.loc(dd[0][0]) if dd else f.where(),
         "row r = divided_diffs(order, porder, r, knots) written to (r, r..r+porder), entry counter advanced once per entry; %s" % det)
    ok3 = len(ts_) == 1 and ts_[0][2] == "(v0=cholmod_l_triplet_to_sparse(v1,v1->nnz,$7))" and ts_[0][3][1] == trip and len(sm) == 1
    dtd = None
    if ok3:
        fd = ts_[0][3][0]
        # the transpose that feeds the symmetric product is the transpose of the difference matrix
        # (the monotonic branch may replace finitediff by finitediff*tril: same variable)
        trd = [t for t in tr if t[2] == "(v0=cholmod_l_transpose(v1,1,$7))" and t[3][1] == fd]
        ok3 = len(trd) == 1 and sm[0][3][1] == trd[0][3][0] and sm[0][3][2] == fd
        dtd = sm[0][3][0]
    C.ob("GW-3", "calc_penalty", "block-is-DtD", ok3, f.loc(sm[0][0]) if sm else f.where(), "block = transpose(D) * D with D the difference matrix (values transposed, symmetric product)")
    ok4 = False
    det4 = ""
    chain = _factor_chain(f, dtd, ey, kr) if dtd is not None and len(ey) == 1 and len(kr) == 1 else None
    if chain is not None:
        ok4, det4 = chain
    elif dtd is not None and len(ey) == 1 and len(kr) == 1:
        co = [x for x in f.walk() if f.k(x) == "ConditionalOperator"]
        if len(co) == 1:
            par = f.parent[co[0]]
            while f.k(par) in ("ImplicitCastExpr", "ParenExpr"):
                par = f.parent[par]
            txt, order = f.alpha(par)
            txt = txt.replace(" ", "")
            if txt == "(v0=((v1==$3)?v2:cholmod_l_speye($0[v1],$0[v1],1,$7)))" and order[2] == dtd:
                tmp2, iv = order[0], order[1]
                k = kr[0]
                res = k[3][1]
                firsts = [x for x in f.walk() if ts.assign_parts(f, x) and f.alpha(x)[0].replace(" ", "") == "(v0=v1)" and f.alpha(x)[1] == [res, tmp2]]
                backs = [x for x in f.walk() if ts.assign_parts(f, x) and f.alpha(x)[0].replace(" ", "") == "(v0=v1)" and f.alpha(x)[1] == [res, k[3][0]]]
                rets = [x for x in f.walk() if f.k(x) == "ReturnStmt"]
                ok4 = k[2] == "(v0=kronecker_product(v1,v2,$7))" and k[3][2] == tmp2 and len(firsts) == 1 and len(backs) == 1 and \
                    len(rets) == 1 and f.alpha(rets[0])[1] == [res] and \
                    all(any(f.k(a) == "ForStmt" and _c_canonical_loop(f, a) and _c_canonical_loop(f, a) == (iv, "$2") for a in f.ancestors(x)) for x in (par, k[1], firsts[0], backs[0]))
                # the first assignment happens only while result is still null
                g = [a for a in f.ancestors(firsts[0]) if f.k(a) == "IfStmt"] if firsts else []
                ok4 = ok4 and len(g) == 1 and f.alpha(f.nodes[g[0]]["cond"])[0].replace(" ", "") in ("(v0==(void*)0)", "(!v0)") and f.alpha(f.nodes[g[0]]["cond"])[1] == [res]
                det4 = "factor_i = (i == dim) ? block : I(nsplines[i]); result = first factor, then kronecker_product(result, factor_i), i = 0..ndim-1; returns result"
            else:
                det4 = txt[:200]
    C.ob("GW-3", "calc_penalty", "kronecker-extension", ok4, f.loc(kr[0][0]) if kr else f.where(), det4 or "expected one conditional factor and one kronecker_product")


def _factor_chain(f, dtd, ey, kr):
    """calc_penalty's factor selection written as `if (i == dim) F = block; else if (<monotonic slot>) F = T'T; else F = I(nsplines[i])`,
    followed by result = first factor / kronecker_product(result, F), in a loop over all dimensions.  Returns (ok, detail) or None when the
    function does not use this form."""
    k = kr[0]
    res, tmp2 = k[3][1], k[3][2]
    sets = [x for x in f.walk() if ts.assign_parts(f, x) and f.nodes[x].get("op") == "=" and f.k(f.strip(ts.assign_parts(f, x)[0])) == "DeclRefExpr" and
            f.nodes[f.strip(ts.assign_parts(f, x)[0])]["decl"].get("id") == tmp2]
    if len(sets) < 2 or any(f.k(y) == "ConditionalOperator" for x in sets for y in f.walk(x)):
        return None
    loop = next((a for a in f.ancestors(k[1]) if f.k(a) == "ForStmt"), None)
    cl = _c_canonical_loop(f, loop) if loop is not None else None
    if cl is None or cl[1] != "$2":
        return False, "the Kronecker loop does not run over all ndim dimensions"
    iv = cl[0]
    kinds = {}
    for x in sets:
        rhs = f.strip(ts.assign_parts(f, x)[1])
        conds = []
        prev = x
        for a in f.ancestors(x):
            if a == loop:
                break
            if f.k(a) == "IfStmt":
                conds.append((f.alpha(f.nodes[a]["cond"])[0].replace(" ", ""), f.alpha(f.nodes[a]["cond"])[1], f.nodes[a].get("then") == prev or prev in set(f.walk(f.nodes[a]["then"]))))
            prev = a
        txt, order = f.alpha(rhs)
        txt = txt.replace(" ", "")
        if f.k(rhs) == "DeclRefExpr" and f.nodes[rhs]["decl"].get("id") == dtd:
            kinds["block"] = conds
        elif txt == "cholmod_l_speye($0[v0],$0[v0],1,$7)" and order == [iv]:
            kinds["identity"] = conds
        elif txt.startswith("cholmod_l_ssmult("):
            kinds["tt"] = (conds, txt, order)
        else:
            return False, "unrecognised Kronecker factor %s" % txt[:80]
    okb = "block" in kinds and len(kinds["block"]) == 1 and kinds["block"][0][0] == "(v0==$3)" and kinds["block"][0][1] == [iv] and kinds["block"][0][2]
    oki = "identity" in kinds and all(not c[2] for c in kinds["identity"]) and len(kinds["identity"]) >= 1
    firsts = [x for x in f.walk() if ts.assign_parts(f, x) and f.alpha(x)[0].replace(" ", "") == "(v0=v1)" and f.alpha(x)[1] == [res, tmp2]]
    backs = [x for x in f.walk() if ts.assign_parts(f, x) and f.alpha(x)[0].replace(" ", "") == "(v0=v1)" and f.alpha(x)[1] == [res, k[3][0]]]
    rets = [x for x in f.walk() if f.k(x) == "ReturnStmt"]
    okk = k[2] == "(v0=kronecker_product(v1,v2,$7))" and len(firsts) == 1 and len(backs) == 1 and len(rets) == 1 and f.alpha(rets[0])[1] == [res]
    if okk:
        g = [a for a in f.ancestors(firsts[0]) if f.k(a) == "IfStmt"]
        okk = len(g) == 1 and f.alpha(f.nodes[g[0]]["cond"])[0].replace(" ", "") in ("(v0==(void*)0)", "(!v0)") and f.alpha(f.nodes[g[0]]["cond"])[1] == [res]
    return bool(okb and oki and okk), ("factor_i = block when i == dim: %s; identity of nsplines[i] in the last else-branch: %s; result = first factor, then "
                                       "kronecker_product(result, factor_i) for i = 0..ndim-1, returned: %s" % (bool(okb), bool(oki), bool(okk)))


def gw4(P, C):
    C.rule("GW-4", "glamfit_complex: per dimension the basis comes from that dimension's knots, knot count, abscissae, grid length and order, and is "
           "boxed with itself; F starts as the weights and R as weights*data over all entries; both are multiplied along every dimension i by "
           "dimension i's (boxed) basis; the solved system is (F + 1*penalty) c = R, by cholesky_solve when no monotonic dimension is requested; "
           "every coefficient of the solution is copied out", floor=5)
    C.rule("GW-7", "an entry of weight zero contributes nothing to the right-hand side whatever its value: the statement that multiplies the "
           "weight by the data value is control-dependent on a test that this entry's weight is non-zero (0*NaN = 0*inf = NaN, and one NaN in "
           "R makes every coefficient NaN) — 'entries with zero weight have no influence'", floor=1)
    f = P.one("glamfit_complex")
    bb = calls(f, "bsplinebasis")
    bx = calls(f, "box")
    ok = len(bb) == 1 and bb[0][2] == "(v0[v1]=bsplinebasis($5[v1],$4[v1],$2[v1],$0->ranges[v1],$8[v1],$12))" and full_range(f, bb[0][1], bb[0][3][1], "$3")
    C.ob("GW-4", "glamfit_complex", "basis-per-dimension", ok, f.loc(bb[0][0]) if bb else f.where(),
         "bases[i] = bsplinebasis(knots[i], nknots[i], coords[i], data->ranges[i], order[i]) for every i: %s" % (bb[0][2] if bb else None))
    bases = bb[0][3][0] if ok else None
    ok2 = len(bx) == 1 and bx[0][2] == "(v0[v1]=box(v2[v1],v2[v1],$12))" and bx[0][3][2] == bases and full_range(f, bx[0][1], bx[0][3][1], "$3")
    boxed = bx[0][3][0] if ok2 else None
    C.ob("GW-4", "glamfit_complex", "boxed-basis", ok2, f.loc(bx[0][0]) if bx else f.where(), "boxedbases[i] = box(bases[i], bases[i]) for every i")
    mc = [c for c in calls(f, "memcpy") if c[2] == "memcpy(v0.x,$1,($0->rows*sizeof(double)))"]
    mul = [x for x in f.walk() if f.k(x) == "CompoundAssignOperator" and f.alpha(x)[0].replace(" ", "") == "(v0.x[v1]*=$0->x[v1])"]
    sl = calls(f, "slicemultiply")
    F = R = None
    ok3 = len(mc) == 2 and len(mul) == 1 and mc[0][3][0] != mc[1][3][0]
    guard = None
    if ok3:
        R = f.alpha(mul[0])[1][0]
        both = {mc[0][3][0], mc[1][3][0]}
        # the product may sit under one test of its own weight (GW-7)
        par = [a for a in f.ancestors(mul[0]) if f.k(a) in ("IfStmt", "ForStmt")]
        if par and f.k(par[0]) == "IfStmt" and f.nodes[par[0]].get("else", -1) < 0 and mul[0] in set(f.walk(f.nodes[par[0]]["then"])):
            guard = par[0]
        ok3 = R in both and full_range(f, mul[0], f.alpha(mul[0])[1][1], "$0->rows", through=(guard,) if guard is not None else ())
        F = (both - {R}).pop() if ok3 else None
        # nothing else scales or overwrites the values of F or R before the products
        other = [x for x in f.walk() if ts.assign_parts(f, x) and x != mul[0] and f.render(ts.assign_parts(f, x)[0]).replace(" ", "").endswith((".x[i]", ".x[j]", ".x[k]"))]
        ok3 = ok3 and not other
    C.ob("GW-4", "glamfit_complex", "weights-and-weighted-data", ok3, f.loc(mul[0]) if mul else f.where(),
         "F.x = weights, R.x = weights then R.x[k] *= data->x[k] for every entry k (zero weight contributes nothing to either side)")
    # GW-7: 0*NaN and 0*inf are NaN — the data value may enter R only where the weight is known to be non-zero
    gok = False
    gdet = "R.x[k] *= data->x[k] is executed for every entry, also where the weight is zero: a masked cell holding NaN or inf makes R, and with it every coefficient, NaN"
    if guard is not None and mul:
        rx = f.render(f.nodes[mul[0]]["ch"][0]).replace(" ", "")
        idx = f.render(f.nodes[f.strip(f.nodes[mul[0]]["ch"][0])]["ch"][1]).replace(" ", "") if f.k(f.strip(f.nodes[mul[0]]["ch"][0])) == "ArraySubscriptExpr" else None
        c, neg = core.cond_polarity(f, f.nodes[guard]["cond"])
        ct = f.render(c).replace(" ", "")
        wt = ["weights[%s]" % idx, rx] + ["%s.x[%s]" % (f.var_name(F), idx)] if F is not None else []
        forms = set()
        for w_ in wt:
            forms |= {"(%s!=0)" % w_, "(0<%s)" % w_, "(%s!=0.0)" % w_, "(0.0<%s)" % w_, w_}
        gok = (not neg) and ct in forms
        gdet = "the product is guarded by %s" % ct if gok else "the test %s%s in front of the product is not a test of the entry's own weight" % ("!" if neg else "", ct)
    C.ob("GW-7", "glamfit_complex", "zero-weight-entry-contributes-nothing", gok, f.loc(mul[0]) if mul else f.where(), gdet)
    ok4 = len(sl) == 2 and all(s[2] == "(v0=slicemultiply((&v1),v2[v3],v3,$12))" for s in sl) and F is not None
    if ok4:
        by = {s[3][1]: s for s in sl}
        ok4 = set(by) == {F, R} and by[F][3][2] == boxed and by[R][3][2] == bases and \
            all(any(f.k(a) == "ForStmt" and _c_canonical_loop(f, a) and _c_canonical_loop(f, a)[0] == s[3][3] and _c_canonical_loop(f, a)[1] in ("$0->ndim", "$3")
                    for a in f.ancestors(s[1])) for s in sl)
    C.ob("GW-4", "glamfit_complex", "products-along-every-dimension", ok4, f.loc(sl[0][0]) if sl else f.where(),
         "slicemultiply(&F, boxedbases[i], i) and slicemultiply(&R, bases[i], i) for every dimension i")
    fl = calls(f, "flatten_ndarray_to_sparse")
    ad = calls(f, "cholmod_l_add")
    sd = calls(f, "cholmod_l_sparse_to_dense")
    cs = calls(f, "cholesky_solve")
    ok5 = len(fl) == 2 and len(ad) == 1 and len(sd) == 1 and len(cs) == 1 and F is not None
    det5 = ""
    if ok5:
        byobj = {x[3][1]: x for x in fl}
        ok5 = set(byobj) == {F, R} and byobj[R][2] == "(v0=flatten_ndarray_to_sparse((&v1),v2,1,$12))" and byobj[F][2] == "(v0=flatten_ndarray_to_sparse((&v1),v2,v2,$12))" and \
            byobj[R][3][2] == byobj[F][3][2]
        Fmat, Rmat = byobj[F][3][0], byobj[R][3][0]
        a = ad[0]
        ok5 = ok5 and a[2] == "(v0=cholmod_l_add(v1,$9,v2,v3,1,0,$12))" and a[3][1] == Fmat
        if ok5:
            fitmat, s1, s2 = a[3][0], a[3][2], a[3][3]
            unit = lambda v: uw._local_init(f, v) is not None and f.render(uw._local_init(f, v)).replace(" ", "") in ("{1,0}", "{1.0,0.0}", "{1.,0.}")
            st = [x for x in f.walk() if ts.assign_parts(f, x) and f.k(f.strip(ts.assign_parts(f, x)[0])) == "ArraySubscriptExpr" and
                  f.k(f.strip(f.nodes[f.strip(ts.assign_parts(f, x)[0])]["ch"][0])) == "DeclRefExpr" and
                  f.nodes[f.strip(f.nodes[f.strip(ts.assign_parts(f, x)[0])]["ch"][0])]["decl"]["id"] in (s1, s2)]
            scale_ok = unit(s1) and unit(s2) and all(f.nodes[f.strip(ts.assign_parts(f, x)[1])].get("cv") == 1 or f.render(ts.assign_parts(f, x)[1]) in ("1.0", "1.", "1") for x in st)
            ok5 = scale_ok and sd[0][2] == "(v0=cholmod_l_sparse_to_dense(v1,$12))" and sd[0][3][1] == Rmat and \
                cs[0][2] == "(v0=cholesky_solve(v1,v2,$12,$11,0))" and cs[0][3][1] == fitmat and cs[0][3][2] == sd[0][3][0]
            det5 = "fitmat = 1*flatten(F) + 1*penalty; rhs = dense(flatten(R)); coefficients = cholesky_solve(fitmat, rhs)"
            if ok5:
                g = [a_ for a_ in f.ancestors(cs[0][1]) if f.k(a_) == "IfStmt"]
                ok5 = len(g) == 1 and f.alpha(f.nodes[g[0]]["cond"])[0].replace(" ", "") == "($10!=(uint32_t)(-1))" and \
                    cs[0][1] in set(f.walk(f.nodes[g[0]]["else"])) if f.nodes[g[0]].get("else", -1) >= 0 else False
                coef = cs[0][3][0]
                cp = [x for x in f.walk() if ts.assign_parts(f, x) and f.alpha(x)[0].replace(" ", "") == "($7[v0]=(double*)v1->x[v0])"]
                ok5 = ok5 and len(cp) == 1 and f.alpha(cp[0])[1][1] == coef and full_range(f, cp[0], f.alpha(cp[0])[1][0], "(v0->nrow*v0->ncol)") and \
                    [f.alpha(f.nodes[f.strip(f.nodes[a_]["cond"])]["ch"][1])[1] for a_ in f.ancestors(cp[0]) if f.k(a_) == "ForStmt"][0] == [coef]
    C.ob("GW-4", "glamfit_complex", "normal-equations", ok5, f.loc(ad[0][0]) if ad else f.where(),
         det5 or "expected flatten(F), flatten(R), one cholmod_l_add with the penalty argument, one cholesky_solve")


def gw5(P, C):
    C.rule("GW-5", "glamfit_complex hands the assembled system to the solver as CHOLMOD built it: between their creation and the solver call no "
           "field of the system matrix, the right-hand side or their flattened sources is written (the solvers switch the matrix between "
           "'upper triangle' and 'full' views themselves and rely on both triangles being stored)", floor=1)
    f = P.one("glamfit_complex")
    ad = calls(f, "cholmod_l_add")
    sd = calls(f, "cholmod_l_sparse_to_dense")
    fl = calls(f, "flatten_ndarray_to_sparse")
    objs = {}
    for c_, nm in ((ad, "system matrix"), (sd, "right-hand side")):
        if len(c_) == 1:
            objs[c_[0][3][0]] = nm
    for c_ in fl:
        objs[c_[3][0]] = "flattened array"
    if len(objs) < 4:
        raise core.AnalysisBroken("GW-5: system objects not identified (%d)" % len(objs))
    bad = []
    for i in f.walk():
        ap = ts.assign_parts(f, i)
        if not ap:
            continue
        l = f.strip(ap[0])
        while f.k(l) in ("ArraySubscriptExpr",):
            l = f.strip(f.nodes[l]["ch"][0])
        if f.k(l) == "MemberExpr" and f.nodes[l].get("ch"):
            b = f.strip(f.nodes[l]["ch"][0])
            if f.k(b) == "DeclRefExpr" and f.nodes[b]["decl"]["id"] in objs:
                bad.append((i, objs[f.nodes[b]["decl"]["id"]], f.nodes[l]["member"]))
    C.ob("GW-5", "glamfit_complex", "system-untouched", not bad, f.loc(bad[0][0]) if bad else f.where(),
         "no field of the system matrix, right-hand side or flattened arrays is written" if not bad else
         "field `%s` of the %s is overwritten at %s before the solve" % (bad[0][2], bad[0][1], f.loc(bad[0][0])))


def run(P, C):
    gw1(P, C)
    gw2(P, C)
    gw3(P, C)
    gw4(P, C)
    gw5(P, C)
    gw6(P, C)


def gw6(P, C):
    """GW-6: divided_diffs is de Boor's recurrence for the coefficients of the porder-th derivative (X.16)."""
    C.rule("GW-6", "divided_diffs(order, porder, j, knots, out): with a = the porder-1 stencil at j+1 and b = the one at j, and "
           "delta = (knots[j+order+1] - knots[j+porder]) / (order - (porder-1)), the result is out[0] = -b[0]/delta, "
           "out[porder] = a[porder-1]/delta, out[i] = (a[i-1] - b[i])/delta for 0 < i < porder — the knot window of the denominator is what "
           "makes the penalty the integral of the squared derivative on irregular knots (on uniform knots any window of that length gives "
           "the same matrix)", floor=4)
    f = P.one("divided_diffs", file_endswith="glam.c")
    pn = [p["name"] for p in f.params]          # order, porder, j, knots, out
    O, Pp, J = (Poly.atom(x) for x in pn[:3])
    one = Poly.const(1)
    rec = [(i, f.args(i)) for i, cal in f.calls() if cal and cal["name"] == f.name]
    a_id = b_id = None
    ok_rec = len(rec) == 2
    for i, a in rec:
        if core.poly(f, a[0]) != O or core.poly(f, a[1]) != Pp - one or f.render(a[3]) != pn[3]:
            ok_rec = False
            continue
        tgt = f.strip(a[4])
        vid = f.nodes[tgt]["decl"].get("id") if f.k(tgt) == "DeclRefExpr" else None
        if core.poly(f, a[2]) == J + one:
            a_id = vid
        elif core.poly(f, a[2]) == J:
            b_id = vid
    ok_rec = ok_rec and a_id is not None and b_id is not None and a_id != b_id
    C.ob("GW-6", "divided_diffs", "recursion", ok_rec, f.loc(rec[0][0]) if rec else f.where(),
         "two stencils of order porder-1: at j+1 (a) and at j (b), same spline order and knots: %s" % ok_rec)
    # delta
    dl = [x for x in f.walk() if ts.assign_parts(f, x) and f.nodes[x].get("op") == "=" and f.k(f.strip(ts.assign_parts(f, x)[0])) == "DeclRefExpr" and
          f.k(f.strip(ts.assign_parts(f, x)[1])) == "BinaryOperator" and f.nodes[f.strip(ts.assign_parts(f, x)[1])]["op"] == "/"]
    ok_d = False
    det = "no quotient assigned to a local"
    delta = None
    for x in dl:
        q = f.nodes[f.strip(ts.assign_parts(f, x)[1])]
        num, den = f.strip(q["ch"][0]), q["ch"][1]
        if f.k(num) != "BinaryOperator" or f.nodes[num]["op"] != "-":
            continue
        subs = [f.strip(y) for y in f.nodes[num]["ch"]]
        if not all(f.k(y) == "ArraySubscriptExpr" and f.render(f.nodes[y]["ch"][0]) == pn[3] for y in subs):
            continue
        hi, lo = (core.poly(f, f.nodes[y]["ch"][1]) for y in subs)
        dp_ = core.poly(f, den)
        ok_d = hi == J + O + one and lo == J + Pp and dp_ == O - Pp + one
        det = "delta = (knots[%r] - knots[%r]) / (%r); required (knots[j+order+1] - knots[j+porder]) / (order-porder+1)" % (hi, lo, dp_)
        delta = f.nodes[f.strip(ts.assign_parts(f, x)[0])]["decl"]["id"]
    C.ob("GW-6", "divided_diffs", "knot-window", ok_d, f.loc(dl[0]) if dl else f.where(), det)
    # result stores
    got = {}
    for x in f.walk():
        ap = ts.assign_parts(f, x)
        if not ap or ap[1] is None or f.nodes[x].get("op") != "=":
            continue
        l = f.strip(ap[0])
        if f.k(l) == "ArraySubscriptExpr" and f.render(f.nodes[l]["ch"][0]) == pn[4]:
            txt, order = f.alpha(x)
            got[txt.replace(" ", "")] = order
    names = {a_id: "A", b_id: "B", delta: "D"}

    def norm(txt, order):
        for k, vid in enumerate(order):
            txt = txt.replace("v%d" % k, names.get(vid, "L%d" % k))
        return txt
    shapes = sorted(norm(t, o) for t, o in got.items())
    want = sorted(["($4[0]=((-B[0])/D))", "($4[$1]=(A[($1-1)]/D))", "($4[L0]=((A[(L0-1)]-B[L0])/D))", "($4[0]=1)"])
    ok_s = shapes == want
    # the middle entries: i from 1 while i < porder
    loop_ok = False
    for x in f.walk():
        if f.k(x) == "ForStmt":
            ini = f.render(f.nodes[x]["init"]).replace(" ", "")
            cond = f.alpha(f.nodes[x]["cond"])[0].replace(" ", "")
            if ini.endswith("=1)") and cond == "(v0<$1)":
                loop_ok = True
    C.ob("GW-6", "divided_diffs", "stencil", ok_s and loop_ok, f.where(),
         "out[0] = -b[0]/delta, out[porder] = a[porder-1]/delta, out[i] = (a[i-1]-b[i])/delta for i = 1..porder-1: %s (loop %s)" % (shapes if not ok_s else "matches", loop_ok))
    base = [x for x in f.walk() if f.k(x) == "IfStmt" and f.alpha(f.nodes[x]["cond"])[0].replace(" ", "") == "($1==0)"]
    ok_b = len(base) == 1 and any(f.alpha(y)[0].replace(" ", "") == "($4[0]=1)" for y in f.walk(f.nodes[base[0]]["then"]) if ts.assign_parts(f, y))
    C.ob("GW-6", "divided_diffs", "base-case", ok_b, f.loc(base[0]) if base else f.where(), "porder == 0: the stencil is [1]")


# --------------------------------------------------------------------------
# IW-1: products of index ranges and flattened indices of the fit's n-dimensional arrays are formed in 64 bits
# --------------------------------------------------------------------------
W64 = ("long", "unsigned long", "size_t", "uint64_t", "int64_t", "long long", "unsigned long long", "ssize_t", "ptrdiff_t", "SuiteSparse_long")
IW_FLOAT = ("double", "float", "long double")
IW_FIELDS = ("ranges", "i")            # struct ndsparse: index ranges per dimension, index columns


def iw1(P, C):
    C.rule("IW-1", "in the C fitter every multiplication that has an index range (ndsparse.ranges[..]), an index entry (ndsparse.i[..][..]) or a "
           "local accumulated from them (stride, cols, moduli) as an operand is carried out in a 64-bit type: the normal matrix F is indexed "
           "over the SQUARE of the number of coefficients, so a flattened index or the product of the other dimensions' ranges passes 2^32 "
           "for tables of a few tens of thousands of coefficients, and a 32-bit product wraps silently (wrong matrix) or goes negative (CHOLMOD "
           "refuses, NULL is dereferenced)", floor=6)
    n = 0
    for f in sorted(P.functions.values(), key=lambda g: (g.file, g.line)):
        if f.unit not in ("fitter/glam", "fitter/splineutil"):
            continue

        def direct(i):
            for x in f.walk(i):
                nx = f.nodes[x]
                if nx["k"] == "MemberExpr" and nx.get("member") in IW_FIELDS and "ndsparse" in nx.get("fieldOf", ""):
                    return True
            return False
        # locals accumulated from ranges / index entries (closure over assignments and initialisers)
        tainted = set()
        changed = True
        while changed:
            changed = False
            for i in f.walk():
                nn = f.nodes[i]
                tgt, src = None, None
                if nn["k"] in ("BinaryOperator", "CompoundAssignOperator") and nn.get("op") in ("=", "*=", "+="):
                    l = f.strip(nn["ch"][0])
                    while f.k(l) == "ArraySubscriptExpr":
                        l = f.strip(f.ch(l)[0])
                    if f.k(l) == "DeclRefExpr" and f.nodes[l]["decl"].get("kind") == "Var":
                        tgt, src = f.nodes[l]["decl"]["id"], nn["ch"][1]
                elif nn["k"] == "DeclStmt":
                    for d in nn["decls"]:
                        if d.get("dk") == "Var" and d.get("init", -1) >= 0:
                            if _iw_carries(f, d["init"], tainted, direct) and d["id"] not in tainted:
                                tainted.add(d["id"])
                                changed = True
                if tgt is not None and tgt not in tainted and nn.get("op") in ("*=", "=") and _iw_carries(f, src, tainted, direct) and _iw_is_product(f, nn, src):
                    tainted.add(tgt)
                    changed = True
        for i in f.walk():
            nn = f.nodes[i]
            if nn["k"] not in ("BinaryOperator", "CompoundAssignOperator") or nn.get("op") not in ("*", "*="):
                continue
            if not any(_iw_carries(f, c, tainted, direct) for c in nn["ch"]):
                continue
            # the type the product is computed in: for `a *= b` the usual arithmetic conversion of both sides
            ts_ = [f.nodes[f.strip(c)].get("t", "") for c in nn["ch"]] if nn["op"] == "*=" else [nn.get("t", "")]
            if nn["op"] == "*":
                ok = nn.get("t", "") in W64 or nn.get("t", "") in IW_FLOAT
            else:
                ok = any(t in W64 or t in IW_FLOAT for t in ts_)
            n += 1
            C.ob("IW-1", f.name, "%s@%s" % (f.render(i)[:60], f.loc(i).rsplit(":", 1)[-1]), ok, f.loc(i),
                 "computed in %s" % (nn.get("t", "") if nn["op"] == "*" else " x ".join(ts_)) if ok else
                 "%s is computed in %s: 32 bits, although an operand is a product of index ranges / a flattened index of the fit's arrays "
                 "(ranges are squares of the per-dimension spline counts while F is formed)" % (f.render(i)[:80], nn.get("t", "") if nn["op"] == "*" else " x ".join(ts_)))
    return n


def _iw_is_product(f, nn, src):
    """`v *= e`, or `v = a * b` / `v = v' ` copying a product: the target accumulates"""
    if nn.get("op") == "*=":
        return True
    s = f.strip(src)
    return f.k(s) == "BinaryOperator" and f.nodes[s].get("op") in ("*", "+")


def _iw_carries(f, i, tainted, direct):
    if direct(i):
        return True
    for x in f.walk(i):
        if f.k(x) == "DeclRefExpr" and f.nodes[x]["decl"].get("id") in tainted:
            return True
    return False


def gw9(P, C):
    """GW-9: the right-hand side handed to the solver has a value in every entry."""
    C.rule("GW-9", "the dense right-hand side that glamfit_complex hands to cholesky_solve / nnls_normal_block3 is produced by "
           "cholmod_l_sparse_to_dense (absent entries become zero), cholmod_l_zeros or a copy of such a vector — never by "
           "cholmod_l_allocate_dense, whose storage is uninitialised: after the slice multiplications R lists only the structurally present "
           "entries, so a spline without data under it has no entry, and its right-hand side must be zero, not what the heap held", floor=2)
    from . import ts as _ts
    f = P.one("glamfit_complex")
    n = 0
    for i, cal in f.calls():
        if not cal or cal["name"] not in ("cholesky_solve", "nnls_normal_block3", "nnls_normal_block", "nnls_normal_block_updown"):
            continue
        a = f.strip(f.args(i)[1])
        n += 1
        if f.k(a) != "DeclRefExpr":
            C.ob("GW-9", "glamfit_complex", "rhs-defined#%d" % n, False, f.loc(i), "the right-hand side %s is not a variable" % f.render(a))
            continue
        vid = f.nodes[a]["decl"]["id"]
        srcs = []
        for x in f.walk():
            ap = _ts.assign_parts(f, x)
            if ap and ap[1] is not None and f.k(f.strip(ap[0])) == "DeclRefExpr" and f.nodes[f.strip(ap[0])]["decl"].get("id") == vid:
                r = f.strip(ap[1])
                srcs.append((f.nodes[r].get("callee") or {}).get("name") or f.render(r)[:40])
            if f.k(x) == "DeclStmt":
                for d in f.nodes[x]["decls"]:
                    if d.get("id") == vid and d.get("init", -1) >= 0:
                        r = f.strip(d["init"])
                        srcs.append((f.nodes[r].get("callee") or {}).get("name") or f.render(r)[:40])
        good = ("cholmod_l_sparse_to_dense", "cholmod_l_zeros", "cholmod_l_copy_dense")
        ok = bool(srcs) and all(s_ in good for s_ in srcs)
        C.ob("GW-9", "glamfit_complex", "rhs-defined#%d" % n, ok, f.loc(i),
             "%s(..., %s, ...): every entry of the right-hand side is defined (%s)" % (cal["name"], f.render(a), ", ".join(sorted(set(srcs)))) if ok else
             "%s(..., %s, ...): the right-hand side comes from %s — entries that no data point touches keep whatever the allocation held" %
             (cal["name"], f.render(a), ", ".join(sorted(set(srcs))) or "nowhere visible"))
    if n == 0:
        raise core.AnalysisBroken("GW-9: no solver call in glamfit_complex")
