"""MT — mutex/condvar protocol of the parallel line search (serves C12).

Analysed functions: walk_descents (coordinator) and evaluate_descent (worker)
in src/fitter/cholesky_solve.c.  One disjunctive (path-sensitive on constant
locals) forward dataflow per function carries
  locked      : the shared mutex is held
  tested      : a branch on protected state was evaluated since the mutex was
                acquired / since the last wait returned
  pending     : a store to `state` has not been followed by a broadcast yet
  phase       : coordinator only: 'I' all workers known idle, 'R' some started
and the rules read obligations off the fixpoint.
"""
from .. import core

STATE_FIELD = "state"
STRUCT = "descent_trial"
WORKER_OUT = ("residual", "x_c", "H1", "nH1")   # written by the worker, read by the coordinator
WORKER_IN = ("alpha",)                          # written by the coordinator, read by the worker
LOCK, UNLOCK, WAITF, BCAST, SIGNAL = ("pthread_mutex_lock", "pthread_mutex_unlock", "pthread_cond_wait",
                                      "pthread_cond_broadcast", "pthread_cond_signal")
CREATE, JOIN = "pthread_create", "pthread_join"
DESTROY = ("pthread_cond_destroy", "pthread_mutex_destroy")

# argument modes of the library entry points the worker reaches with shared objects in its unlocked region
# (position -> 'in' | 'inout'); one line of reason each
CALL_MODES = {
    "cholmod_l_allocate_dense": {4: "inout"},   # Common: status, malloc_count, memory_inuse are updated
    "cholmod_l_copy_dense": {0: "in", 1: "inout"},
    "cholmod_l_sdmult": {0: "in", 4: "in", 6: "inout"},   # A and X read; Y is the caller's private copy; Common inout
    "cholmod_l_free_dense": {1: "inout"},
    "malloc": {}, "realloc": {}, "free": {}, "printf": {}, "sched_setaffinity": {}, "__assert_fail": {},
}


def field_access(f, i):
    """MemberExpr on a descent_trial object -> field name, else None."""
    n = f.nodes[i]
    if n["k"] == "MemberExpr" and n.get("fieldOf", "").endswith(STRUCT):
        return n["member"]
    return None


def is_store_lhs(f, i):
    """is node i (after climbing implicit wrappers) the LHS of an assignment / operand of ++/--?"""
    p = f.parent[i]
    c = i
    while p >= 0 and f.k(p) in ("ParenExpr",):
        c, p = p, f.parent[p]
    if p < 0:
        return False
    n = f.nodes[p]
    if n["k"] in ("BinaryOperator", "CompoundAssignOperator") and n["op"].endswith("=") and n["op"] not in ("==", "!=", "<=", ">=") and n["ch"][0] == c:
        return True
    if n["k"] == "UnaryOperator" and n["op"] in ("++", "--"):
        return True
    return False


def call_name(f, i):
    n = f.nodes[i]
    if n["k"] == "CallExpr" and n.get("callee"):
        return n["callee"]["name"]
    return None


class Flow:
    def __init__(self, f, coordinator, wait_loops=None):
        self.f = f
        self.coord = coordinator
        self.tracked = core.const_tracked_vars(f)
        self.wait_loops = wait_loops or {}
        self.events = []

    # state = frozenset of tuples (locked, tested, pending, phase, consts)
    def t1(self, s, e, record=None):
        f = self.f
        locked, tested, pending, phase, consts, runheld = s
        if e.get("kind") != "stmt":
            return s
        i = e["n"]
        n = f.nodes[i]
        nm = call_name(f, i)
        if nm == LOCK:
            if record:
                record("lock", i, s)
            return (True, False, pending, phase, consts, runheld)
        if nm == UNLOCK:
            if record:
                record("unlock", i, s)
            # workers can observe a RUN store only once the mutex is released
            return (False, False, pending, "R" if runheld else phase, consts, False)
        if nm == WAITF:
            if record:
                record("wait", i, s)
            return (locked, False, pending, "R" if runheld else phase, consts, False)
        if nm in (BCAST,):
            if record:
                record("broadcast", i, s)
            return (locked, tested, False, phase, consts, runheld)
        fld = field_access(f, i)
        if fld is not None:
            st = is_store_lhs(f, i)
            if record:
                record("store" if st else "read", i, s, fld)
            if fld == STATE_FIELD and st:
                pending = True
                p = f.parent[i]
                while f.k(p) == "ParenExpr":
                    p = f.parent[p]
                rhs = f.nodes[p]["ch"][1]
                if f.render(rhs) == "RUN":
                    runheld = True
                return (locked, tested, pending, phase, consts, runheld)
        ca = core.const_assign(f, i, self.tracked)
        if ca:
            d = dict(consts)
            d[ca[0]] = ca[1]
            consts = frozenset(d.items())
        return (locked, tested, pending, phase, consts, runheld)

    def transfer(self, S, e, b, j):
        return frozenset(self.t1(s, e) for s in S)

    def edge(self, S, b, k, succ, cond):
        f = self.f
        out = set()
        reads_state = False
        if cond is not None and cond >= 0:
            reads_state = any(field_access(f, x) == STATE_FIELD for x in f.walk(cond))
        for s in S:
            locked, tested, pending, phase, consts, runheld = s
            if cond is not None and cond >= 0 and len(f.blocks[b]["succ"]) == 2:
                v = core.eval_const_cond(f, cond, consts)
                if v is not None and ((k == 0) != v):
                    continue   # infeasible edge for this disjunct
                if reads_state and locked:
                    tested = True
                # refinement: a tracked variable tested for truth takes the constant on that edge
            # leaving a wait loop: the completion predicate held under the mutex -> all workers idle
            for h, body in self.wait_loops.items():
                if b in body and succ not in body:
                    phase = "I"
            out.add((locked, tested, pending, phase, consts, runheld))
        if not out:
            return None
        return frozenset(out)

    def run(self):
        f = self.f
        init = frozenset([(False, False, False, "I", frozenset(), False)])
        self.IN, self.OUT = core.dataflow(f, init, self.transfer, lambda a, b: a | b, self.edge)
        # replay with recording
        evs = []
        for b, S in self.IN.items():
            for s0 in S:
                s = s0
                for e in f.blocks[b]["elems"]:
                    def rec(kind, i, st, fld=None):
                        evs.append((kind, i, st, fld, b))
                    s = self.t1(s, e, rec)
        self.events = evs
        return evs


def concurrent_blocks(f):
    creates = set()
    joins = set()
    for b, blk in f.blocks.items():
        for e in blk["elems"]:
            if e.get("kind") == "stmt":
                nm = call_name(f, e["n"])
                if nm == CREATE:
                    creates.add(b)
                if nm == JOIN:
                    joins.add(b)
    if not creates or not joins:
        raise core.AnalysisBroken("walk_descents: pthread_create / pthread_join not found")
    after = set()
    for c in creates:
        after |= f.reachable_blocks(c)
    pm = f.preds_map()
    before = set()
    st = list(joins)
    while st:
        x = st.pop()
        if x in before:
            continue
        before.add(x)
        st.extend(pm[x])
    return after & before, creates, joins


def run(P, C):
    C.rule("MT-1", "every access to descent_trial.state that can execute between the first pthread_create and the last pthread_join "
           "(all of the worker) holds the shared mutex (must-lockset, wait re-acquires)", floor=6)
    C.rule("MT-2", "no path leads from acquiring the mutex (or from a wait returning) to pthread_cond_wait without a branch, under that hold, "
           "on protected state that the wait depends on (constant initialisers do not qualify): no lost wake-up", floor=2)
    C.rule("MT-3", "every store to state in the concurrent phase is followed by pthread_cond_broadcast before the mutex is released (unlock or wait)", floor=3)
    C.rule("MT-4", "the coordinator touches worker-owned fields only while all workers are idle: inputs (alpha) before the RUN store under the "
           "same hold, outputs (residual, x_c, H1, nH1) after the completion loop with no RUN store in between; the completion loop's exit "
           "variable is falsified exactly under state != WAIT over the index range of the RUN loop", floor=5)
    C.rule("MT-5", "lifecycle: threads created in a loop are joined in a loop over the same bound; TERMINATE is stored for all and broadcast "
           "under the mutex before the joins; condvar/mutex destruction and free of the trial array come after the joins", floor=4)
    C.rule("MT-6", "the selection loop scans trial indices ascending from 0 and breaks at the first success, reading only hand-off outputs: "
           "completion order cannot influence the choice", floor=2)
    C.rule("MT-7", "objects shared by all workers (pointer fields copied by memcpy from trial 0 and not reassigned per worker) are only read in the "
           "worker's unlocked region: no store through them, no call that takes them in/out", floor=4)

    W = P.one("walk_descents", file_endswith="cholesky_solve.c")
    E = P.one("evaluate_descent", file_endswith="cholesky_solve.c")
    R = P.one("calc_residual", file_endswith="cholesky_solve.c")

    # aliasing sanity: trial 0 gets &mutex / &cv, the others are memcpy'd from it
    txt = [W.render(i) for i in W.walk() if W.k(i) == "BinaryOperator" and W.nodes[i]["op"] == "="]
    if not any(t.replace(" ", "") == "(descent_trials[0].mutex=(&mutex))" for t in txt) or \
       not any(t.replace(" ", "") == "(descent_trials[0].cv=(&cv))" for t in txt):
        raise core.AnalysisBroken("walk_descents: trial 0 no longer receives &mutex / &cv — single-lock assumption of MT rules lost")

    # ---------------- coordinator
    has_create = any(call_name(W, e["n"]) == CREATE for blk in W.blocks.values() for e in blk["elems"] if e.get("kind") == "stmt")
    has_join = any(call_name(W, e["n"]) == JOIN for blk in W.blocks.values() for e in blk["elems"] if e.get("kind") == "stmt")
    if has_create and not has_join:
        # threads are created and never joined: the coordinator has no point after which the workers are known to be gone, so the
        # destruction of the mutex / condition variable and the release of the trial array race with a worker that is still on its way out
        C.ob("MT-5", "walk_descents", "joined-before-teardown", False, W.where(),
             "walk_descents creates worker threads (pthread_create) and never joins them: pthread_mutex_destroy, pthread_cond_destroy and the "
             "free of the trial array are not ordered after the workers' last access (a detached worker may still re-lock the mutex)")
        return
    conc, creates, joins = concurrent_blocks(W)
    loops = core.natural_loops(W)
    wait_blocks = [b for b, blk in W.blocks.items() for e in blk["elems"] if e.get("kind") == "stmt" and call_name(W, e["n"]) == WAITF]
    wait_loops = {}
    for wb in wait_blocks:
        for h, body in loops:     # sorted by size: first hit is the innermost
            if wb in body:
                wait_loops[h] = body
                break
    FW = Flow(W, True, wait_loops)
    evW = FW.run()
    FE = Flow(E, False, {})
    evE = FE.run()

    def all_states(evs, kind, pred=None):
        out = {}
        for (k, i, st, fld, b) in evs:
            if k == kind and (pred is None or pred(i, fld, b)):
                out.setdefault(i, []).append(st)
        return out

    # MT-1
    for (f, evs, name, inconc) in ((W, evW, "walk_descents", lambda b: b in conc), (E, evE, "evaluate_descent", lambda b: True)):
        for kind in ("store", "read"):
            acc = all_states(evs, kind, lambda i, fld, b: fld == STATE_FIELD and inconc(b))
            for n_, (i, sts) in enumerate(sorted(acc.items())):
                ok = all(s[0] for s in sts)
                C.ob("MT-1", name, "%s-state#%d" % (kind, n_), ok, f.loc(i),
                     "%s of state %s the shared mutex on every path" % (kind, "holds" if ok else "does NOT hold"))
    # MT-2
    for (f, evs, name) in ((W, evW, "walk_descents"), (E, evE, "evaluate_descent")):
        acc = all_states(evs, "wait")
        for n_, (i, sts) in enumerate(sorted(acc.items())):
            ok = all(s[0] and s[1] for s in sts)
            bad = [s for s in sts if not (s[0] and s[1])]
            C.ob("MT-2", name, "wait#%d" % n_, ok, f.loc(i),
                 "pthread_cond_wait is reached with the predicate tested under the current hold on every path" if ok else
                 "pthread_cond_wait can be reached without re-testing protected state after the mutex was acquired "
                 "(locked=%s, tested=%s, constants=%s): a wake-up sent between unlock and lock is lost and the thread sleeps forever"
                 % (bad[0][0], bad[0][1], sorted(bad[0][4])))
    # MT-3
    for (f, evs, name, inconc) in ((W, evW, "walk_descents", lambda b: b in conc), (E, evE, "evaluate_descent", lambda b: True)):
        for kind in ("unlock", "wait"):
            acc = all_states(evs, kind, lambda i, fld, b: inconc(b))
            for n_, (i, sts) in enumerate(sorted(acc.items())):
                ok = not any(s[2] for s in sts)
                C.ob("MT-3", name, "%s#%d" % (kind, n_), ok, f.loc(i),
                     "mutex released with %s state store not yet broadcast" % ("a" if not ok else "no"))
    # MT-4 coordinator accesses to worker-owned fields in the concurrent region
    reads = all_states(evW, "read", lambda i, fld, b: fld in WORKER_OUT and b in conc)
    for n_, (i, sts) in enumerate(sorted(reads.items())):
        ok = all(s[3] == "I" for s in sts)
        C.ob("MT-4", "walk_descents", "read-%s#%d" % (field_access(W, i), n_), ok, W.loc(i),
             "worker output read while %s" % ("all workers are idle" if ok else "a worker may still be running (RUN stored, completion loop not passed)"))
    stores = all_states(evW, "store", lambda i, fld, b: fld in WORKER_IN and b in conc)
    for n_, (i, sts) in enumerate(sorted(stores.items())):
        ok = all(s[3] == "I" and s[0] for s in sts)
        C.ob("MT-4", "walk_descents", "write-%s#%d" % (field_access(W, i), n_), ok, W.loc(i),
             "worker input written under the mutex before any RUN store of this round" if ok else "worker input written while a worker may be running or without the mutex")
    # the completion loop: exit variable falsified exactly under state != WAIT; index loop same shape as RUN loop
    for h, body in wait_loops.items():
        fals = []
        for b in body:
            for e in W.blocks[b]["elems"]:
                if e.get("kind") != "stmt":
                    continue
                ca = core.const_assign(W, e["n"], FW.tracked)
                if ca and ca[1] == 0 and W.k(e["n"]) == "BinaryOperator":
                    fals.append(e["n"])
        ok = bool(fals)
        det = []
        for a in fals:
            ifs = [x for x in W.ancestors(a) if W.k(x) == "IfStmt"]
            good = False
            if ifs:
                cnd = W.nodes[ifs[0]]["cond"]
                c, neg = core.cond_polarity(W, cnd)
                cn = W.nodes[c]
                inthen = W.nodes[ifs[0]]["then"] in [a] + list(W.ancestors(a))
                if cn["k"] == "BinaryOperator" and cn["op"] in ("!=", "=="):
                    l, r = (W.strip(x) for x in cn["ch"])
                    isst = field_access(W, l) == STATE_FIELD and W.render(r) == "WAIT"
                    ne = (cn["op"] == "!=") != neg
                    good = isst and ne == inthen
                det.append("%s under %s" % (W.render(a), W.render(cnd)))
            ok = ok and good
        C.ob("MT-4", "walk_descents", "completion-predicate", ok, W.loc(W.blocks[h].get("term", W.body)) if W.blocks[h].get("term") else W.where(),
             "completion loop leaves only when every started trial is back in WAIT: " + "; ".join(det))
        # index range agreement between RUN loop and completion check loop
        run_for = check_for = None
        for i in W.walk():
            if W.k(i) == "ForStmt":
                sub = set(W.walk(W.nodes[i]["body"]))
                has_run = any(field_access(W, x) == STATE_FIELD and is_store_lhs(W, x) and W.render(W.nodes[W.parent[x]]["ch"][1]) == "RUN" for x in sub)
                has_chk = any(x in fals for x in sub)
                if has_run and run_for is None:
                    run_for = i
                if has_chk and check_for is None:
                    check_for = i

        def sig(i):
            n = W.nodes[i]
            brk = [W.render(W.nodes[x]["cond"]) for x in W.walk(n["body"]) if W.k(x) == "IfStmt" and any(W.k(y) == "BreakStmt" for y in W.walk(W.nodes[x]["then"]))]
            return (W.render(n["init"]), W.render(n["cond"]), W.render(n["inc"]), tuple(brk[:1]))
        ok = run_for is not None and check_for is not None and sig(run_for) == sig(check_for)
        C.ob("MT-4", "walk_descents", "completion-range", ok, W.loc(check_for) if check_for is not None else W.where(),
             "completion check covers the same trial indices as the RUN loop: %s vs %s" % (sig(run_for) if run_for is not None else None, sig(check_for) if check_for is not None else None))
    # worker side: inputs read / outputs written only between observing RUN and storing WAIT (i.e. not under... in its run region)
    # region = after the unlock that follows the wait loop, before the lock that precedes `state = WAIT`
    accE = [(k, i, st, fld) for (k, i, st, fld, b) in evE if k in ("read", "store") and fld in WORKER_OUT + WORKER_IN]
    seen = set()
    for k, i, st, fld in accE:
        if i in seen:
            continue
        seen.add(i)
    wl = [W for W in ()]
    # the worker may leave its wait loop only with state != WAIT: check loop condition shape
    waitsE = all_states(evE, "wait")
    for n_, (i, sts) in enumerate(sorted(waitsE.items())):
        loop = next((a for a in E.ancestors(i) if E.k(a) in ("WhileStmt", "ForStmt", "DoStmt")), None)
        ok = False
        det = "wait not in a loop"
        if loop is not None and E.k(loop) == "WhileStmt":
            c, neg = core.cond_polarity(E, E.nodes[loop]["cond"])
            cn = E.nodes[c]
            if cn["k"] == "BinaryOperator" and cn["op"] in ("==", "!="):
                l, r = (E.strip(x) for x in cn["ch"])
                ok = field_access(E, l) == STATE_FIELD and E.render(r) == "WAIT" and ((cn["op"] == "==") != neg)
            det = "worker sleeps while %s" % E.render(E.nodes[loop]["cond"])
        C.ob("MT-4", "evaluate_descent", "worker-wait-predicate#%d" % n_, ok, E.loc(i), det + " (must be exactly: state == WAIT)")

    # ---------------- MT-5 lifecycle
    def loop_bound_of(f, callname):
        for i in f.walk():
            if f.k(i) == "CallExpr" and call_name(f, i) == callname:
                loop = next((a for a in f.ancestors(i) if f.k(a) == "ForStmt"), None)
                if loop is None:
                    return None, i
                n = f.nodes[loop]
                return (f.render(n["init"]).split("=")[-1].strip(" ()"), f.render(n["cond"]).split("<")[-1].strip(" ()"), f.render(n["inc"])[-3:-1]), i
        return None, None
    cb, ci = loop_bound_of(W, CREATE)
    jb, ji = loop_bound_of(W, JOIN)
    C.ob("MT-5", "walk_descents", "create-join-bounds", cb is not None and cb == jb, W.loc(ji) if ji is not None else W.where(),
         "threads created over %s, joined over %s" % (cb, jb))
    pos = W.node_positions()
    dom = W.dominators()
    term_stores = [i for i in W.walk() if field_access(W, i) == STATE_FIELD and is_store_lhs(W, i) and W.render(W.nodes[W.parent[i]]["ch"][1]) == "TERMINATE"]
    ok = False
    det = "no TERMINATE store"
    if term_stores and ji is not None:
        tb = pos[term_stores[0]][0] if term_stores[0] in pos else None
        jbk = pos[ji][0]
        tloop = next((a for a in W.ancestors(term_stores[0]) if W.k(a) == "ForStmt"), None)
        tbound = W.render(W.nodes[tloop]["cond"]).split("<")[-1].strip(" ()") if tloop is not None else None
        # a broadcast lies between the TERMINATE loop and the join loop on every path: broadcast block dominates the join block
        bc = [i for i in W.walk() if call_name(W, i) == BCAST and i in pos and pos[i][0] in W.reachable_blocks(tb)]
        okb = any(pos[i][0] in dom[jbk] for i in bc)
        ok = tb is not None and jbk in W.reachable_blocks(tb) and tb not in W.reachable_blocks(jbk) and okb and (jb is not None and tbound == jb[1])
        det = "TERMINATE stored over %s then broadcast before the join loop: broadcast dominates joins=%s" % (tbound, okb)
    C.ob("MT-5", "walk_descents", "terminate-before-join", ok, W.loc(term_stores[0]) if term_stores else W.where(), det)
    for i in W.walk():
        nm = call_name(W, i)
        if nm in DESTROY or (nm == "free" and W.render(W.args(i)[0]).replace("(void *)", "") in ("descent_trials", "threads")):
            b = pos[i][0]
            # nothing of the thread API (create/join/lock/wait) is reachable after it, and it cannot run before the joins
            later = W.reachable_blocks(b)
            bad = [x for x in W.walk() if call_name(W, x) in (CREATE, JOIN, LOCK, WAITF) and x in pos and pos[x][0] in later and pos[x][0] != b]
            jbk = pos[ji][0]
            after_join = b in W.reachable_blocks(jbk) and jbk not in later
            C.ob("MT-5", "walk_descents", "%s(%s)" % (nm, W.render(W.args(i)[0])), not bad and after_join, W.loc(i),
                 "released only after every worker has been joined: after joins=%s, thread API reachable afterwards=%s" % (after_join, [call_name(W, x) for x in bad]))

    # ---------------- MT-6 selection loop
    sel = None
    for i in W.walk():
        if W.k(i) == "ForStmt":
            sub = list(W.walk(W.nodes[i]["body"]))
            if any(field_access(W, x) == "residual" for x in sub) and not any(call_name(W, x) == WAITF for x in sub):
                if sel is None or len(sub) < len(list(W.walk(W.nodes[sel]["body"]))):
                    sel = i
    if sel is None:
        raise core.AnalysisBroken("walk_descents: selection loop (reads of .residual) not found")
    n = W.nodes[sel]
    from . import gw as _gw
    from . import ts as _ts
    cl = _gw._c_canonical_loop(W, sel, allow_break=True)
    jid = cl[0] if cl else None
    bnd = W.strip(W.nodes[W.strip(n["cond"])]["ch"][1]) if cl else -1
    tid = W.nodes[bnd]["decl"]["id"] if bnd >= 0 and W.k(bnd) == "DeclRefExpr" else None
    asc = cl is not None and tid is not None
    C.ob("MT-6", "walk_descents", "ascending-scan", asc, W.loc(sel), "selection loop counts a trial index up from 0 to the worker count: %s" % (cl,))
    # the success flag: the variable set in the branch of the scan that ends in break
    succ_st = []
    for x in W.walk(n["body"]):
        ap = _ts.assign_parts(W, x)
        if ap and W.nodes[x].get("op") == "=" and W.k(W.strip(ap[0])) == "DeclRefExpr" and W.nodes[W.strip(ap[1])].get("cv") == 1:
            comp = next((a_ for a_ in W.ancestors(x) if W.k(a_) == "CompoundStmt"), None)
            kids = W.ch(comp) if comp is not None else []
            if kids and W.k(kids[-1]) == "BreakStmt":
                succ_st.append(x)
    sid = W.nodes[W.strip(_ts.assign_parts(W, succ_st[0])[0])]["decl"]["id"] if succ_st else None
    ok = bool(succ_st) and all(W.nodes[W.strip(_ts.assign_parts(W, x)[0])]["decl"]["id"] == sid for x in succ_st)
    C.ob("MT-6", "walk_descents", "break-at-first-success", ok, W.loc(succ_st[0]) if succ_st else W.loc(sel),
         "the branch that records success ends in break, so later (smaller) step lengths are not considered")
    outer = next((a_ for a_ in W.ancestors(sel) if W.k(a_) == "ForStmt"), None)
    ok = False
    iid = None
    if outer is not None:
        co = _gw._c_canonical_loop(W, outer, allow_break=True)
        iid = co[0] if co else None
        body = W.nodes[outer]["body"]
        first_if = [x for x in W.ch(body) if W.k(x) == "IfStmt"]
        c0 = W.strip(W.nodes[first_if[0]]["cond"]) if first_if else -1
        ok = bool(first_if) and W.k(c0) == "DeclRefExpr" and W.nodes[c0]["decl"]["id"] == sid and sid is not None and \
            any(W.k(y) == "BreakStmt" for y in W.walk(W.nodes[first_if[0]]["then"]))
    C.ob("MT-6", "walk_descents", "no-further-blocks-after-success", ok, W.loc(outer) if outer is not None else W.where(),
         "the block loop stops once a step was selected")

    # ---------------- MT-8 global trial index
    C.rule("MT-8", "trial j of block i always stands for the global step index i*n_threads+j: the same affine form selects the step length handed to "
           "the worker, bounds the RUN loop, the completion check and the selection scan, and is compared with n_alpha-1 for the last step — so "
           "the chosen step is min{k >= 1 : residual_k < residual_0} or the last one, for any block size", floor=4)
    from ..core import Poly as _Poly
    if None in (iid, jid, tid):
        raise core.AnalysisBroken("MT-8: block loop / trial loop / worker count not identified")
    iname, jname, tname = W.var_name(iid), W.var_name(jid), W.var_name(tid)
    want = _Poly({tuple(sorted((iname, tname))): 1}) + _Poly.atom(jname)
    posW = W.node_positions()
    uses = []
    nalpha = set()
    alpha_field = [x for x in W.walk() if _ts.assign_parts(W, x) and field_access(W, W.strip(_ts.assign_parts(W, x)[0])) == "alpha"]
    alpha_ids = set()
    for x in alpha_field:
        for y in W.walk(_ts.assign_parts(W, x)[1]):
            if W.k(y) == "DeclRefExpr" and "*" in W.nodes[y].get("t", ""):
                alpha_ids.add(W.nodes[y]["decl"]["id"])
    for x in W.walk():
        n_ = W.nodes[x]
        orr = W.oriented(x, lambda a: core.poly(W, a) == want) if n_["k"] == "BinaryOperator" else None
        if orr is not None and orr[1] in (">=", "=="):
            r = orr[2]
            cop = orr[1]
            if True:
                if W.k(r) == "DeclRefExpr" and cop == ">=":
                    uses.append((x, "bound"))
                    nalpha.add(W.nodes[r]["decl"]["id"])
                elif W.k(r) == "BinaryOperator" and W.nodes[r]["op"] == "-" and W.nodes[W.strip(W.nodes[r]["ch"][1])].get("cv") == 1 and \
                        W.k(W.strip(W.nodes[r]["ch"][0])) == "DeclRefExpr" and cop == "==":
                    uses.append((x, "last"))
                    nalpha.add(W.nodes[W.strip(W.nodes[r]["ch"][0])]["decl"]["id"])
        if n_["k"] == "ArraySubscriptExpr" and W.k(W.strip(n_["ch"][0])) == "DeclRefExpr" and W.nodes[W.strip(n_["ch"][0])]["decl"]["id"] in alpha_ids \
                and "cv" not in W.nodes[W.strip(n_["ch"][1])] and x in posW and posW[x][0] in conc:
            uses.append((x, "alpha" if core.poly(W, n_["ch"][1]) == want else "alpha-other:" + W.render(n_["ch"][1])))
    kinds = [k for _x, k in uses]
    one_count = len(nalpha) == 1
    C.ob("MT-8", "walk_descents", "step-handed-to-worker", kinds.count("alpha") >= 1 and not any(k.startswith("alpha-other") for k in kinds if k != "alpha"),
         W.where(), "the step length handed to trial j of block i is element i*workers + j of the step array (other index forms: %s)" % [k for k in kinds if k.startswith("alpha-other")])
    C.ob("MT-8", "walk_descents", "range-bounds", kinds.count("bound") == 3 and one_count, W.where(),
         "the RUN loop, the completion check and the selection scan all stop at i*workers + j >= number of steps (%d of 3, one count parameter: %s)" % (kinds.count("bound"), one_count))
    C.ob("MT-8", "walk_descents", "last-step-test", kinds.count("last") == 1 and one_count, W.where(), "the fallback to the last step tests i*workers + j == number of steps - 1")
    # the reference residual is the one of global index 0
    okr = False
    ref = []
    for x in W.walk():
        if W.k(x) != "IfStmt":
            continue
        conn, leaves = core.cond_leaves(W, W.nodes[x]["cond"])
        zs = set()
        for lf in leaves:
            c_ = W.nodes[W.strip(lf)]
            if c_["k"] == "BinaryOperator" and c_["op"] == "==" and W.nodes[W.strip(c_["ch"][1])].get("cv") == 0 and W.k(W.strip(c_["ch"][0])) == "DeclRefExpr":
                zs.add(W.nodes[W.strip(c_["ch"][0])]["decl"]["id"])
        if conn == "&&" and zs == {iid, jid}:
            ref.append(x)
    res_id = None
    if ref:
        for y in W.walk(W.nodes[ref[0]]["then"]):
            ap = _ts.assign_parts(W, y)
            if ap and W.k(W.strip(ap[0])) == "DeclRefExpr" and field_access(W, W.strip(ap[1])) == "residual":
                res_id = W.nodes[W.strip(ap[0])]["decl"]["id"]
                sub = W.strip(W.nodes[W.strip(ap[1])]["ch"][0])
                okr = W.k(sub) == "ArraySubscriptExpr" and W.k(W.strip(W.nodes[sub]["ch"][1])) == "DeclRefExpr" and W.nodes[W.strip(W.nodes[sub]["ch"][1])]["decl"]["id"] == jid
    C.ob("MT-8", "walk_descents", "reference-residual", okr, W.loc(ref[0]) if ref else W.where(), "the reference residual is the one of global step 0 (alpha = 0)")
    # blocks cover all steps: bound of the block loop is ceil(steps / workers)
    bvar = W.strip(W.nodes[W.strip(W.nodes[outer]["cond"])]["ch"][1]) if outer is not None else -1
    bid = W.nodes[bvar]["decl"]["id"] if bvar >= 0 and W.k(bvar) == "DeclRefExpr" else None
    defs = []
    for x in W.walk():
        if W.k(x) == "DeclStmt":
            defs += [d["init"] for d in W.nodes[x]["decls"] if d.get("id") == bid and d.get("init", -1) >= 0]
        ap = _ts.assign_parts(W, x)
        if ap and ap[1] is not None and W.k(W.strip(ap[0])) == "DeclRefExpr" and W.nodes[W.strip(ap[0])]["decl"]["id"] == bid:
            defs.append(ap[1])
    def is_ceil_div(d):
        cs_ = [y for y in W.walk(d) if (W.nodes[y].get("callee") or {}).get("name") == "ceil"]
        if len(cs_) != 1:
            return False
        arg = W.strip(W.args(cs_[0])[0])
        if W.k(arg) != "BinaryOperator" or W.nodes[arg]["op"] != "/":
            return False
        num = [W.nodes[y]["decl"]["id"] for y in W.walk(W.nodes[arg]["ch"][0]) if W.k(y) == "DeclRefExpr"]
        den = [W.nodes[y]["decl"]["id"] for y in W.walk(W.nodes[arg]["ch"][1]) if W.k(y) == "DeclRefExpr"]
        isdbl = "double" in W.nodes[W.nodes[arg]["ch"][0]].get("t", "") or "double" in W.nodes[W.nodes[arg]["ch"][1]].get("t", "")
        return num == list(nalpha) and den == [tid] and isdbl
    C.ob("MT-8", "walk_descents", "block-count", len(defs) == 1 and is_ceil_div(defs[0]), W.where(),
         "blocks cover all steps: the block loop runs to ceil(steps / workers) computed in floating point")

    # ---------------- MT-7 shared objects
    struct = None
    for q, c in P.classes.items():
        if q.endswith(STRUCT):
            struct = c
    if struct is None:
        raise core.AnalysisBroken("struct descent_trial not found")
    ptr_fields = [fl["name"] for fl in struct["fields"] if fl["isPointer"]]
    per_worker = set()
    nonnull0 = set()
    for i in W.walk():
        if W.k(i) == "BinaryOperator" and W.nodes[i]["op"] == "=":
            l = W.strip(W.nodes[i]["ch"][0])
            fld = field_access(W, l)
            if fld is None:
                continue
            base = W.render(W.ch(l)[0]) if W.ch(l) else ""
            rhs = W.render(W.nodes[i]["ch"][1])
            if base.replace(" ", "") == "descent_trials[0]":
                if rhs.replace("(void *)", "").strip("()") not in ("0", "nullptr", "NULL"):
                    nonnull0.add(fld)
            else:
                per_worker.add(fld)
    shared = [p for p in ptr_fields if p in nonnull0 and p not in per_worker and p not in ("mutex", "cv")]
    if len(shared) < 4:
        raise core.AnalysisBroken("MT-7: shared pointer fields derived from walk_descents: %s (expected at least x, x_F, AtA_F, Atb_F, F, c)" % shared)
    # locals of the worker that alias shared fields (x = trial->x)
    alias = {}
    for i in E.walk():
        if E.k(i) == "BinaryOperator" and E.nodes[i]["op"] == "=":
            l = E.strip(E.nodes[i]["ch"][0])
            r = E.strip(E.nodes[i]["ch"][1])
            if E.k(l) == "DeclRefExpr" and field_access(E, r) in shared:
                alias[E.nodes[l]["decl"]["id"]] = field_access(E, r)

    def shared_of(f, i, alias):
        """which shared object does expression i denote (or point into)?"""
        for x in f.walk(i):
            fld = field_access(f, x)
            if fld in shared:
                return fld
            if f.k(x) == "DeclRefExpr" and f.nodes[x]["decl"].get("id") in alias:
                return alias[f.nodes[x]["decl"]["id"]]
        return None

    unlocked_sites = {}
    # direct stores through shared objects
    for fld in shared:
        unlocked_sites[fld] = []
    for i in E.walk():
        n = E.nodes[i]
        if n["k"] in ("BinaryOperator", "CompoundAssignOperator") and n["op"].endswith("=") and n["op"] not in ("==", "!=", "<=", ">="):
            l = E.strip(n["ch"][0])
            if E.k(l) in ("ArraySubscriptExpr", "UnaryOperator") or (E.k(l) == "MemberExpr" and field_access(E, l) is None):
                sh = shared_of(E, l, alias)
                if sh:
                    unlocked_sites[sh].append((i, "store through shared %s: %s" % (sh, E.render(i)[:80])))

    def scan_calls(f, alias_map, param_shared, depth=0):
        out = []
        for i in f.walk():
            if f.k(i) != "CallExpr":
                continue
            nm = call_name(f, i)
            if nm in (LOCK, UNLOCK, WAITF, BCAST, "pthread_exit"):
                continue
            args = f.args(i)
            for pos_, a in enumerate(args):
                sh = None
                for x in f.walk(a):
                    fld = field_access(f, x)
                    if fld in shared:
                        sh = fld
                    if f.k(x) == "DeclRefExpr":
                        did = f.nodes[x]["decl"].get("id")
                        if did in alias_map:
                            sh = alias_map[did]
                        if did in param_shared:
                            sh = param_shared[did]
                if not sh:
                    continue
                tgt = P.functions.get(f.nodes[i]["callee"]["usr"]) if f.nodes[i].get("callee") else None
                if tgt is not None and tgt.file.endswith(".c") and depth < 2:
                    # follow into the repo's own helper with the parameter bound to the shared object
                    pm = {tgt.params[pos_]["id"]: sh} if pos_ < len(tgt.params) else {}
                    out += [(g, j, s, m, "%s -> %s" % (nm, via)) for (g, j, s, m, via) in scan_calls(tgt, {}, pm, depth + 1)]
                    continue
                mode = CALL_MODES.get(nm)
                if mode is None:
                    out.append((f, i, sh, "unknown", nm))
                else:
                    out.append((f, i, sh, mode.get(pos_, "in"), nm))
        return out
    call_sites = scan_calls(E, alias, {})
    by_field = {}
    for (g, i, sh, mode, via) in call_sites:
        by_field.setdefault(sh, []).append((g, i, mode, via))
    for fld in shared:
        bad = list(unlocked_sites.get(fld, []))
        det = []
        for (g, i, mode, via) in by_field.get(fld, []):
            if mode != "in":
                det.append("%s at %s (%s)" % (via, g.loc(i), mode))
        ok = not bad and not det
        where = E.where()
        if bad:
            where = E.loc(bad[0][0])
        elif det:
            where = det[0].split(" at ")[1].split(" ")[0]
        C.ob("MT-7", "evaluate_descent", "shared:" + fld, ok, where,
             ("shared by all workers and only read in the unlocked region (%d call argument uses)" % len(by_field.get(fld, []))) if ok else
             "object shared by all workers is modified without synchronisation: " + "; ".join([b[1] for b in bad] + det)[:600])


def mt9(P, C):
    """MT-9: per-job accumulators of the worker are reset inside the job loop before the first accumulation."""
    C.rule("MT-9", "every field of the worker's trial record that one job accumulates into (field++, field += ..., buffer[field++] = ...) is "
           "re-initialised by a plain assignment inside the worker's job loop, on every path before the first accumulation of that job — a "
           "worker serves several trial steps when there are fewer workers than steps, and must not carry one job's count into the next", floor=1)
    E = P.one("evaluate_descent", file_endswith="cholesky_solve.c")
    loops = [i for i in E.walk() if E.k(i) in ("WhileStmt", "ForStmt", "DoStmt") and not any(E.k(a) in ("WhileStmt", "ForStmt", "DoStmt") for a in E.ancestors(i))]
    job = [L for L in loops if any(call_name(E, x) == "pthread_cond_wait" for x in E.walk(L) if E.nodes[x].get("callee"))]
    if len(job) != 1:
        raise core.AnalysisBroken("MT-9: expected one outermost job loop containing the wait in evaluate_descent, found %d" % len(job))
    L = job[0]
    inloop = set(E.walk(L))
    acc = {}
    resets = {}
    for i in inloop:
        fld = field_access(E, i)
        if fld is None or not is_store_lhs(E, i):
            continue
        p = E.parent[i]
        while E.k(p) == "ParenExpr":
            p = E.parent[p]
        n = E.nodes[p]
        if n["k"] == "UnaryOperator" or n["k"] == "CompoundAssignOperator":
            acc.setdefault(fld, []).append(p)
        elif n["k"] == "BinaryOperator" and n["op"] == "=":
            # a reset does not read the field it sets
            if not any(field_access(E, x) == fld for x in E.walk(n["ch"][1])):
                resets.setdefault(fld, []).append(p)
    pos = E.node_positions()
    dom = E.dominators()

    def at(i):
        while i >= 0 and i not in pos:
            i = E.parent[i]
        return pos.get(i)

    for fld, sites in sorted(acc.items()):
        bad = []
        for a in sites:
            pa = at(a)
            ok = False
            for r in resets.get(fld, []):
                pr = at(r)
                if pa and pr and ((pr[0] == pa[0] and pr[1] < pa[1]) or (pr[0] != pa[0] and pr[0] in dom.get(pa[0], ()))):
                    ok = True
            if not ok:
                bad.append(a)
        C.ob("MT-9", "evaluate_descent", "accumulator:" + fld, not bad, E.loc(bad[0]) if bad else E.loc(sites[0]),
             ("trial->%s is reset inside the job loop before each job's first accumulation (%d accumulation site(s))" % (fld, len(sites))) if not bad else
             "trial->%s is accumulated at %s without a reset inside the job loop that precedes it on every path: a worker that serves a second "
             "trial step continues from the previous job's value" % (fld, ", ".join(E.loc(b) for b in bad)))
    if not acc:
        raise core.AnalysisBroken("MT-9: no accumulated field found in the job loop")


def mt10(P, C):
    """MT-10: the worker's start routine is left only in answer to TERMINATE."""
    C.rule("MT-10", "every way out of the worker's start routine (return, falling off the end, pthread_exit) is reachable only through the "
           "true edge of a test `state == TERMINATE`: the coordinator hands RUN to every worker it created and waits until each is back in "
           "WAIT, so a worker that leaves for any other reason (a failed set-up call, an error inside a job) is waited for forever", floor=1)
    E = P.one("evaluate_descent", file_endswith="cholesky_solve.c")
    ex = E.cfg["exit"]

    def feasible_succs(b):
        blk = E.blocks[b]
        ss = blk["succ"]
        tc = blk.get("termCond")
        if tc is not None and len(ss) == 2:
            n = E.nodes[E.strip(tc)]
            cv = n.get("cv")
            if cv is not None:                       # constant condition (`while (1)`): only one edge is feasible
                return [ss[0]] if cv else [ss[1]]
            # edge taken when state == TERMINATE: cut (that is the sanctioned way out)
            neg = False
            c = E.strip(tc)
            while E.k(c) == "UnaryOperator" and E.nodes[c].get("op") == "!":
                neg = not neg
                c = E.strip(E.nodes[c]["ch"][0])
            cn = E.nodes[c]
            if cn["k"] == "BinaryOperator" and cn["op"] in ("==", "!="):
                l, r = (E.strip(x) for x in cn["ch"])
                if field_access(E, r) == STATE_FIELD:
                    l, r = r, l
                if field_access(E, l) == STATE_FIELD and E.render(r) == "TERMINATE":
                    eq = (cn["op"] == "==") != neg
                    return [ss[1]] if eq else [ss[0]]
        return ss
    seen, st = set(), [E.cfg["entry"]]
    leaves = []
    n_term = 0
    for b, blk in E.blocks.items():
        tc = blk.get("termCond")
        if tc is not None and "TERMINATE" in E.render(tc):
            n_term += 1
    if not n_term:
        raise core.AnalysisBroken("MT-10: evaluate_descent has no test of state against TERMINATE")
    while st:
        b = st.pop()
        if b in seen or b < 0:
            continue
        seen.add(b)
        blk = E.blocks[b]
        if blk.get("noReturn"):
            calls = [call_name(E, e["n"]) for e in blk["elems"] if e.get("kind") == "stmt" and E.k(e["n"]) == "CallExpr"]
            if any(c in ("pthread_exit", "thrd_exit") for c in calls):
                leaves.append((b, "pthread_exit"))
            continue                                   # abort()/__assert_fail end the process: not a silent leave
        for s in feasible_succs(b):
            if s == ex and b != ex:
                leaves.append((b, "return"))
            elif s >= 0:
                st.append(s)
    det = []
    for b, how in leaves:
        ns = [e["n"] for e in E.blocks[b]["elems"] if e.get("kind") == "stmt"]
        t = E.blocks[b].get("term")
        where = E.loc(t) if t is not None else (E.loc(ns[-1]) if ns else E.where())
        det.append((where, how))
    C.ob("MT-10", "evaluate_descent", "leaves-only-on-terminate", not leaves, det[0][0] if det else E.where(),
         "every exit of the worker lies behind `state == TERMINATE` (%d test(s))" % n_term if not leaves else
         "the worker can leave without having been told to terminate: %s — the coordinator's completion loop then never sees it return to WAIT"
         % ", ".join("%s at %s" % (h, w) for w, h in det))
