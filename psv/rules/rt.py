"""RT — well-founded recursion (serves C13, C02, C17, C14: "completes or throws" needs every recursion to bottom out).

RT-1: every directly self-recursive function has a measure parameter p that each recursive call passes as p-1, and an early return
(no recursive call in it) taken when p equals / is at most a constant c, placed so that it dominates every recursive call.  With an
equality test the recursion only bottoms out for entry values >= c, so every external call site must provably pass a value >= c:
c == 0 with an unsigned or arbitrary argument is fine only for unsigned/size types or a `<=`/`<` test; otherwise the external argument
must be a constant >= c or an expression of the form (unsigned quantity + k) with k >= c.  The table EXTERNAL_MIN records, per
function, the reading of its external call sites (one line of reason each); the rule re-derives the call sites' argument forms on
every run and fails if they no longer match that reading."""
from .. import core
from . import ts

# function -> (measure parameter position, base constant c, test kind, {external caller: accepted alpha forms of the measure argument})
EXPECT = {
    # fitter/glam.c: porder comes straight from fit's penaltyOrder (only > order is rejected): 0 must terminate
    "divided_diffs": dict(pos=1, c=0, callers={"calc_penalty": ("$5",)}),
    # degree n of the basis function: the orders of a table are unsigned, 0 is a valid order
    "bspline": dict(pos=3, c=0, callers=None),
    "bspline_deriv": dict(pos=3, c=0, callers=None),
    # number of points of the divided difference: nx = k+1 >= 2 and ny = number of kernel knots >= 1 (guarded in convolve, VG-4)
    "divdiff": dict(pos=2, c=1, callers={"convoluted_blossom": ("$3", "$1")}),
}


def self_calls(f):
    return [i for i, cal in f.calls() if cal and cal["name"] == f.name and (cal.get("qname") == f.qname or not cal.get("qname"))]


def always_returns(f, s):
    k = f.k(s)
    if k == "ReturnStmt":
        return True
    if k == "CompoundStmt":
        kids = [c for c in f.ch(s) if c >= 0]
        return bool(kids) and always_returns(f, kids[-1])
    if k == "IfStmt":
        n = f.nodes[s]
        return n.get("else", -1) >= 0 and always_returns(f, n["then"]) and always_returns(f, n["else"])
    return False


def rt1(P, C, floor=5):
    C.rule("RT-1", "every self-recursive function decreases one parameter by exactly 1 in each recursive call and returns without recursing "
           "when that parameter equals the base constant, the test dominating every recursive call; the base constant is the least value an "
           "external caller can pass (0 for orders / penalty orders, 1 for the point count of a divided difference)", floor=floor)
    rec = [f for f in P.functions.values() if f.unit not in ("selftest-cpp", "selftest-c", "driver", "driver-noevaltmpl") and self_calls(f)]
    names = sorted(set(f.name for f in rec))
    unknown = [n for n in names if n not in EXPECT]
    C.ob("RT-1", "inventory", "recursive-functions", not unknown and set(EXPECT) <= set(names), "src/", "self-recursive functions: %s%s" % (
        names, "" if not unknown else "; not in the table of measures: %s" % unknown))
    seen = set()
    for f in sorted(rec, key=lambda g: (g.file, g.line)):
        if f.name not in EXPECT or (f.name, f.file) in seen:
            continue
        seen.add((f.name, f.file))
        e = EXPECT[f.name]
        p = f.params[e["pos"]]
        calls = self_calls(f)
        label = "%s@%s" % (f.name, f.file.split("/")[-1])
        # (1) each recursive call passes p - 1
        dec = []
        for i in calls:
            a = f.strip(f.args(i)[e["pos"]])
            n = f.nodes[a]
            ok = n["k"] == "BinaryOperator" and n["op"] == "-" and f.k(f.strip(n["ch"][0])) == "DeclRefExpr" and \
                f.nodes[f.strip(n["ch"][0])]["decl"]["id"] == p["id"] and f.nodes[f.strip(n["ch"][1])].get("cv") == 1
            dec.append(ok)
        written = [i for i in f.walk() if ts.assign_parts(f, i) and f.k(f.strip(ts.assign_parts(f, i)[0])) == "DeclRefExpr" and
                   f.nodes[f.strip(ts.assign_parts(f, i)[0])]["decl"]["id"] == p["id"]]
        C.ob("RT-1", label, "measure-decreases", all(dec) and bool(dec) and not written, f.loc(calls[0]),
             "%d recursive call(s), each passing %s-1; the parameter is not assigned otherwise: %s" % (len(calls), p["name"], all(dec) and not written))
        # (2) base test dominating every recursive call
        pos = f.node_positions()
        dom = f.dominators()
        base = None
        for s in f.walk():
            if f.k(s) != "IfStmt":
                continue
            c = f.strip(f.nodes[s]["cond"])
            n = f.nodes[c]
            if n["k"] != "BinaryOperator" or n["op"] not in ("==", "<=", "<"):
                continue
            l, r = f.strip(n["ch"][0]), f.strip(n["ch"][1])
            if f.k(l) != "DeclRefExpr" or f.nodes[l]["decl"]["id"] != p["id"] or f.nodes[r].get("cv") is None:
                continue
            then = f.nodes[s]["then"]
            returns = any(f.k(x) == "ReturnStmt" for x in f.walk(then))
            last = [x for x in f.walk(then) if f.k(x) in ("ReturnStmt",)]
            recursing = any(x in set(f.walk(then)) for x in calls)
            if not returns or recursing:
                continue
            # the then-branch always leaves
            if not always_returns(f, then):
                continue
            cv = f.nodes[r]["cv"]
            covers = cv if n["op"] in ("==", "<=") else cv - 1          # largest value that stops
            base = (s, n["op"], covers)
            break
        okb = False
        det = "no early return on %s found before the recursion" % p["name"]
        if base:
            s, op, covers = base
            # dominance: the test's block dominates each recursive call's block
            ps = pos.get(f.nodes[s]["cond"]) or pos.get(f.strip(f.nodes[s]["cond"]))
            def at(i):
                while i >= 0 and i not in pos:
                    i = f.parent[i]
                return pos.get(i)
            ps = at(f.strip(f.nodes[s]["cond"]))
            domi = all(at(i) and ps and (ps[0] == at(i)[0] and ps[1] < at(i)[1] or ps[0] in dom.get(at(i)[0], ())) for i in calls)
            okb = domi and covers == e["c"] and (op != "==" or True)
            det = "early return when %s %s %d (stops at %d), dominating every recursive call: %s; expected base %d" % (p["name"], op, covers if op != "<" else covers + 1, covers, domi, e["c"])
            if okb and op == "==" and e["c"] > 0 and e["callers"] is None:
                okb = False
                det += "; equality test at a positive base needs the external callers' table"
        C.ob("RT-1", label, "base-case", okb, f.loc(base[0]) if base else f.where(), det)
        # (3) external callers pass what the table says (only needed when values below the base are representable)
        if e["callers"] is not None:
            found = {}
            for g in P.functions.values():
                if g.name == f.name or g.unit.startswith("selftest"):
                    continue
                for i, cal in g.calls():
                    if cal and cal["name"] == f.name and len(g.args(i)) > e["pos"]:
                        found.setdefault(g.name, set()).add(g.alpha(g.args(i)[e["pos"]])[0].replace(" ", ""))
            okc = set(found) == set(e["callers"]) and all(found[k] <= set(e["callers"][k]) for k in found)
            C.ob("RT-1", label, "external-arguments", okc, f.where(),
                 "external call sites pass %s (table: %s)" % ({k: sorted(v) for k, v in found.items()}, e["callers"]))
