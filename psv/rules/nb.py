"""NB — counting loops over arrays of one entry per dimension (serves C05, C07, C13, C14, C15, C17, C20).

NB-1 is a contradiction rule between an array's extent and the loop that walks it.  An array is known to have exactly N entries when it
is one of the per-dimension members of the table (`order`, `knots`, `nknots`, `naxes`, `strides`, `extents`, `periods`: `ndim` of the same
object), one of the per-dimension arrays of an n-d sparse array (`ranges`, `i`: its `ndim`), or a local declared or allocated with the
extent N (`T a[N]`, `new T[N]`, `allocate<T>(N)`, `std::vector<T> a(N)`, `calloc(N, ..)`, `malloc(N * ..)`).  A loop
`for (v = 0; v <= N; v++)` or `for (v = 0; v < N + 1; v++)` that subscripts such an array with `v` touches the entry one past its end in
its last round.  (Loops that legitimately run to N inclusive — the N+1 lanes of the gradient — subscript arrays of N+1 entries and are
not matched.)  The rule decides only this definite form; an index that is not a plain loop variable is left to the guard rules (VG, KB)."""
import re

from .. import core

PER_DIM_TABLE = ("order", "knots", "nknots", "naxes", "strides", "extents", "periods")
PER_DIM_SPARSE = ("ranges", "i")


def _txt(f, i):
    return f.render(i).replace("this->", "").replace(" ", "")


def _strip_parens(s):
    while s.startswith("(") and s.endswith(")"):
        depth = 0
        ok = True
        for k, ch in enumerate(s):
            if ch == "(":
                depth += 1
            elif ch == ")":
                depth -= 1
                if depth == 0 and k != len(s) - 1:
                    ok = False
                    break
        if not ok:
            break
        s = s[1:-1]
    return s


def _extent_of(f, base, local_ext):
    """text of the number of entries of the array that expression `base` names, or None when it is not known"""
    b = f.strip(base)
    n = f.nodes[b]
    if n["k"] == "MemberExpr":
        name = n.get("member")
        obj = f.ch(b)
        o = f.strip(obj[0]) if obj else -1
        ot = f.nodes[o].get("t", "") if o >= 0 else ""
        if o >= 0 and f.nodes[o]["k"] == "CXXThisExpr":
            prefix = ""
            cls = f.cls or ""
        else:
            prefix = (_txt(f, o) + ("->" if n.get("arrow") else ".")) if o >= 0 else ""
            cls = ot
        if name in PER_DIM_TABLE and "splinetable" in cls and "ndsparse" not in cls:
            return prefix + "ndim"
        if name in PER_DIM_SPARSE and "ndsparse" in cls:
            return prefix + "ndim"
        return None
    if n["k"] == "DeclRefExpr" and n["decl"].get("kind") == "Var":
        return local_ext.get(n["decl"].get("id"))
    return None


def _local_extents(f):
    """local id -> text of its element count, for locals declared or allocated with a visible extent and never re-pointed"""
    out = {}
    stores = {}
    for i in f.walk():
        n = f.nodes[i]
        if n["k"] == "DeclStmt":
            for d in n.get("decls", []):
                if d.get("dk") != "Var" or "id" not in d:
                    continue
                ext = None
                if d.get("extents"):
                    es = [e for e in d["extents"] if e >= 0]
                    if len(es) == 1 and d.get("type", "").count("[") == 1:
                        ext = _strip_parens(_txt(f, es[0]))
                init = d.get("init", -1)
                if ext is None and init is not None and init >= 0:
                    ext = _alloc_extent(f, init, d.get("type", ""))
                if ext is not None:
                    out[d["id"]] = ext
        elif n["k"] == "BinaryOperator" and n.get("op") == "=":
            l = f.strip(n["ch"][0])
            if f.nodes[l]["k"] == "DeclRefExpr" and f.nodes[l]["decl"].get("kind") == "Var":
                stores.setdefault(f.nodes[l]["decl"].get("id"), []).append(n["ch"][1])
    for vid, rhs in stores.items():
        if vid in out:
            out.pop(vid)            # re-pointed after its declaration: extent no longer known
            continue
        if len(rhs) == 1:
            ext = _alloc_extent(f, rhs[0], "")
            if ext is not None:
                out[vid] = ext
    return out


def _alloc_extent(f, init, dtype):
    e = f.strip(init)
    n = f.nodes[e]
    # std::unique_ptr<T[]> p(new T[N]) / T* p = new T[N]
    for x in f.walk(init):
        m = f.nodes[x]
        if m["k"] == "CXXNewExpr" and m.get("array") and f.ch(x):
            return _strip_parens(_txt(f, f.ch(x)[0]))
    cal = n.get("callee") or {}
    if cal.get("name") == "allocate" and len(f.args(e)) == 1:
        return _strip_parens(_txt(f, f.args(e)[0]))
    if cal.get("name") == "calloc" and len(f.args(e)) == 2:
        return _strip_parens(_txt(f, f.args(e)[0]))
    if cal.get("name") == "malloc" and len(f.args(e)) == 1:
        a = f.strip(f.args(e)[0])
        if f.k(a) == "BinaryOperator" and f.nodes[a].get("op") == "*":
            l, r = (f.strip(c) for c in f.nodes[a]["ch"])
            if f.k(r) == "UnaryExprOrTypeTraitExpr":
                return _strip_parens(_txt(f, l))
            if f.k(l) == "UnaryExprOrTypeTraitExpr":
                return _strip_parens(_txt(f, r))
    if n["k"] == "CXXConstructExpr" and "vector" in (n.get("t") or dtype) and len(f.ch(e)) >= 1:
        args = [a for a in f.ch(e) if f.k(a) != "CXXDefaultArgExpr"]
        if len(args) in (1, 2) and "initializer_list" not in f.nodes[args[0]].get("t", "") and \
                re.match(r"^(unsigned|int|long|size_t|uint\d+_t|std::size_t|const )", f.nodes[f.strip(args[0], casts=False)].get("t", "x")):
            return _strip_parens(_txt(f, args[0]))
    return None


def _starts_at_zero(f, init, vid):
    if init is None or init < 0:
        return False
    def zero(e):
        m = f.nodes[f.strip(e)]
        return m.get("cv") == 0 or m.get("v") == 0
    if f.k(init) == "DeclStmt":
        return any(d.get("id") == vid and d.get("init", -1) >= 0 and zero(d["init"]) for d in f.nodes[init].get("decls", []))
    for x in f.walk(init):
        if f.k(x) == "BinaryOperator" and f.nodes[x].get("op") == "=":
            l = f.strip(f.nodes[x]["ch"][0])
            if f.k(l) == "DeclRefExpr" and f.nodes[l]["decl"].get("id") == vid:
                return zero(f.nodes[x]["ch"][1])
    return False


SCOPES = {
    # property scope -> (files, floor: about 80 % of the instances counted on the pinned tree)
    "evaluation": (("bspline_eval.h", "bspline_multi.h", "bspline.h"), 200),
    "reader": (("fitsio.h", "fitsio.cpp", "splinetable.h", "aux.h"), 38),
    "fit": (("fit.h", "glam.c", "splineutil.c", "nnls.c", "cholesky_solve.c"), 105),
    "convolve": (("convolve.h", "convolve.cpp"), 8),
    "permute": (("permute.h",), 8),
    "grideval": (("grideval.h", "splinetable.h", "splineutil.c"), 34),
    "all": (None, 380),
}


def nb1(P, C, scope="all"):
    files, floor = SCOPES[scope]
    C.rule("NB-1", "a counting loop that starts at 0 and subscripts, with its own variable, an array known to hold exactly N entries (a "
           "per-dimension member of a table or of an n-d sparse array, or a local declared/allocated with the extent N) stops before N: "
           "`v <= N` and `v < N + 1` touch the entry one past the end in the last round", floor=floor)
    for f in sorted(P.functions.values(), key=lambda g: (g.file, g.line, g.qname, str(getattr(g, "targs", "")))):
        if not f.file.startswith(core.REPO) or not f.cfg or f.body is None or f.body < 0:
            continue
        if files is not None and not f.file.endswith(tuple("/" + x for x in files)):
            continue
        loops = [i for i in f.walk() if f.k(i) == "ForStmt" and f.nodes[i].get("cond", -1) >= 0]
        if not loops:
            continue
        local_ext = None
        for L in loops:
            n = f.nodes[L]
            c = f.strip(n["cond"])
            if f.k(c) != "BinaryOperator" or f.nodes[c].get("op") not in ("<", "<=", "!="):
                continue
            lv = f.strip(f.nodes[c]["ch"][0])
            if f.k(lv) != "DeclRefExpr" or f.nodes[lv]["decl"].get("kind") != "Var":
                continue
            vid = f.nodes[lv]["decl"].get("id")
            if not _starts_at_zero(f, n.get("init", -1), vid):
                continue
            bound = _strip_parens(_txt(f, f.nodes[c]["ch"][1]))
            op = f.nodes[c]["op"]
            m = re.match(r"^(.*)\+1$", bound)
            if op == "<=":
                reach = bound                       # last round: v == bound
            elif op == "<" and m:
                reach = _strip_parens(m.group(1))
            else:
                reach = None
            strict = bound if op in ("<", "!=") and not m else None
            if local_ext is None:
                local_ext = _local_extents(f)
            seen = set()
            for x in f.walk(n.get("body", -1)):
                k = f.k(x)
                if k == "ArraySubscriptExpr":
                    base, idx = f.nodes[x]["ch"][0], f.nodes[x]["ch"][1]
                elif k == "CXXOperatorCallExpr" and f.nodes[x].get("opcall") == "[]" and len(f.nodes[x]["ch"]) == 3:
                    base, idx = f.nodes[x]["ch"][1], f.nodes[x]["ch"][2]
                else:
                    continue
                ix = f.strip(idx)
                if f.k(ix) != "DeclRefExpr" or f.nodes[ix]["decl"].get("id") != vid or f.nodes[ix]["decl"].get("kind") != "Var":
                    continue
                ext = _extent_of(f, base, local_ext)
                if ext is None:
                    continue
                key = (_txt(f, base), ext)
                if key in seen:
                    continue
                seen.add(key)
                over = reach is not None and reach == ext
                if not over and strict is None and reach is None:
                    continue
                name = f.name + (("<%s>" % ",".join(str(t) for t in f.targs)) if getattr(f, "targs", None) else "")
                C.ob("NB-1", name, "%s[%s]@%d" % (key[0], f.nodes[lv]["decl"].get("name"), f.nodes[L]["loc"][0]), not over, f.loc(L),
                     "%s has %s entries; the loop runs while %s %s %s%s" % (key[0], ext, f.nodes[lv]["decl"].get("name"), op, bound,
                                                                         ": the last round subscripts entry %s, one past the end" % ext if over else ""))
