"""Kill matrix: apply each own mutant (mutants/specs.py) of a property to a scratch copy of /repo and require the named rule to fire."""
import os
import shutil
import subprocess
import sys
import tempfile

from . import core


def scratch_copy(repo):
    d = tempfile.mkdtemp(prefix="psv-mut-", dir="/tmp")
    for sub in ("include", "src", "test"):
        shutil.copytree(os.path.join(repo, sub), os.path.join(d, sub))
    return d


def run_mutants(prop, repo=None, only=None):
    sys.path.insert(0, core.VERIF)
    from mutants.specs import M
    repo = repo or core.REPO
    specs = [m for m in M if m[1] == prop and (only is None or m[0] in only)]
    if not specs:
        return []
    d = scratch_copy(repo)
    out = []
    try:
        evd = os.path.join(d, "_evidence")
        for (mid, p, rel, old, new, rule, note) in specs:
            path = os.path.join(d, rel)
            src = open(path).read()
            if src.count(old) < 1:
                out.append(dict(id=mid, rule=rule, status="stale", detail="anchor text no longer occurs in %s" % rel))
                continue
            open(path, "w").write(src.replace(old, new, 1))     # first occurrence only
            try:
                r = subprocess.run([os.path.join(core.VERIF, "check"), prop, "--tier", "quick", "--repo", d], capture_output=True, text=True,
                                   env=dict(os.environ, PSV_EVIDENCE_DIR=evd, PSV_CACHE_DIR=os.path.join(d, "_cache")), cwd=core.VERIF)
            finally:
                open(path, "w").write(src)
                shutil.rmtree(os.path.join(d, "_cache"), ignore_errors=True)
            lines = [l for l in r.stdout.splitlines() if (" %s [" % rule) in l]
            if r.returncode == 1 and lines:
                out.append(dict(id=mid, rule=rule, status="killed", detail=lines[0][:200].replace(d + "/", "")))
            elif r.returncode == 1:
                other = [l for l in r.stdout.splitlines() if "] " in l and not l.startswith(("VIOLATION", "KNOWN"))][:1]
                out.append(dict(id=mid, rule=rule, status="killed-by-other-rule", detail=(other[0][:200] if other else "").replace(d + "/", "")))
            elif r.returncode == 2:
                out.append(dict(id=mid, rule=rule, status="analysis-broken", detail=r.stdout.strip().splitlines()[-1][:300] if r.stdout.strip() else ""))
            else:
                out.append(dict(id=mid, rule=rule, status="SURVIVED", detail="the check passed on the mutated tree"))
    finally:
        shutil.rmtree(d, ignore_errors=True)
    return out


if __name__ == "__main__":
    import json
    props = sys.argv[1:] or sorted(set(m[1] for m in __import__("mutants.specs", fromlist=["M"]).M))
    bad = 0
    for p in props:
        for r in run_mutants(p):
            print("%-4s %-28s %-6s %-22s %s" % (p, r["id"], r["rule"], r["status"], r["detail"][:110]))
            if r["status"] not in ("killed", "killed-by-other-rule"):
                bad += 1
    sys.exit(1 if bad else 0)
