"""psv.props — which rules decide which property."""
from . import core
from .report import Check
from .rules import cw


def c18(tier):
    C = Check("C18", tier,
              explanation="Static rules over the type-checked AST/CFG of src/cinter/splinetable.cpp and the whole-program "
              "exception-effect summary: header/definition exhaustiveness (CW-0), containment of every raising element in a "
              "swallowing catch(...) (CW-1), failure values in handlers and rejections (CW-2), propagation of bool failure "
              "results (CW-3), handle and result ownership (CW-4), forwarding of parameters and results (CW-5). "
              "Decides the wrapper's shape; does not decide numerical equality of results beyond forwarding.",
              assumptions=["extern \"C\" library functions (cfitsio, CHOLMOD, libc) do not raise C++ exceptions",
                           "libstdc++ algorithms on scalar ranges listed in core.NOTHROW_TABLE do not raise"])
    P = core.load(tier=tier)
    cw.run(P, C)
    C.extra["units"] = sorted(P.units.keys())
    C.extra["functions_analysed"] = len(P.functions)
    return C.finish()


TABLE = {"C18": c18}


def run(prop, tier):
    if prop not in TABLE:
        print("property %s is not claimed by this framework (see MANIFEST.not_applicable)" % prop)
        return 2
    return TABLE[prop](tier)
